"""Per-property check procedures.  Each takes a vlib.Ctx and returns the exit code."""
import json
import os

import vlib

PROPS = {}


def prop(pid):
    def deco(fn):
        PROPS[pid] = fn
        return fn
    return deco


def tla_set(items):
    return "{" + ", ".join(items) + "}"


def tla_strs(items):
    return tla_set('"%s"' % i for i in items)


def replay(ctx, path):
    """Re-run a stored replay file: the single witness case through the same harness command."""
    r = json.load(open(path))
    case = os.path.join(ctx.scratch, "replay-case.json")
    with open(case, "w") as fh:
        fh.write(json.dumps(r["finding"]["input"]) + "\n")
    args = list(r["args"])
    if r["in_flag"] in args:
        args[args.index(r["in_flag"]) + 1] = case
    else:
        args += [r["in_flag"], case]
    rep = ctx.vh_run(args)
    if r["key"] in (rep.get("groups") or {}):
        g = rep["groups"][r["key"]]
        print("VIOLATION property=%s replay=%s" % (r["property"], path))
        print("  what: %s :: %s" % (r["key"], g["first"][0].get("detail", "")[:800]))
        return 1
    print("replay %s: the recorded disagreement does not occur on this tree" % path)
    return 0


# --------------------------------------------------------------------------- Assembler family
def asm_cfg(topkind="any", nodes=4, depth=2, nkeys=2, rejects=1, resets=0,
            routes=("entry", "keyvalue", "keynode"), kinds=("int",), prebuilt="basic",
            hints=(0,), emit=True, view=False):
    inv = ["TypeOK", "NoDuplicateKeys", "ReadFormsAgree"]
    if not view:
        inv.append("BuiltIsFoldOfAccepted")
    if emit:
        inv.append("Emit")
    cfg = """SPECIFICATION Spec
CONSTANTS
  Keys <- GenKeys
  Scalars <- GenScalars
  Prebuilt <- GenPrebuilt
  Hints <- GenHints
  HintMode = "%s"
  TopKind = "%s"
  MaxNodes = %d
  MaxDepth = %d
  MaxRejects = %d
  MaxResets = %d
  Routes = %s
  NKeys = %d
  ScalarKindsUsed = %s
  PrebuiltMode = "%s"
INVARIANTS %s
PROPERTIES RejectIsNoop FinishedNeverChanges
CHECK_DEADLOCK FALSE
""" % (("zero" if tuple(hints) == (0,) else "varied"), topkind, nodes, depth, rejects, resets, tla_strs(routes),
       nkeys, tla_strs(kinds), prebuilt, " ".join(inv))
    if view:
        cfg += "VIEW core\n"
    return cfg


def asm_generate_and_replay(ctx, label, cfg_kwargs, profiles, deep=False, targets=None, frontends=True):
    cases = os.path.join(ctx.scratch, "asm-%s.ndjson" % label)
    ctx.tlc("AssemblerGen", asm_cfg(**cfg_kwargs), capture=cases, timeout=1500)
    args = ["assembler", "-in", cases, "-topkind", cfg_kwargs.get("topkind", "any"),
            "-profiles", ",".join(str(p) for p in profiles)]
    if deep:
        args.append("-deep")
    if targets:
        args += ["-targets", ",".join(targets)]
    if frontends:
        args.append("-frontends")
    rep = ctx.vh_run(args)
    ctx.absorb(rep, args, label="assembler/" + label)
    os.remove(cases)


def asm_trace_cfg(topkind):
    return """SPECIFICATION TraceSpec
CONSTANTS
  Keys = {}
  Scalars = {}
  Prebuilt = {}
  Hints = {0}
  TopKind = "%s"
  MaxNodes = 1000000
  MaxDepth = 1000
  MaxRejects = 1000000
  MaxResets = 1000000
  Routes = {"entry", "keyvalue", "keynode"}
INVARIANTS TypeOK NoDuplicateKeys BuiltIsFoldOfAccepted
POSTCONDITION TraceAccepted
CHECK_DEADLOCK FALSE
""" % topkind


def asm_trace_stage(ctx, sessions, calls):
    """B2: long random sessions recorded from the real builders, validated by TLC against Assembler.tla."""
    total = 0
    for topkind in ("any", "map", "list"):
        tr = os.path.join(ctx.scratch, "asm-trace-%s.ndjson" % topkind)
        args = ["asm-record", "-out", tr, "-sessions", str(sessions), "-calls", str(calls), "-topkind", topkind,
                "-seed", str(ctx.seed * 7919 + len(topkind))]
        rep = ctx.vh_run(args)
        ctx.absorb(rep, None, label="asm-record/" + topkind)
        total += rep.get("extra", {}).get("events", 0)
        ctx.tlc_trace("AssemblerTrace", asm_trace_cfg(topkind), tr, "assembler/recorded-" + topkind,
                      "builder[%s]" % topkind, timeout=1500)
        os.remove(tr)
    ctx.notes.append("trace validation: %d recorded assembler calls (%d sessions of ~%d calls per top kind, nesting <= 6)"
                     % (total, sessions, calls))


def ta_cfg(ti, level, maxdev, rejects=1):
    return """SPECIFICATION TSpec
CONSTANTS
  Keys <- TKeys
  Scalars <- TScalars
  Prebuilt <- TPrebuilt
  Hints = {0}
  TopKind = "any"
  MaxNodes = 16
  MaxDepth = 6
  MaxRejects = %d
  MaxResets = 0
  Routes = {"entry", "keyvalue", "keynode"}
  Wide = FALSE
  TypeIdx = %d
  Level = "%s"
  MaxDev = %d
INVARIANTS TypeOK NoDuplicateKeys BuiltIsFoldOfAccepted LegalIsConforming BuiltViewsConsistent TEmit
PROPERTIES RefinesGeneric RejectIsNoop FinishedNeverChanges
CHECK_DEADLOCK FALSE
""" % (rejects, ti, level, maxdev)


def typed_protocol_cases(ctx, maxdev, rejects=1):
    """Behaviours of TypedAssembler.tla: one JVM per (catalogue type, level)."""
    jobs, files = [], []
    for ti in range(1, NTYPES + 1):
        for level in ("type", "repr"):
            f = os.path.join(ctx.scratch, "ta-%d-%s.ndjson" % (ti, level))
            files.append(f)
            jobs.append(dict(module="TypedAssembler", cfg=ta_cfg(ti, level, maxdev, rejects), capture=f, workers=1,
                             heap="2g", timeout=3000))
    ctx.tlc_parallel(jobs, max_procs=16)
    allf = os.path.join(ctx.scratch, "ta-all.ndjson")
    with open(allf, "w") as out:
        for f in files:
            out.write(open(f).read())
            os.remove(f)
    return allf


def typed_protocol_stage(ctx, maxdev, secondary=False, rejects=1):
    """C12 / C01 on the typed builders of both engines (reflection binding, freshly generated code).
    secondary: also judge how the built node answers questions that do not apply to it (C01)."""
    f = typed_protocol_cases(ctx, maxdev, rejects)
    sec = ["-secondary"] if secondary else []
    args = ["typedasm", "-in", f] + sec
    ctx.absorb(ctx.vh_run(args, timeout=3000), args, label="typedasm/bindnode")
    fconf = schema_cases(ctx, "conforming", 1, "conf")
    genrun = gen_engine(ctx, fconf)
    if genrun is not None:
        args = ["gentypedasm", "-in", f] + sec
        ctx.absorb(ctx.vh_run(args, binary=genrun, timeout=3000), args, label="typedasm/gengo", binary=genrun)
    os.remove(f)


@prop("C12")
def c12(ctx):
    profiles = sorted({0, ctx.seed % 4})
    quick = ctx.tier == "quick"
    # (1) protocol with the pinned rejections injected at every position, generic "any" builder
    #     (thorough bounds fitted to measured state counts: each run stays between 1.5 M and 2.5 M states)
    if quick:
        asm_generate_and_replay(ctx, "any", dict(topkind="any", nodes=4, depth=2, nkeys=2, rejects=1, resets=0,
                                                 prebuilt="basic"), profiles)
    else:
        asm_generate_and_replay(ctx, "any", dict(topkind="any", nodes=5, depth=2, nkeys=2, rejects=1, resets=0,
                                                 prebuilt="basic"), profiles)
        asm_generate_and_replay(ctx, "any-2rej", dict(topkind="any", nodes=4, depth=3, nkeys=2, rejects=2, resets=0,
                                                      prebuilt="basic"), profiles)
        asm_generate_and_replay(ctx, "any-deep", dict(topkind="any", nodes=5, depth=3, nkeys=2, rejects=1, resets=0,
                                                      prebuilt="none"), profiles)
    # (2) map-only and list-only builders: top-level wrong-kind rejections + typed (bindnode) containers
    asm_generate_and_replay(ctx, "map", dict(topkind="map", nodes=4, depth=2, nkeys=2 if quick else 3,
                                             rejects=1, resets=0, kinds=("int", "string"),
                                             prebuilt="basic"), profiles,
                            targets=["basicnode.Map", "bindnode.Map{String:Any}", "bindnode.Map{String:Any}(values not nullable)"])
    asm_generate_and_replay(ctx, "list", dict(topkind="list", nodes=4, depth=2, nkeys=2, rejects=1,
                                              resets=0, kinds=("int", "string"), prebuilt="basic"), profiles,
                            targets=["basicnode.List", "bindnode.List[Any]", "bindnode.List[Any](values not nullable)"])
    # (3) Build / Reset / reuse
    asm_generate_and_replay(ctx, "reset", dict(topkind="any", nodes=4 if quick else 5, depth=2, nkeys=2, rejects=1,
                                               resets=1 if quick else 2, routes=("entry", "keyvalue"),
                                               prebuilt="none"), profiles,
                            targets=["basicnode.Any", "basicnode.Map", "basicnode.List"] if False else None)
    # (4) B3 only: deeper bounds with the history hidden by a VIEW
    ctx.tlc("AssemblerGen", asm_cfg(topkind="any", nodes=6 if quick else 7, depth=3, nkeys=2, rejects=2, resets=1,
                                    prebuilt="basic", emit=False, view=True), timeout=1500)
    # (5) the typed builders of both engines, type level and representation level (TypedAssembler.tla)
    typed_protocol_stage(ctx, 2 if quick else 3)
    # (6) B2: recorded sessions far beyond the exhaustive bounds, validated against the same specification
    asm_trace_stage(ctx, 30 if quick else 400, 300)
    return ctx.finish(
        "model_checking",
        rule="behaviours = every call sequence of Assembler.tla inside the bounds (TLC, exhaustive, one JSON line per "
             "complete behaviour); non-trivial = contains a rejection, an AssignNode or a nested container; distinct = "
             "distinct call sequences; each is replayed per target builder and concretisation profile. Typed builders: "
             "TypedAssembler.tla = the same machine guarded by the schema type governing each position, for each of the 34 "
             "catalogue types at type level and at representation level (struct map/tuple/stringjoin, union keyed/kinded/"
             "stringprefix, enums, typed maps and lists, nested): every legal call sequence within a deviation budget from "
             "the canonical one (field order, route, key as node, other value / null, AssignNode of a whole container), a "
             "repeated key or an unacceptable kind / null injected at every position; replayed on bindnode and on code "
             "generated afresh; the node returned by Build is compared with FromType / FromRepr of Schema.tla applied to "
             "the accepted calls (type view and representation view). Trace validation: seeded random sessions of ~300 "
             "legal calls (nesting <= 6, 8 adversarial keys, repeated keys, AssignNode from three implementations, Build / "
             "Reset / reuse) are recorded from the real builders -- call, arguments, result class returned, node read back "
             "at Build -- and TLC accepts the trace only if Assembler.tla explains every event, with its invariants "
             "evaluated in every state",
        assumptions=["TLC explores the bounded instance exhaustively; bounds are in coverage.tlc_runs",
                     "result classes: ok / repeated_key (datamodel.ErrRepeatedMapKey) / wrong_kind (any error from that call)"],
        exhaustive=True)


def selftest(ctx):
    rep = ctx.vh_run(["selftest"])
    if rep.get("extra", {}).get("selftest_failures", 1) != 0:
        raise vlib.MachineryError("observation checker self-test failed:\n" + rep.get("_stderr", ""))
    ctx.notes.append("projection self-test: reference node accepted, %d broken-node variants rejected" % rep["cases"])


ALLK = ("null", "bool", "int", "float", "string", "bytes", "link")


@prop("C01")
def c01(ctx):
    quick = ctx.tier == "quick"
    profiles = sorted({0, ctx.seed % 4}) if quick else [0, 1, 2, 3]
    selftest(ctx)
    # (1) every value up to the bound over all nine kinds x every route, AssignNode from every implementation
    asm_generate_and_replay(ctx, "allkinds", dict(topkind="any", nodes=3, depth=2, nkeys=2, rejects=0,
                                                  kinds=ALLK, prebuilt="all+uint"), profiles, deep=True)
    # (2) larger shapes, size hints of every sign, fewer scalar kinds
    asm_generate_and_replay(ctx, "hints", dict(topkind="any", nodes=4, depth=2, nkeys=2, rejects=0,
                                               kinds=("int", "string"), prebuilt="none",
                                               hints=(-1, 0, 1, 7), routes=("entry", "keyvalue")), profiles, deep=True)
    if not quick:   # deeper and larger, one size hint (measured: 4 hints at this bound exceed 25 M states)
        asm_generate_and_replay(ctx, "deep", dict(topkind="any", nodes=5, depth=3, nkeys=2, rejects=0,
                                                  kinds=("int", "string"), prebuilt="none",
                                                  hints=(0,), routes=("entry", "keyvalue")), profiles, deep=True)
    # (3) kind-restricted builders: Prototype.Map / .List and typed (bindnode) containers
    asm_generate_and_replay(ctx, "map", dict(topkind="map", nodes=4, depth=2, nkeys=2 if quick else 3, rejects=0,
                                             kinds=("int", "bytes", "null"), prebuilt="all+uint"), profiles, deep=True)
    asm_generate_and_replay(ctx, "list", dict(topkind="list", nodes=4, depth=2, nkeys=2, rejects=0,
                                              kinds=("int", "link", "float"), prebuilt="all+uint"), profiles, deep=True)
    # (4) scalar prototypes
    for k in ("bool", "int", "float", "string", "bytes", "link"):
        asm_generate_and_replay(ctx, "scalar-" + k, dict(topkind=k, nodes=1, depth=1, nkeys=1, rejects=1,
                                                         kinds=ALLK, prebuilt="basic"), [0, 1, 2, 3], deep=True)
    # (5) the typed implementations within their schema's value space: struct / union / enum / typed map and list builders
    #     of bindnode and of freshly generated code, type level and representation level (TypedAssembler.tla)
    typed_protocol_stage(ctx, 2 if quick else 3, secondary=True, rejects=0)   # legal sequences only (rejections: C12)
    return ctx.finish(
        "model_checking",
        rule="behaviours = every legal call sequence of Assembler.tla inside the bounds (all routes: AssembleEntry vs "
             "AssembleKey/AssembleValue, Assign<Kind> vs AssignNode from basicnode/bindnode/foreign nodes, size hints); "
             "each Build is read back through every read form and compared with DataModel!Obs of the specified value, "
             "then DeepEqual/Copy against every other implementation; non-trivial = has a container or AssignNode; "
             "distinct = distinct call sequences. Typed implementations: the behaviours of TypedAssembler.tla (34 catalogue "
             "types x type / representation level, every way of making the calls within the deviation budget) on bindnode and "
             "on code generated afresh; the built node's type view and representation view are read through every read form "
             "(wrong-kind accessors, out-of-range lookups, iterator over-read included) against FromType / FromRepr / ReprOf",
        assumptions=["bounded value size (see tlc_runs); scalar payloads come from the concretisation profiles in harness/model/conc.go",
                     "DeepEqual/Copy are not asserted for uint64 values above MaxInt64 (they go through AsInt; 'where supported')"],
        exhaustive=True)


# --------------------------------------------------------------------------- DAG-CBOR
def cbor_consts(relaxed=False, links=True, maxdepth=1024):
    return """  Relaxed = %s
  AllowLinks = %s
  MaxDepthCfg = %d
""" % ("TRUE" if relaxed else "FALSE", "TRUE" if links else "FALSE", maxdepth)


def enc_cfg(domain, shard, nshards):
    return """SPECIFICATION Spec
CONSTANTS
%s  Domain = "%s"
  Shard = %d
  NShards = %d
INVARIANTS RoundTrip LengthAgrees OrderIndependent CanonicalIsFixpoint Emit
CHECK_DEADLOCK FALSE
""" % (cbor_consts(), domain, shard, nshards)


@prop("C02")
def c02(ctx):
    quick = ctx.tier == "quick"
    plan = [("D1", 2), ("D2", 2), ("D3", 4)] if quick else [("D1", 2), ("D2", 2), ("D3", 4), ("D4", 8), ("D5", 8)]
    jobs = []
    files = []
    for dom, n in plan:
        for sh in range(n):
            f = os.path.join(ctx.scratch, "enc-%s-%d.ndjson" % (dom, sh))
            files.append(f)
            jobs.append(dict(module="DagCborEnc", cfg=enc_cfg(dom, sh, n), capture=f, workers=1,
                             heap="3g", timeout=2400))
    ctx.tlc_parallel(jobs, max_procs=8 if quick else 16)
    allf = os.path.join(ctx.scratch, "enc-all.ndjson")
    with open(allf, "w") as out:
        for f in files:
            out.write(open(f).read())
            os.remove(f)
    args = ["cborenc", "-in", allf, "-seed", str(ctx.seed), "-orders", "200" if quick else "1000"]
    rep = ctx.vh_run(args)
    ctx.absorb(rep, args, label="cborenc")
    return ctx.finish(
        "model_checking",
        rule="one initial state per value of the bounded domains D1..D3 (boundary ints of every head width on both signs "
             "incl. uint64 above int64, length boundaries 0/1/23/24/255/256, keys exercising length-then-bytewise order, "
             "every CID shape, nesting <= 3); TLC checks Dec(Enc(v))=Sorted(v), |Enc(v)|=EncLen(v), order independence; "
             "each value is replayed under every insertion order (cap per value, seeded sample beyond) in 4 node "
             "implementations; non-trivial = container or multi-byte encoding; distinct = distinct values",
        assumptions=["float payloads are opaque 8-byte patterns (TLA+ has no floats)",
                     "the value domain is bounded; see CborValues.tla"],
        exhaustive=True)


def dec_cfg(mode, free=3, alphabet="full", seeds="basic", shard=0, nshards=1, relaxed=False, links=True, maxdepth=1024):
    return """SPECIFICATION Spec
CONSTANTS
%s  Mode = "%s"
  Free = %d
  AlphabetName = "%s"
  SeedSet = "%s"
  Shard = %d
  NShards = %d
INVARIANTS AcceptedDenotesBytes AcceptedCanonical AcceptedWellFormed DepthBounded Emit
CHECK_DEADLOCK FALSE
""" % (cbor_consts(relaxed, links, maxdepth), mode, free, alphabet, seeds, shard, nshards)


def cbordec_stage(ctx, label, cfg, relaxed=False, workers=4, extra_args=None):
    f = os.path.join(ctx.scratch, "dec-%s.ndjson" % label)
    ctx.tlc("DagCborDec", cfg, capture=f, workers=workers, timeout=2400)
    args = ["cbordec", "-in", f] + (["-relaxed"] if relaxed else []) + (extra_args or [])
    rep = ctx.vh_run(args)
    ctx.absorb(rep, args, label="cbordec/" + label)
    os.remove(f)
    return rep


def cbor_random_stage(ctx, n, label, relaxed=False, extra_args=None, maxdepth=1024):
    """Random decoder inputs beyond the enumerated strings: written by the Go side (vh cbor-gen) without verdicts,
    evaluated by TLC on the decoder machine (DagCborDec, Mode = "file"), replayed like every other input."""
    inp = os.path.join(ctx.scratch, "cg-%s.ndjson" % label)
    ctx.vh_run(["cbor-gen", "-n", str(n), "-seed", str(ctx.seed * 31 + len(label)), "-out", inp])
    f = os.path.join(ctx.scratch, "cg-%s-out.ndjson" % label)
    ctx.tlc("DagCborDec", dec_cfg("file", free=0, relaxed=relaxed, maxdepth=maxdepth), capture=f, workers=8, trace_file=inp,
            timeout=3000)
    args = ["cbordec", "-in", f] + (["-relaxed"] if relaxed else []) + (extra_args or [])
    ctx.absorb(ctx.vh_run(args, timeout=3000), args, label="cbordec/random-" + label)
    os.remove(f)
    os.remove(inp)


@prop("C03")
def c03(ctx):
    quick = ctx.tier == "quick"
    # (i) all short strings over the representative alphabet (+ scripted prefixes)
    cbordec_stage(ctx, "short", dec_cfg("explore", free=3 if quick else 4, alphabet="full" if quick else "small"), workers=8)
    cbordec_stage(ctx, "prefixed", dec_cfg("explore", free=2 if quick else 3, alphabet="full", seeds="deep"), workers=8)
    # (ii) byte-level mutants of canonical encodings
    nsh = 8
    jobs = []
    files = []
    for sh in range(nsh):
        f = os.path.join(ctx.scratch, "mut-%d.ndjson" % sh)
        files.append(f)
        jobs.append(dict(module="DagCborDec", cfg=dec_cfg("mutants", shard=sh, nshards=nsh), capture=f, workers=2,
                         heap="3g", timeout=2400))
    ctx.tlc_parallel(jobs, max_procs=8)
    allf = os.path.join(ctx.scratch, "mut-all.ndjson")
    with open(allf, "w") as out:
        for f in files:
            out.write(open(f).read())
            os.remove(f)
    args = ["cbordec", "-in", allf]
    ctx.absorb(ctx.vh_run(args), args, label="cbordec/mutants")
    # (iii) relaxed mode: only what it still promises (indefinite rejected, value fidelity)
    cbordec_stage(ctx, "relaxed", dec_cfg("explore", free=2 if quick else 3, alphabet="full", seeds="deep", relaxed=True),
                  relaxed=True, workers=8)
    # (iv) random inputs beyond these bounds: nested encodings (depth <= 4) and their structural / byte-level mutations
    cbor_random_stage(ctx, 30000 if quick else 300000, "strict")
    cbor_random_stage(ctx, 10000 if quick else 100000, "relaxed", relaxed=True)
    return ctx.finish(
        "model_checking",
        rule="inputs = every byte string over a 51-byte representative alphabet (one byte per major type x additional-info "
             "class + payload bytes) up to the free length, after each scripted prefix, plus every byte-level mutant "
             "(bit flips, substitutions, truncations, extensions, deletions, duplications) of the canonical encodings of "
             "the bounded value domain; the specification's decoder machine gives the verdict (accept + value, or a "
             "labelled rejection) for each and the real decoder must agree; plus seeded random inputs up to 48 bytes -- "
             "encodings of random nested values (depth <= 4, every kind, every head width, several CID shapes) and their "
             "mutations (entries swapped / repeated, heads widened, definite lengths made indefinite, bytes flipped / inserted "
             "/ dropped, truncations, trailing bytes), written by the Go side WITHOUT verdicts and evaluated by TLC on the same "
             "machine; non-trivial = longer than one byte; "
             "distinct = distinct byte strings",
        assumptions=["strings are not required to be valid UTF-8 (the property does not ask for it)",
                     "CID well-formedness follows the CID/multihash/varint specifications (ValidCid)"],
        exhaustive=True)


# --------------------------------------------------------------------------- fsstore
FS_INV = "AtomicVisibility ReaderSeesAbsentOrComplete AckedIsVisible UsableAfterCrash"


def fs_cfg(scenario, emit=True, view=False):
    return """SPECIFICATION Spec
CONSTANTS
  Scenario = "%s"
  NW <- ScNW
  NR <- ScNR
  NK <- ScNK
  WKey <- ScWKey
  WChunks <- ScWChunks
  WMode <- ScWMode
  WPhase <- ScWPhase
  RKey <- ScRKey
  RPhase <- ScRPhase
  DirOf <- ScDirOf
  MaxCrashes <- ScMaxCrashes
  MaxFaults <- ScMaxFaults
  MaxCancels <- ScMaxCancels
INVARIANTS %s%s
PROPERTIES CommittedStays
CHECK_DEADLOCK FALSE
%s""" % (scenario, FS_INV, " Emit" if emit else "", "VIEW core\n" if view else "")


def fs_stage(ctx, scenario, sample=None):
    f = os.path.join(ctx.scratch, "fs-%s.ndjson" % scenario)
    ctx.tlc("FsStoreGen", fs_cfg(scenario), capture=f, workers=8, timeout=2400)
    if sample:
        # keep a seeded sample of the behaviours (the specification run itself was exhaustive)
        import random
        lines = open(f).read().splitlines(True)
        if len(lines) > sample:
            random.Random(ctx.seed).shuffle(lines)
            lines = lines[:sample]
            open(f, "w").writelines(lines)
            ctx.notes.append("%s: replayed a seeded sample of %d behaviours" % (scenario, sample))
    args = ["fsstore", "-in", f, "-scratch", ctx.scratch]
    rep = ctx.vh_run_sharded(args, nshards=8)
    ctx.absorb(rep, args, label="fsstore/" + scenario)
    os.remove(f)


@prop("C18")
def c18(ctx):
    quick = ctx.tier == "quick"
    for sc in ("crash-put", "crash-stream", "crash-abort", "fault-put", "fault-stream", "fault-abort"):
        fs_stage(ctx, sc)
    for sc in ("race-samekey", "race-samedir"):
        fs_stage(ctx, sc, sample=3000 if quick else None)
    fs_stage(ctx, "race-mixed", sample=3000 if quick else 30000)
    # B3 without bounds: the TLAPS proof that AtomicVisibility, ReaderSeesAbsentOrComplete and AckedIsVisible are
    # invariants of FsStore!Spec for every number of writers / readers / keys / chunks, crashes, faults and cancellations
    # (about the specification only: it changes when the specification changes; run in the thorough tier)
    if not quick:
        ctx.tlaps("FsStoreProof")
    # B3 only: three writers + reader, all interleavings (history hidden by the VIEW)
    ctx.tlc("FsStoreGen", fs_cfg("race-3", emit=False, view=True), workers=8, timeout=2400)
    # cancellation: B3 on GiveUp (a writer that notices its cancelled context may abandon, next to a concurrent
    # writer of the same key), and an enumeration of cancel points on the real store
    for sc in ("cancel-put", "cancel-stream"):
        ctx.tlc("FsStoreGen", fs_cfg(sc, emit=False, view=True), workers=8, timeout=2400)
    args = ["fscancel", "-seed", str(ctx.seed), "-scratch", ctx.scratch] + ([] if quick else ["-thorough"])
    ctx.absorb(ctx.vh_run(args, timeout=3000), args, label="fsstore/cancel")
    # a crash that is a real process death: a child process SIGKILLs itself before each filesystem operation of its put
    args = ["fskill", "-seed", str(ctx.seed), "-scratch", ctx.scratch] + ([] if quick else ["-thorough"])
    ctx.absorb(ctx.vh_run(args, timeout=3000), args, label="fsstore/kill")
    # another layout of the base directory: staging on another filesystem than the shards (rename impossible)
    args = ["fslayout", "-scratch", ctx.scratch, "-rounds", "4" if quick else "16"]
    ctx.absorb(ctx.vh_run(args, timeout=3000), args, label="fsstore/layout")
    # free-running stress under the Go race detector: only order-free facts are asserted
    args = ["fsstress", "-dur", "2s" if quick else "20s", "-seed", str(ctx.seed), "-scratch", ctx.scratch]
    rep = ctx.vh_run(args, race=True, race_target="fsstore[stress]")
    ctx.absorb(rep, args, label="fsstore/stress", race=True, race_target="fsstore[stress]")
    return ctx.finish(
        "fault_enumeration",
        rule="behaviours of FsStore.tla generated exhaustively by TLC per scenario: a crash at every point between two "
             "filesystem operations of put / put-stream+commit / abandoned stream followed by a new process reading and "
             "re-putting; an injected failure (torn write included) at every operation; every interleaving of two writers "
             "(same key; different keys in one shard directory; stream + abandoned stream + fault) and a reader. Each is "
             "forced through the real store via the blocking verif hooks and the directory is compared with the "
             "specification's state after every step; cancellation: the writer's context is cancelled immediately before "
             "each of its filesystem operations (put and streams of 1 and 3 writes; 0 B, 57 B, 300 KiB, 1 MiB; the operation "
             "count is discovered by a dry run), then a new handle checks absent-or-complete, acknowledged-is-visible and "
             "usability; kill: the writer is a child PROCESS that sends itself SIGKILL before each of its filesystem operations "
             "(put, streams of 1 and 3 writes; 0 B, 57 B, 300 KiB), then the parent opens the directory: absent or complete, "
             "acknowledged is visible, the key can be put again; layout: '.temp' as a symbolic link to a directory on another filesystem (where one is available: "
             "/dev/shm), 32 MiB puts and streams with a reader polling Get / GetStream from a second handle meanwhile -- "
             "absent or complete, acknowledged is visible (the store may refuse every put there); non-trivial = contains a "
             "crash, a fault, a cancellation, a second thread or the other layout; distinct = distinct schedules",
        assumptions=["process death is simulated in-process in the TLC-driven schedules (threads never resume; files stay as "
                     "they are) and real (SIGKILL of a child process) in the kill stage; power loss / page-cache loss is "
                     "outside the property",
                     "hook points cover every filesystem call of fsstore.go (reviewed)"],
        exhaustive=quick is False)


# --------------------------------------------------------------------------- storage
def st_cfg(nk, maxops, putvias, getvias):
    return """SPECIFICATION Spec
CONSTANTS
  NK = %d
  MaxOps = %d
  PutVias = %s
  GetVias = %s
INVARIANTS TypeOK ReadsReflectPuts Emit
PROPERTIES Monotone
CHECK_DEADLOCK FALSE
""" % (nk, maxops, tla_strs(putvias), tla_strs(getvias))


ST_TRACE_CFG = """SPECIFICATION TraceSpec
CONSTANTS
  NK = 12
  MaxOps = 0
  PutVias = {}
  GetVias = {}
POSTCONDITION TraceAccepted
CHECK_DEADLOCK FALSE
"""


@prop("C17")
def c17(ctx):
    quick = ctx.tier == "quick"
    stages = [("k2", st_cfg(2, 3 if quick else 4, ("put", "stream", "vec"), ("get", "stream", "peek")), 1 if quick else 4),
              ("k3", st_cfg(3, 3 if quick else 4, ("put", "stream"), ("get", "peek")), 2 if quick else 8)]
    for label, cfg, fsevery in stages:
        f = os.path.join(ctx.scratch, "st-%s.ndjson" % label)
        ctx.tlc("StorageGen", cfg, capture=f, workers=8, timeout=2400)
        args = ["storage", "-in", f, "-scratch", ctx.scratch, "-fsevery", str(fsevery)]
        rep = ctx.vh_run_sharded(args, nshards=8 if quick else 16, timeout=3000)
        ctx.absorb(rep, args, label="storage/" + label)
        os.remove(f)
    # B3 without bounds: TLAPS proof of the contract's invariants for every number of keys, operations and routes (a few
    # seconds: checked in both tiers)
    ctx.tlaps("StorageProof")
    # B2: long random histories recorded from the real stores, validated by TLC against the same contract
    tr = os.path.join(ctx.scratch, "storage-trace.ndjson")
    rec = ["storage-record", "-out", tr, "-seed", str(ctx.seed), "-traces", "30" if quick else "300",
           "-ops", "300", "-scratch", ctx.scratch]
    rep = ctx.vh_run(rec)
    ctx.tlc_trace("StorageTrace", ST_TRACE_CFG, tr, "storage/recorded", "storage", timeout=1200)
    ctx.notes.append("trace validation: %d recorded events (%d histories x 300 calls, 12 keys each)"
                     % (rep["extra"].get("events", 0), rep["cases"]))
    return ctx.finish(
        "model_checking",
        rule="histories = every sequence of put/put-stream/put-vec/get/get-stream/peek/has calls of Storage.tla inside the "
             "bounds (TLC, exhaustive), each replayed on memstore, memstore behind the basic interfaces only (fallback "
             "paths), cidlink.Memory and fsstore (default and custom sharding/escaping) under 6 adversarial key profiles "
             "(keys colliding after path cleaning, dot-dot, NUL, empty, 300 bytes, absolute paths), with the caller's "
             "buffer overwritten after every put and every filesystem path checked to lie inside the base directory; "
             "plus recorded random histories validated by TLC; non-trivial = every history (>= 3 calls); distinct = "
             "distinct call sequences",
        assumptions=["content-addressed use: one content per key", "a put refused with an error is outside the property "
                     "(only successful puts are constrained)", "committing a stream with the empty key is the documented "
                     "abandon request, not a put"],
        exhaustive=True)


# --------------------------------------------------------------------------- linking
LK_CFG = """SPECIFICATION Spec
CONSTANTS
  Payloads <- GenPayloads
  Protos <- GenProtos
  Faults <- GenFaults
  Chunks <- GenChunks
INVARIANTS NoUnverifiedData MismatchWins IoErrorsSurface IntactLoads Emit
CHECK_DEADLOCK FALSE
"""
LS_CFG = """SPECIFICATION Spec
CONSTANTS MaxWrites = %d
INVARIANTS NoCommitOnFailure ResultMatchesCommit Emit
CHECK_DEADLOCK FALSE
"""


@prop("C06")
def c06(ctx):
    quick = ctx.tier == "quick"
    f1 = os.path.join(ctx.scratch, "lk.ndjson")
    f2 = os.path.join(ctx.scratch, "ls.ndjson")
    ctx.tlc("LinkingGen", LK_CFG, capture=f1, workers=4)
    ctx.tlc("LinkStoreGen", LS_CFG % (4 if quick else 6), capture=f2, workers=4)
    args = ["linkfault", "-in", f1, "-store", f2, "-seed", str(ctx.seed)] + ([] if quick else ["-thorough"])
    rep = ctx.vh_run(args, timeout=3000)
    ctx.absorb(rep, args, label="linkfault")
    # the harness counts concrete fault scenarios; the TLC terminal states are the scenario classes
    return ctx.finish(
        "fault_enumeration",
        rule="scenario classes = terminal states of Linking.tla (operation x fault kind x relative position x chunking x "
             "decoder reaction, with the result class the specification prescribes) and LinkStore.tla (write failing "
             "first/middle/last, failing encoder, failing open); each class is instantiated on every real stored block "
             "(5 codecs x 7 hash functions/lengths x several values): every offset (quick: first, last and a seeded sample "
             "of 24 middle offsets, one bit each; thorough: every bit of every offset), every truncation length, "
             "extensions, substitutions, a read error after every delivered prefix, chunkings 1/2/whole; non-trivial = the "
             "delivered bytes differ from the stored ones or an error is injected; distinct = distinct (class, block, "
             "concrete fault)",
        assumptions=["Hash is treated as injective: a collision of a truncated (4-byte) digest would be a false alarm of "
                     "probability <= 2^-32 per case", "decoders that return success have read the stream to its end "
                     "(stated in Linking.tla)"],
        exhaustive=not quick)


def lo_cfg(maxops, variants=("a", "b", "c")):
    return """SPECIFICATION Spec
CONSTANTS
  Values = {1, 2}
  Protos = {1, 2}
  Variants = %s
  MaxOps = %d
INVARIANTS LinkIsFunctionOfValueAndPrototype LoadAfterStore Emit
CHECK_DEADLOCK FALSE
""" % (tla_strs(variants), maxops)


@prop("C05")
def c05(ctx):
    quick = ctx.tier == "quick"
    f = os.path.join(ctx.scratch, "lo.ndjson")
    ctx.tlc("LinkOpsGen", lo_cfg(3), capture=f, workers=8)
    args = ["linkops", "-in", f, "-seed", str(ctx.seed), "-profiles", "3" if quick else "12", "-scratch", ctx.scratch]
    ctx.absorb(ctx.vh_run(args, timeout=3000), args, label="linkops/3")
    if not quick:
        ctx.tlc("LinkOpsGen", lo_cfg(4, ("a", "b")), capture=f, workers=8, timeout=2400)
        args = ["linkops", "-in", f, "-seed", str(ctx.seed + 1), "-profiles", "3", "-scratch", ctx.scratch]
        ctx.absorb(ctx.vh_run(args, timeout=3000), args, label="linkops/4")
    return ctx.finish(
        "model_checking",
        rule="histories = every sequence of Store/ComputeLink/Load/LoadRaw/LoadPlusRaw/Fill over 2 values x 2 prototypes x "
             "3 variants (node implementation and map insertion order) inside the bound (TLC, exhaustive); each is "
             "replayed under rotating (prototype pair, value pair) profiles (12 prototypes: 5 codecs, CIDv0/v1, sha2-256, "
             "sha2-512, truncated to 20 and 4, identity, sha1, md5, dbl-sha2-256) on memstore / cidlink.Memory / fsstore; "
             "links are compared relationally (equal iff same prototype and value) and with a CID assembled independently "
             "(hand-written varints + crypto/*); loaded nodes and raw bytes are re-hashed; non-trivial = every history; "
             "distinct = distinct call sequences",
        assumptions=["insertion-order independence is asserted for the key-sorting codecs only",
                     "the expected bytes come from the registered encoder (judged separately by C02/C04)"],
        exhaustive=True)


# --------------------------------------------------------------------------- traversal
TR_INV = "VisitedPathsResolve ParentsBeforeChildren BudgetRespected"


def tr_cfg(mode, depth, shard=0, nshards=1, sample=0):
    return """SPECIFICATION Spec
CONSTANTS
  Cases <- GenCases
  Mode = "%s"
  SelDepth = %d
  Shard = %d
  NShards = %d
  Sample = %d
INVARIANTS %s Emit
CHECK_DEADLOCK FALSE
""" % (mode, depth, shard, nshards, sample, TR_INV)


NGRAPHS = 9


def walk_cases(ctx, mode, depth, label, sample=0):
    jobs, files = [], []
    nshards = NGRAPHS          # one shard per graph of the catalogue
    for sh in range(nshards):
        f = os.path.join(ctx.scratch, "walk-%s-%d.ndjson" % (label, sh))
        files.append(f)
        jobs.append(dict(module="TraversalGen", cfg=tr_cfg(mode, depth, sh, nshards, sample), capture=f, workers=1,
                         heap="3g", timeout=3000))
    ctx.tlc_parallel(jobs, max_procs=9)
    allf = os.path.join(ctx.scratch, "walk-%s.ndjson" % label)
    with open(allf, "w") as out:
        for f in files:
            out.write(open(f).read())
            os.remove(f)
    return allf


def walk_random_stage(ctx, n, runs, label):
    """Random (graph, selector, control) cases beyond the enumerated bounds: written by the Go side without expectations,
    evaluated by TLC on the walk machine of Traversal.tla (Mode = "file"), replayed like every other walk case."""
    jobs, files = [], []
    for i in range(runs):
        cases = os.path.join(ctx.scratch, "wg-%s-%d.ndjson" % (label, i))
        ctx.vh_run(["walk-gen", "-n", str(n), "-seed", str(ctx.seed * 1000 + i * 17 + len(label)), "-out", cases])
        f = os.path.join(ctx.scratch, "wg-%s-%d-out.ndjson" % (label, i))
        files.append(f)
        jobs.append(dict(module="TraversalGen", cfg=tr_cfg("file", 0), capture=f, workers=2, heap="3g", trace_file=cases,
                         timeout=3000))
    ctx.tlc_parallel(jobs, max_procs=8)
    allf = os.path.join(ctx.scratch, "wg-%s-all.ndjson" % label)
    with open(allf, "w") as out:
        for f in files:
            out.write(open(f).read())
            os.remove(f)
    args = ["walk", "-in", allf, "-controls"]
    ctx.absorb(ctx.vh_run(args, timeout=3000), args, label="walk/random-" + label)
    os.remove(allf)


@prop("C07")
def c07(ctx):
    quick = ctx.tier == "quick"
    f = walk_cases(ctx, "plain", 2, "plain")
    args = ["walk", "-in", f]
    ctx.absorb(ctx.vh_run(args, timeout=3000), args, label="walk/plain")
    f = walk_cases(ctx, "subset", 1, "subset")
    args = ["walk", "-in", f]
    ctx.absorb(ctx.vh_run(args, timeout=3000), args, label="walk/subset")
    f = walk_cases(ctx, "plainonce", 2, "plainonce")
    args = ["walk", "-in", f]
    ctx.absorb(ctx.vh_run(args, timeout=3000), args, label="walk/plainonce")
    if not quick:
        for k in range(6):      # six of the 23 hashed classes of depth-3 selectors
            f = walk_cases(ctx, "plain3", 3, "plain3-%d" % k, sample=(ctx.seed + 4 * k) % 23)
            args = ["walk", "-in", f]
            ctx.absorb(ctx.vh_run(args, timeout=3000), args, label="walk/plain3-%d" % k)
            os.remove(f)
    # random cases beyond the bounds (graphs of up to 4 blocks, selectors up to AST depth 5, every clause kind)
    walk_random_stage(ctx, 2500 if quick else 10000, 1 if quick else 24, "c07")
    return ctx.finish(
        "model_checking",
        rule="cases = every selector of the language that compiles up to AST depth 2 (all clause kinds: matcher, subset "
             "matcher, explore-all/-fields/-index/-range/-union, recursion with depth limits 1, 2, none, edges, stop-at) x 7 "
             "graphs (maps, lists, scalars, shared/repeated links, link to a scalar block, empty containers, numeric keys); "
             "the walk machine of Traversal.tla gives the visit sequence (path, reason, node) and the load sequence, "
             "traversal.WalkAdv / WalkMatching must produce exactly these; the same selectors are walked again with "
             "LinkVisitOnlyOnce on the graphs that have links (a link first met where the selector does not explore it must "
             "still be loaded where it does); plus seeded random cases beyond these bounds -- graphs of up to 4 distinct blocks "
             "and depth 4, selectors up to AST depth 5 over every clause kind including ExploreInterpretAs and ones that must "
             "not compile, one random control in half of them -- written by the Go side WITHOUT expectations and evaluated by "
             "TLC on the same walk machine; non-trivial = more than one visit; distinct = distinct (graph, selector, config)",
        assumptions=["selector semantics = the transcription in Selector.tla (the IPLD selector fixtures are absent from the checkout)",
                     "blocks are stored as dag-cbor; linked blocks keep maps in canonical order"],
        exhaustive=True)


@prop("C14")
def c14(ctx):
    f = walk_cases(ctx, "plain", 2, "plain")
    args = ["walk", "-in", f, "-paths"]
    ctx.absorb(ctx.vh_run(args, timeout=3000), args, label="walk/paths")
    if ctx.tier != "quick":   # the paths of four hashed classes of depth-3 selectors as well
        for k in range(4):
            f = walk_cases(ctx, "plain3", 3, "plain3-%d" % k, sample=(ctx.seed + 5 * k + 1) % 23)
            args = ["walk", "-in", f, "-paths"]
            ctx.absorb(ctx.vh_run(args, timeout=3000), args, label="walk/paths3-%d" % k)
            os.remove(f)
    pf = os.path.join(ctx.scratch, "paths.ndjson")
    ctx.tlc("PathsGen", tr_cfg("plain", 1).replace("SPECIFICATION Spec", "SPECIFICATION Spec2")
            .replace(TR_INV + " Emit", "RoundTripIffClean ParseIsClean ResolveIffExists Emit2"), capture=pf, workers=4)
    args = ["paths", "-in", pf]
    ctx.absorb(ctx.vh_run(args), args, label="paths/probes")
    return ctx.finish(
        "model_checking",
        rule="(1) every visit of every C07 walk: the Progress.Path object handed to the callback is retained and, after the "
             "walk, resolved with traversal.Get, Focus and one LookupBySegment at a time (loading links) -- each must give "
             "the visited node; (2) resolution probes: every existing path of every graph (depth <= 3, through links) and its "
             "extension by a missing key / out-of-range index / non-numeric segment on a list / segment below a scalar, "
             "with the verdict of Traversal!Resolve; (3) string form: every path over a 10-segment alphabet (empty, '/', "
             "'a/b', '01', '-', '..', non-ASCII) up to length 3; non-trivial = non-empty path; distinct = distinct cases",
        assumptions=["the node at a path is never a link node: links on the way are loaded (as the walk does)"],
        exhaustive=True)


@prop("C15")
def c15(ctx):
    f = walk_cases(ctx, "ctl", 1, "ctl")
    args = ["walk", "-in", f, "-controls"]
    ctx.absorb(ctx.vh_run(args, timeout=3000), args, label="walk/controls")
    walk_random_stage(ctx, 2500 if ctx.tier == "quick" else 10000, 1 if ctx.tier == "quick" else 24, "c15")
    if ctx.tier != "quick":   # every control over ten of the 41 hashed classes of ALL selectors of AST depth 2
        for k in range(10):
            f = walk_cases(ctx, "ctl2", 2, "ctl2-%d" % k, sample=(ctx.seed + 4 * k) % 41)
            args = ["walk", "-in", f, "-controls"]
            ctx.absorb(ctx.vh_run(args, timeout=5000), args, label="walk/controls2-%d" % k)
            os.remove(f)
    return ctx.finish(
        "model_checking",
        rule="cases = 7 graphs x 6-7 selectors (recursive explore-all with and without limits and stop-at, unions, fields) x "
             "every control on its own: node budget 0..10, link budget 0..4, every start-at path of the graph up to depth 3, "
             "visit-links-once, every skip set of <= 2 blocks; the walk machine of Traversal.tla (budgets, the start-at "
             "filter of the recurse closure, seen-links, SkipMe) predicts visits, loads and the budget error with its path; "
             "the real walk must agree AND satisfy the stated relation against the real unrestricted walk (first N visits, "
             "tail from the start path, subsequence, each link once); non-trivial = more than one visit or an error; "
             "distinct = distinct (graph, selector, control)",
        assumptions=["each control is applied on its own, without a preloader (as the property says)"],
        exhaustive=True)


# --------------------------------------------------------------------------- transforms
def tf_cfg(tmode, sample=0):
    return """SPECIFICATION Spec
CONSTANTS
  Mode = "plain"
  SelDepth = 1
  Shard = 0
  NShards = 1
  Sample = %d
  TMode = "%s"
INVARIANTS IdentityIsIdentity ReplaceLandsAtTarget RemoveRemoves Emit
CHECK_DEADLOCK FALSE
""" % (sample, tmode)


@prop("C16")
def c16(ctx):
    modes = [("focus", 0), ("focus2", 0), ("walk", 0)] if ctx.tier == "quick" else \
        [("focus", 0), ("focus2all", 0), ("walk", 0)] + [("walk2", k) for k in range(13)]     # ALL depth-2 selectors
    for tmode, sample in modes:
        f = os.path.join(ctx.scratch, "tf-%s-%d.ndjson" % (tmode, sample))
        ctx.tlc("TransformGen", tf_cfg(tmode, sample), capture=f, workers=4, timeout=2400)
        args = ["transform", "-in", f]
        ctx.absorb(ctx.vh_run(args, timeout=3000), args, label="transform/" + tmode)
    # walking transforms over random graphs and selectors beyond the bounds (the cases of vh walk-gen, evaluated by TLC)
    cases = os.path.join(ctx.scratch, "wg-tf.ndjson")
    ctx.vh_run(["walk-gen", "-n", "2500" if ctx.tier == "quick" else "60000", "-seed", str(ctx.seed * 1000 + 99), "-out", cases])
    f = os.path.join(ctx.scratch, "tf-walkfile.ndjson")
    ctx.tlc("TransformGen", tf_cfg("walkfile"), capture=f, workers=4, trace_file=cases, timeout=2400)
    args = ["transform", "-in", f]
    ctx.absorb(ctx.vh_run(args, timeout=3000), args, label="transform/walk-random")
    return ctx.finish(
        "model_checking",
        rule="cases = 9 graphs x every target path (every existing path up to depth 3 incl. through links; new map keys; "
             "list append '-'; index beyond the bounds; non-numeric segment on a list; below a scalar; missing parents with "
             "and without createParents) x {identity, replace by a map, replace by a string, remove} for the focused "
             "transform; sequences of two focused transforms; the walking transform over 12-13 selectors per graph with a "
             "callback that rewrites integers. Transform.tla gives the expected EXPANDED tree (links carry their block's "
             "content) or the expected failure; the harness compares the result loaded through the link system, re-reads "
             "the input tree and every pre-existing block, checks that untouched blocks keep their links and what the "
             "callback was shown; non-trivial = non-empty path or walking transform; distinct = distinct cases",
        assumptions=["identity/removal of a position that does not exist, and replacing the root by a value of another kind, "
                     "are outside the quantifier (values acceptable at the target position)",
                     "below a link the entry order of maps is the codec's canonical order"],
        exhaustive=True)


# --------------------------------------------------------------------------- DAG-JSON
def dj_cfg(shard, nshards, deep=False):
    return """SPECIFICATION Spec
CONSTANTS
  Shard = %d
  NShards = %d
  Deep = %s
INVARIANTS RoundTripIffNotReserved OrderIndependent Emit
CHECK_DEADLOCK FALSE
""" % (shard, nshards, "TRUE" if deep else "FALSE")


@prop("C04")
def c04(ctx):
    quick = ctx.tier == "quick"
    nsh = 8 if quick else 16
    jobs, files = [], []
    for sh in range(nsh):
        f = os.path.join(ctx.scratch, "dj-%d.ndjson" % sh)
        files.append(f)
        jobs.append(dict(module="DagJsonEnc", cfg=dj_cfg(sh, nsh, deep=not quick), capture=f, workers=1, heap="3g", timeout=2400))
    ctx.tlc_parallel(jobs, max_procs=nsh)
    allf = os.path.join(ctx.scratch, "dj-all.ndjson")
    with open(allf, "w") as out:
        for f in files:
            out.write(open(f).read())
            os.remove(f)
    args = ["jsonenc", "-in", allf, "-seed", str(ctx.seed), "-orders", "120" if quick else "1000"]
    ctx.absorb(ctx.vh_run(args, timeout=3000), args, label="jsonenc")
    return ctx.finish(
        "model_checking",
        rule="one initial state per value of the bounded domain (int64 boundaries on both signs, floats by class: "
             "fractional, integral, +-0, 1e20, 1e21, 1e-6, 1e-7, max, subnormal, 2^53; strings and keys with quotes, "
             "backslash, control characters, U+2028, non-BMP, '/', 'bytes'; bytes of every base64 padding class; every CID "
             "shape; nesting <= 3; the reserved shapes and their neighbours); TLC checks DecJ(EncJ(v)) = Sorted(v) <=> "
             "not Reserved(v) and order independence; each non-reserved value is encoded under every insertion order in 4 "
             "node implementations (bytes must be identical), tokenised with encoding/json and compared with the specified "
             "token sequence, and decoded back (kinds must be preserved); non-trivial = more than one token; distinct = "
             "distinct values",
        assumptions=["lexical forms (number formatting, escapes, base64, CID strings) are judged through independent Go "
                     "oracles: encoding/json tokenizer, encoding/base64, math/big, strconv"],
        exhaustive=True)


# --------------------------------------------------------------------------- schemas
NTYPES = 46


def sg_cfg(mode, shard, nshards, mutevery, wide=False):
    return """SPECIFICATION Spec
CONSTANTS
  SMode = "%s"
  Shard = %d
  NShards = %d
  MutEvery = %d
  Wide = %s
INVARIANTS ReprRoundTrips FeedRoundTrips AcceptedMutantsAreInhabitants Emit
CHECK_DEADLOCK FALSE
""" % (mode, shard, nshards, mutevery, "TRUE" if wide else "FALSE")


def schema_cases(ctx, mode, mutevery, label, wide=False):
    jobs, files = [], []
    for sh in range(NTYPES):
        f = os.path.join(ctx.scratch, "sg-%s-%d.ndjson" % (label, sh))
        files.append(f)
        jobs.append(dict(module="SchemaGen", cfg=sg_cfg(mode, sh, NTYPES, mutevery, wide), capture=f, workers=1,
                         heap="2g", timeout=3000))
    ctx.tlc_parallel(jobs, max_procs=16)
    allf = os.path.join(ctx.scratch, "sg-%s.ndjson" % label)
    with open(allf, "w") as out:
        for f in files:
            out.write(open(f).read())
            os.remove(f)
    return allf


def random_schema_cases(ctx, mode, ntypes, every, label, genonly=False, seedoff=0, maxinh=None):
    """Random type systems beyond the catalogue: vh schema-gen writes the types (only types), TLC enumerates their inhabitants
    / the local mutations of those and evaluates ReprOf / FromType / FromRepr (SchemaGen, SMode = file-*)."""
    types = os.path.join(ctx.scratch, "types-%s.ndjson" % label)
    ctx.vh_run(["schema-gen", "-n", str(ntypes), "-seed", str(ctx.seed * 7 + seedoff), "-out", types,
                "-maxinh", str(maxinh or (600 if mode == "mutants" else 1500))] + (["-genonly"] if genonly else []))
    jobs, files = [], []
    nsh = 8
    for sh in range(nsh):
        f = os.path.join(ctx.scratch, "sgf-%s-%d.ndjson" % (label, sh))
        files.append(f)
        jobs.append(dict(module="SchemaGen", cfg=sg_cfg("file-" + mode, sh, nsh, every), capture=f, workers=1, heap="3g",
                         trace_file=types, timeout=3000))
    ctx.tlc_parallel(jobs, max_procs=8)
    allf = os.path.join(ctx.scratch, "sgf-%s.ndjson" % label)
    with open(allf, "w") as out:
        for f in files:
            out.write(open(f).read())
            os.remove(f)
    ctx.last_types_file = types
    return allf


@prop("C08")
def c08(ctx):
    f = schema_cases(ctx, "conforming", 1, "conf")
    args = ["schema", "-in", f, "-roundtrip"]
    ctx.absorb(ctx.vh_run(args, timeout=3000), args, label="schema/conforming")
    # the same cases over a type system that is LOADED: each type is rendered as IPLD Schema DSL text and goes through the
    # library's schema/dsl parser, schema/dmt and Compile instead of the schema.Spawn* calls
    args = ["schema", "-in", f, "-roundtrip", "-dsl"]
    ctx.absorb(ctx.vh_run(args, timeout=3000), args, label="schema/conforming-dsl")
    # random type systems beyond the catalogue (a seeded sample of the inhabitants of each), both ways of building them
    quick = ctx.tier == "quick"
    fr = random_schema_cases(ctx, "conforming", 60 if quick else 1500, 3 if quick else 2, "rconf")
    for extra, label in (([], "schema/random-types"), (["-dsl"], "schema/random-types-dsl")):
        args = ["schema", "-in", fr, "-roundtrip"] + extra
        ctx.absorb(ctx.vh_run(args, timeout=3000), args, label=label)
    return ctx.finish(
        "model_checking",
        rule="cases = every inhabitant (up to the value bound) of each of 34 types of the catalogue: every representation "
             "strategy (struct map with renames / tuple / stringjoin / listpairs, union keyed / kinded / stringprefix, enum "
             "string / int, typed maps and lists), each nested in others, every optional / nullable / both combination; TLC "
             "checks FromRepr(ReprOf(tv)) = tv and FromType(Feed(tv)) = tv on the specification and emits (type, type-level "
             "input, typed value, representation view); the harness builds the value through the type-level AND the "
             "representation-level builder of bindnode, reads both views of both nodes through every read form, then "
             "encodes the representation (dag-cbor, dag-json), decodes through the representation builder and re-encodes; "
             "every case runs twice: over the type system spawned through the Go API, and over the one the library loads "
             "from the type rendered as Schema DSL text (schema/dsl parser, schema/dmt, Compile); plus seeded RANDOM type "
             "systems beyond the catalogue (every strategy nested in the others at random, random renames, optional / "
             "nullable fields, enums and unions of every representation): vh schema-gen writes only the types, TLC enumerates "
             "their inhabitants (a hashed third of them) and evaluates the same mappings; "
             "non-trivial = every case; distinct = distinct (type, value)",
        assumptions=["stringjoin field values and stringprefix member strings do not contain the delimiter (the representation "
                     "is not injective there by construction)", "generated code is compared under C13"],
        exhaustive=True)


@prop("C09")
def c09(ctx):
    quick = ctx.tier == "quick"
    f = schema_cases(ctx, "mutants", 29 if quick else 5, "mut")
    args = ["schema", "-in", f]
    ctx.absorb(ctx.vh_run(args, timeout=3000), args, label="schema/mutants")
    args = ["schema", "-in", f, "-dsl"]    # the type system loaded from rendered DSL text
    ctx.absorb(ctx.vh_run(args, timeout=3000), args, label="schema/mutants-dsl")
    # the local mutations of inhabitants of random type systems beyond the catalogue
    fr = random_schema_cases(ctx, "mutants", 16 if quick else 150, 23 if quick else 7, "rmut", seedoff=1)
    args = ["schema", "-in", fr]
    ctx.absorb(ctx.vh_run(args, timeout=3000), args, label="schema/random-types-mutants")
    # the second typed-node engine: code generated afresh from the working tree, same mutants
    fconf = schema_cases(ctx, "conforming", 1, "conf")
    genrun = gen_engine(ctx, fconf)
    if genrun is not None:
        args = ["genschema", "-in", f]
        ctx.absorb(ctx.vh_run(args, binary=genrun, timeout=3000), args, label="genrun/mutants", binary=genrun)
    return ctx.finish(
        "model_checking",
        rule="cases = every local mutation (dropped / duplicated / renamed-to-unknown / renamed-to-another-name / nulled / "
             "retyped / reordered / extra entry or element / wrong container / out-of-range scalar, at every position) of the "
             "type-level input and of the representation of a hashed sample of the inhabitants of each of the 34 types; "
             "FromType / FromRepr of Schema.tla give the verdict and, when accepted, the typed value; the harness feeds each "
             "tree to bindnode's builders AND to the builders of code generated afresh by schema/gen/go (the types inside the "
             "generator's feature set) under recover(): a panic, an acceptance of a non-conforming tree, a refusal of a "
             "conforming one or a node that does not read back as the specified typed value is a disagreement; "
             "non-trivial = every case; distinct = distinct (type, level, input)",
        assumptions=["inputs are fed directly as assembler calls (duplicate keys included)"],
        exhaustive=not quick)


def gen_engine(ctx, fconf, race=False, memlayout=None):
    """Generate the catalogue's type systems afresh with schema/gen/go of the working tree, compile them with the runner.
    Returns the runner binary, or None when the generated package does not compile (recorded as a finding)."""
    import shutil
    import subprocess
    import time
    src = ctx.harness_src()
    gen_dir = os.path.join(src, "gen")
    if os.path.isdir(gen_dir):
        shutil.rmtree(gen_dir)
    # (1) run the generator of the working tree
    args = ["gengo", "-in", fconf, "-out", gen_dir] + (["-memlayout", memlayout] if memlayout else [])
    rep = ctx.vh_run(args)
    ctx.absorb(rep, None, label="gengo/generate")
    ntypes = len(rep.get("extra", {}).get("generated_types", []))
    ctx.notes.append("generated %d types afresh; outside the generator's feature set: %s"
                     % (ntypes, rep.get("extra", {}).get("outside_generator_feature_set")))
    # (2) the generated package must compile (together with the runner)
    os.makedirs(os.path.join(src, "cmd", "genrun"), exist_ok=True)
    shutil.copy(os.path.join(src, "gentmpl", "genrun_main.go.txt"), os.path.join(src, "cmd", "genrun", "main.go"))
    genrun = os.path.join(ctx.scratch, ("genrun-race" if race else "genrun") + ("-" + memlayout if memlayout else ""))
    t0 = time.time()
    p = subprocess.run(["go", "build", "-tags", "verif"] + (["-race"] if race else []) + ["-o", genrun, "./cmd/genrun"], cwd=src, env=ctx.goenv(),
                       stdout=subprocess.PIPE, stderr=subprocess.STDOUT, text=True)
    ctx.log("generated package + runner compiled in %.1fs (rc=%d)" % (time.time() - t0, p.returncode))
    if p.returncode != 0:
        if "verifharness/gen" in p.stdout or "/gen/" in p.stdout or "gen/ipldsch" in p.stdout:
            ctx.groups.append({"key": "gengo | GeneratedPackageCompiles | compile-error", "label": "gengo/compile", "args": None,
                               "in_flag": "-in", "group": {"count": 1, "first": [{"case": 0, "step": -1, "target": "gengo",
                               "rule": "GeneratedPackageCompiles", "class": "compile-error", "detail": p.stdout[-3000:]}]}})
            return None
        raise vlib.MachineryError("runner build failed:\n" + p.stdout[-3000:])
    return genrun


@prop("C13")
def c13(ctx):
    quick = ctx.tier == "quick"
    fconf = schema_cases(ctx, "conforming", 1, "conf")
    fmut = schema_cases(ctx, "mutants", 29 if quick else 5, "mut")
    # random type systems inside the generator's feature set are generated and compiled together with the catalogue's
    frc = random_schema_cases(ctx, "conforming", 25 if quick else 120, 3, "gconf", genonly=True, seedoff=2, maxinh=600)
    frm = random_schema_cases(ctx, "mutants", 25 if quick else 120, 23 if quick else 7, "gmut", genonly=True, seedoff=2, maxinh=600)
    fall = os.path.join(ctx.scratch, "sg-conf-all.ndjson")
    with open(fall, "w") as out:
        out.write(open(fconf).read())
        out.write(open(ctx.last_types_file).read())     # every random type, also those whose sampled inhabitants are none
    genrun = gen_engine(ctx, fall)
    if genrun is None:
        return ctx.finish("model_checking", rule="generated package failed to compile", exhaustive=False)
    # (3) the same cases as C08 / C09 on the generated prototypes
    for label, f, extra in (("conforming", fconf, ["-roundtrip"]), ("mutants", fmut, []),
                            ("random-types-conforming", frc, ["-roundtrip"]), ("random-types-mutants", frm, [])):
        args = ["genschema", "-in", f] + extra
        rep = ctx.vh_run(args, binary=genrun, timeout=3000)
        ctx.absorb(rep, args, label="genrun/" + label, binary=genrun)
    # (4) another configuration of the generator: every union with the non-default memory layout "interface"
    genrun2 = gen_engine(ctx, fall, memlayout="interface")
    if genrun2 is not None:
        for label, f, extra in (("conforming", fconf, ["-roundtrip"]), ("mutants", fmut, []),
                                ("random-types-conforming", frc, ["-roundtrip"])):
            args = ["genschema", "-in", f] + extra
            rep = ctx.vh_run(args, binary=genrun2, timeout=3000)
            ctx.absorb(rep, args, label="genrun[unions as interfaces]/" + label, binary=genrun2)
    return ctx.finish(
        "model_checking",
        rule="programs = the type systems of the catalogue inside the generator's feature set (no enum, any, listpairs), "
             "generated AFRESH by schema/gen/go of the working tree and compiled with a runner (a compile failure is a "
             "violation); cases = the C08 inhabitants and C09 mutants of those types; the generated prototypes, builders, "
             "nodes and representation views are compared with the specification exactly as bindnode is (accept / reject, "
             "typed view, representation view, dag-cbor and dag-json round trip), and bindnode is run on the same case so "
             "that a disagreement between the engines is visible; the whole again for the generator's non-default union "
             "memory layout (CfgUnionMemlayout = interface for every union); non-trivial = every case; distinct = distinct "
             "(type, level, input)",
        assumptions=["observational equivalence is decided through the common specification: both engines must agree with "
                     "Schema.tla on every case (three-way comparison)"],
        exhaustive=not quick)


# --------------------------------------------------------------------------- binding
BD_CFG = """SPECIFICATION Spec
CONSTANTS
  GoTypes <- GenTypes
  Nested <- GenNested
  MaxOps = %d
INVARIANTS AlwaysSucceeds Emit
PROPERTIES RegistryMonotone
CHECK_DEADLOCK FALSE
"""


@prop("C19")
def c19(ctx):
    quick = ctx.tier == "quick"
    # (1) purity: every history of bind calls, each in a fresh process (the state in question is process-global)
    f = os.path.join(ctx.scratch, "bind.ndjson")
    ctx.tlc("BindGen", BD_CFG % (3 if quick else 4), capture=f, workers=8, timeout=2400)
    args = ["bindhist", "-in", f, "-every", "4" if quick else "3"]
    ctx.absorb(ctx.vh_run(args, timeout=3000), args, label="bind/histories")
    # (1b) ... and the FIRST inferred bind of a Go type from several goroutines at once (240 fresh types, race detector)
    args = ["bindrace", "-g", "4" if quick else "8"]
    rep = ctx.vh_run(args, race=True, race_target="bindnode.Prototype[first inferred bind, concurrent]", timeout=3000)
    ctx.absorb(rep, args, label="bind/first-bind-concurrent", race=True, race_target="bindnode.Prototype[first inferred bind, concurrent]")
    # (2) faithfulness: every inhabitant of the library's types
    fconf = schema_cases(ctx, "conforming", 1, "conf", wide=True)
    args = ["bindval", "-in", fconf]
    ctx.absorb(ctx.vh_run(args, timeout=3000), args, label="bind/values")
    return ctx.finish(
        "model_checking",
        rule="(1) histories = every sequence of 3 calls from Prototype / Wrap / build+Unwrap / Marshal+Unmarshal x 3 named Go "
             "types (one containing another) x explicit or inferred schema that contains an inferred bind (TLC, exhaustive; "
             "quick tier replays every 4th), each run in a fresh process: every call must succeed and give the result it "
             "gives alone; (2) values = every inhabitant TLC enumerates for the 20 catalogue types that have a hand-declared "
             "Go type in the library (struct fields, slices, Keys/Values map structs, pointers for optional / nullable, double "
             "pointers for both, union structs, int8 / uint8 / uint16 / int32 / uint64 at their boundaries): the Go value is "
             "constructed by an independent reflection walker, Wrap must expose the specified type-level and representation "
             "views, build+Unwrap must return the same Go value, Marshal+Unmarshal (dag-cbor, dag-json) must reproduce it; "
             "non-trivial = every case; distinct = distinct histories / (type, value)",
        assumptions=["the Go-type vocabulary is a finite hand-written library, not a quantifier TLC ranges over",
                     "an empty slice / map and a nil one hold the same data; Keys order is canonicalised after a sorting codec"],
        exhaustive=not quick)


# --------------------------------------------------------------------------- concurrency
def cc_cfg(ng, opsper, withgen=False):
    return """SPECIFICATION Spec
CONSTANTS
  NG = %d
  OpsPer = %d
  OpNames <- AllOps
  WithGen = %s
INVARIANTS NoConflict Emit
CHECK_DEADLOCK FALSE
""" % (ng, opsper, "TRUE" if withgen else "FALSE")


@prop("C20")
def c20(ctx):
    quick = ctx.tier == "quick"
    plans = [(2, 1, 30), (3, 1, 6 if quick else 30)]
    if not quick:
        plans.append((2, 2, 2))      # two operations per goroutine: an operation overlapping the switch between two others
    for ng, opsper, iters in plans:
        f = os.path.join(ctx.scratch, "cc-%d-%d.ndjson" % (ng, opsper))
        ctx.tlc("ConcurrencyGen", cc_cfg(ng, opsper), capture=f, workers=8, timeout=2400)
        args = ["conc", "-in", f, "-iters", str(iters)]
        rep = ctx.vh_run(args, race=True, race_target="concurrent", timeout=3000)
        ctx.absorb(rep, args, label="conc/%dx%d" % (ng, opsper), race=True, race_target="concurrent")
    # the first inferred bind of a Go type from several goroutines at once, next to users of types inferred earlier
    args = ["bindrace", "-g", "4" if quick else "8"]
    rep = ctx.vh_run(args, race=True, race_target="bindnode.Prototype[first inferred bind, concurrent]", timeout=3000)
    ctx.absorb(rep, args, label="conc/first-bind", race=True, race_target="bindnode.Prototype[first inferred bind, concurrent]")
    # nodes and prototypes of freshly generated code as shared objects: the mixes that involve one of them, run by the
    # runner that is compiled (with -race) together with the generated package
    fconf = schema_cases(ctx, "conforming", 1, "conf")
    genrun = gen_engine(ctx, fconf, race=True)
    if genrun is not None:
        for ng, iters in ((2, 30), (3, 6 if quick else 20)):
            f = os.path.join(ctx.scratch, "ccg-%d.ndjson" % ng)
            ctx.tlc("ConcurrencyGen", cc_cfg(ng, 1, withgen=True), capture=f, workers=8, timeout=2400)
            args = ["conc", "-in", f, "-iters", str(iters)]
            rep = ctx.vh_run(args, race=True, race_target="concurrent", timeout=3000, binary=genrun)
            ctx.absorb(rep, args, label="conc-gen/%dx1" % ng, race=True, race_target="concurrent", binary=genrun)
    return ctx.finish(
        "exploration",
        rule="mixes = every assignment of one operation to each of 2 and of 3 goroutines from 15 read-only operations (full "
             "read of generic / reflection-bound / representation nodes, DeepEqual, Copy, dag-cbor and dag-json encode, a "
             "walk with a shared compiled selector and Config across links, Load and LoadRaw through a shared link system "
             "over a read-only store, building from shared prototypes, Wrap with an explicit schema, Prototype with an "
             "inferred schema, first field lookups on a freshly created struct type, copying a type out of / merging a shared "
             "type system; and, in a runner compiled with freshly generated code: full read of a generated node and of its "
             "representation, encoding it, copying it, building from the shared generated prototype); TLC checks NoConflict on the declared "
             "footprints for every interleaving of begin/end and emits the mixes; each mix runs free-running under the Go "
             "race detector with every result compared to the sequential run; non-trivial = every mix; distinct = distinct "
             "mixes",
        assumptions=["the data-race verdict comes from executions observed by the Go race detector (compiler "
                     "instrumentation as the trace recorder), not from TLC", "no scheduler gates are used: channel hand-offs "
                     "would add happens-before edges and hide races"],
        exhaustive=False)


# --------------------------------------------------------------------------- immutability
def im_cfg(maxops, maxnodes, producer="all"):
    return """SPECIFICATION Spec
CONSTANTS
  ProducerSel = "%s"
  Producers <- GenProducers
  Values0 <- GenValues
  OpNames <- GenOps
  MaxOps = %d
  MaxNodes = %d
INVARIANTS Emit
PROPERTIES FinishedNeverChanges
CHECK_DEADLOCK FALSE
""" % (producer, maxops, maxnodes)


IM_PRODUCERS = ("basic-any", "basic-typed", "bind", "decode-cbor", "decode-json")


@prop("C11")
def c11(ctx):
    quick = ctx.tier == "quick"
    if quick:
        f = os.path.join(ctx.scratch, "im.ndjson")
        ctx.tlc("ImmutableGen", im_cfg(3, 3), capture=f, workers=8, timeout=3000)
        args = ["immutable", "-in", f]
        ctx.absorb(ctx.vh_run(args, timeout=3000), args, label="immutable")
    else:       # 4 operations: ~1 M histories per producer; one JVM and one replay per producer
        jobs, files = [], []
        for pr in IM_PRODUCERS:
            f = os.path.join(ctx.scratch, "im-%s.ndjson" % pr)
            files.append(f)
            jobs.append(dict(module="ImmutableGen", cfg=im_cfg(4, 3, pr), capture=f, workers=3, heap="5g", timeout=5000))
        ctx.tlc_parallel(jobs, max_procs=5)
        for pr, f in zip(IM_PRODUCERS, files):
            args = ["immutable", "-in", f]
            ctx.absorb(ctx.vh_run(args, timeout=5000), args, label="immutable/" + pr)
            os.remove(f)
    # nodes produced by the builder of freshly generated code (the runner compiled together with the generated package)
    fconf = schema_cases(ctx, "conforming", 1, "conf")
    genrun = gen_engine(ctx, fconf)
    if genrun is not None:
        f = os.path.join(ctx.scratch, "im-gen.ndjson")
        ctx.tlc("ImmutableGen", im_cfg(3 if quick else 4, 3, "gen"), capture=f, workers=8, heap="5g", timeout=3000)
        args = ["immutable", "-in", f]
        ctx.absorb(ctx.vh_run(args, timeout=3000, binary=genrun), args, label="immutable/gen", binary=genrun)
        os.remove(f)
    # B2: recorded builder sessions (Build / Reset / reuse): every node returned is re-read after every later call
    asm_trace_stage(ctx, 30 if quick else 200, 300)
    return ctx.finish(
        "model_checking",
        rule="histories = every sequence of 3 (thorough: 4) operations from {read, partial iteration / partial large-bytes "
             "read, dag-cbor encode, dag-json encode, copy into a basicnode / bindnode builder that is then extended, "
             "AssignNode into a container that is then extended, AssignNode at top level then Reset and reuse of that "
             "builder, Reset and reuse of the PRODUCING builder, matching walk, subset-matching walk (new sliced nodes), "
             "focused transform (new node), store + load (new node)} applied to any node alive, starting from a node made by "
             "5 producers (basicnode Any / kind-specific builders, bindnode, dag-cbor decoder, dag-json decoder) x 3 values, and "
             "from a node of a struct type of freshly generated code (built, reset and reused through the generated builder); "
             "after EVERY operation EVERY finished node is read twice in full (all read forms, byte content through AsBytes "
             "and a fresh AsLargeBytes reader) and compared with the value it had when it was returned; non-trivial = every "
             "history; distinct = distinct (producer, value, operation sequence)",
        assumptions=["callers that write into byte slices handed back, and use of assemblers after their finish (contract "
                     "misuse), are outside the property", "bindnode builders do not implement Reset (documented TODO): "
                     "those steps are skipped"],
        exhaustive=True)


# --------------------------------------------------------------------------- totality
def sd_cfg(dmode):
    return """SPECIFICATION Spec
CONSTANTS
  Mode = "plain"
  SelDepth = 1
  Shard = 0
  NShards = 1
  Sample = 0
  DMode = "%s"
INVARIANTS Emit
CHECK_DEADLOCK FALSE
""" % dmode


@prop("C10")
def c10(ctx):
    quick = ctx.tier == "quick"
    # (a) dag-cbor: the decoder machine with small depth limits predicts the verdict (depth_exceeded included)
    for md in (1, 2):
        f = os.path.join(ctx.scratch, "dec-d%d.ndjson" % md)
        ctx.tlc("DagCborDec", dec_cfg("explore", free=2 if quick else 3, alphabet="full", seeds="deep", maxdepth=md),
                capture=f, workers=8, timeout=2400)
        args = ["cbordec", "-in", f, "-maxdepth", str(md), "-depthonly"]
        ctx.absorb(ctx.vh_run(args), args, label="cbordec/maxdepth%d" % md)
    # (b) dag-cbor under the whole configuration matrix: no panic, terminates, depth / prealloc / allocation bounded
    f = os.path.join(ctx.scratch, "dec-short.ndjson")
    ctx.tlc("DagCborDec", dec_cfg("explore", free=3, alphabet="small" if quick else "full"), capture=f, workers=8, timeout=2400)
    args = ["total", "-mode", "cbor", "-in", f, "-cfgevery", "11" if quick else "3"]
    ctx.absorb(ctx.vh_run(args, timeout=3000), args, label="total/cbor")
    # (a', b') the same two on random nested inputs beyond the enumerated strings (vh cbor-gen, evaluated by TLC)
    for md in (2, 3):
        cbor_random_stage(ctx, 10000 if quick else 60000, "maxdepth%d" % md, extra_args=["-maxdepth", str(md), "-depthonly"],
                          maxdepth=md)
    inp = os.path.join(ctx.scratch, "cg-total.ndjson")
    ctx.vh_run(["cbor-gen", "-n", "4000" if quick else "40000", "-seed", str(ctx.seed * 13 + 5), "-out", inp])
    f = os.path.join(ctx.scratch, "cg-total-out.ndjson")
    ctx.tlc("DagCborDec", dec_cfg("file", free=0), capture=f, workers=8, trace_file=inp, timeout=3000)
    args = ["total", "-mode", "cbor", "-in", f, "-cfgevery", "7" if quick else "2"]
    ctx.absorb(ctx.vh_run(args, timeout=3000), args, label="total/cbor-random")
    # (c) dag-json, json, cbor, raw into generic and typed assemblers: totality on mutants and hostile inputs
    args = ["total", "-mode", "other", "-seed", str(ctx.seed)]
    ctx.absorb(ctx.vh_run(args, timeout=3000), args, label="total/other")
    # (d) selector compiler and the walk of whatever compiles
    for dmode in ("wellformed", "extreme", "malformed"):
        f = os.path.join(ctx.scratch, "sd-%s.ndjson" % dmode)
        ctx.tlc("SelectorDmt", sd_cfg(dmode), capture=f, workers=4, timeout=2400)
        args = ["total", "-mode", "selectors", "-in", f]
        ctx.absorb(ctx.vh_run(args, timeout=3000), args, label="total/selectors-" + dmode)
    # (e) path strings: ParsePath on every string over {a, 0, /} up to five bytes and on every joined segment sequence
    pf = os.path.join(ctx.scratch, "paths.ndjson")
    ctx.tlc("PathsGen", tr_cfg("plain", 1).replace("SPECIFICATION Spec", "SPECIFICATION Spec2")
            .replace(TR_INV + " Emit", "RoundTripIffClean ParseIsClean Emit2"), capture=pf, workers=4)
    args = ["paths", "-in", pf, "-only", "str,parse"]
    ctx.absorb(ctx.vh_run(args), args, label="paths/strings")
    return ctx.finish(
        "model_checking",
        rule="(a) every byte string of the DagCborDec exploration under MaxDepth 1 and 2 with the verdict (depth_exceeded "
             "included) of the specification's decoder machine; (b) the same inputs plus hostile ones (heads claiming 2^16 .. "
             "2^63-1 elements or bytes with nothing behind them, nested up to 200 levels; nesting at MaxDepth-1 / MaxDepth / "
             "MaxDepth+1 for every limit) under a rotating sample of the 300-entry configuration matrix (depth limit x "
             "allocation budget x preallocation cap x strict/relaxed x links x stop-at-end), hostile inputs under ALL of "
             "them: no panic, result within 20 s, nesting reached (counting assembler wrapper) <= MaxDepth, size hints <= "
             "preallocation cap, bytes allocated (MemStats, GC off) <= 256*budget + 256*len + 1MiB; (c) dag-json, json, "
             "cbor and raw decoders on every truncation / bit flip / substitution / random multi-point mutant of JSON seeds "
             "and on the hostile CBOR inputs, into generic and typed (bindnode) assemblers; (d) the selector compiler on "
             "every well-shaped selector (verdict of Selector!Compiles), on the same with extreme integers and on every "
             "local malformation of the trees, then the walk of whatever compiled over 4 graphs; (e) datamodel.ParsePath on "
             "every string over {a, 0, /} up to five bytes and on every joined segment sequence of PathsGen, with the "
             "segments PathsGen!SplitStr prescribes; non-trivial = every case; distinct = distinct (input, configuration)",
        assumptions=["'terminates' is decided as 'within the deadline'; allocation is a measurement with constants fixed in "
                     "advance, not a proof"],
        exhaustive=False)
