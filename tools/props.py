"""Per-property check procedures.  Each takes a vlib.Ctx and returns the exit code."""
import json
import os

import vlib

PROPS = {}


def prop(pid):
    def deco(fn):
        PROPS[pid] = fn
        return fn
    return deco


def tla_set(items):
    return "{" + ", ".join(items) + "}"


def tla_strs(items):
    return tla_set('"%s"' % i for i in items)


def replay(ctx, path):
    """Re-run a stored replay file: the single witness case through the same harness command."""
    r = json.load(open(path))
    case = os.path.join(ctx.scratch, "replay-case.json")
    with open(case, "w") as fh:
        fh.write(json.dumps(r["finding"]["input"]) + "\n")
    args = list(r["args"])
    if r["in_flag"] in args:
        args[args.index(r["in_flag"]) + 1] = case
    else:
        args += [r["in_flag"], case]
    rep = ctx.vh_run(args)
    if r["key"] in (rep.get("groups") or {}):
        g = rep["groups"][r["key"]]
        print("VIOLATION property=%s replay=%s" % (r["property"], path))
        print("  what: %s :: %s" % (r["key"], g["first"][0].get("detail", "")[:800]))
        return 1
    print("replay %s: the recorded disagreement does not occur on this tree" % path)
    return 0


# --------------------------------------------------------------------------- Assembler family
def asm_cfg(topkind="any", nodes=4, depth=2, nkeys=2, rejects=1, resets=0,
            routes=("entry", "keyvalue", "keynode"), kinds=("int",), prebuilt="basic",
            hints=(0,), emit=True, view=False):
    inv = ["TypeOK", "NoDuplicateKeys", "ReadFormsAgree"]
    if not view:
        inv.append("BuiltIsFoldOfAccepted")
    if emit:
        inv.append("Emit")
    cfg = """SPECIFICATION Spec
CONSTANTS
  Keys <- GenKeys
  Scalars <- GenScalars
  Prebuilt <- GenPrebuilt
  Hints = %s
  TopKind = "%s"
  MaxNodes = %d
  MaxDepth = %d
  MaxRejects = %d
  MaxResets = %d
  Routes = %s
  NKeys = %d
  ScalarKindsUsed = %s
  PrebuiltMode = "%s"
INVARIANTS %s
PROPERTIES RejectIsNoop FinishedNeverChanges
CHECK_DEADLOCK FALSE
""" % (tla_set(str(h) for h in hints), topkind, nodes, depth, rejects, resets, tla_strs(routes),
       nkeys, tla_strs(kinds), prebuilt, " ".join(inv))
    if view:
        cfg += "VIEW core\n"
    return cfg


def asm_generate_and_replay(ctx, label, cfg_kwargs, profiles, deep=False, targets=None):
    cases = os.path.join(ctx.scratch, "asm-%s.ndjson" % label)
    ctx.tlc("AssemblerGen", asm_cfg(**cfg_kwargs), capture=cases, timeout=1500)
    args = ["assembler", "-in", cases, "-topkind", cfg_kwargs.get("topkind", "any"),
            "-profiles", ",".join(str(p) for p in profiles)]
    if deep:
        args.append("-deep")
    if targets:
        args += ["-targets", ",".join(targets)]
    rep = ctx.vh_run(args)
    ctx.absorb(rep, args, label="assembler/" + label)
    os.remove(cases)


@prop("C12")
def c12(ctx):
    profiles = sorted({0, ctx.seed % 4})
    quick = ctx.tier == "quick"
    # (1) protocol with the pinned rejections injected at every position, generic "any" builder
    asm_generate_and_replay(ctx, "any", dict(topkind="any", nodes=4 if quick else 5, depth=2 if quick else 3,
                                             nkeys=2, rejects=1 if quick else 2, resets=0,
                                             prebuilt="basic"), profiles)
    # (2) map-only and list-only builders: top-level wrong-kind rejections + typed (bindnode) containers
    asm_generate_and_replay(ctx, "map", dict(topkind="map", nodes=4, depth=2, nkeys=2 if quick else 3,
                                             rejects=1 if quick else 2, resets=0, kinds=("int", "string"),
                                             prebuilt="basic"), profiles)
    asm_generate_and_replay(ctx, "list", dict(topkind="list", nodes=4, depth=2, nkeys=2, rejects=1,
                                              resets=0, kinds=("int", "string"), prebuilt="basic"), profiles)
    # (3) Build / Reset / reuse
    asm_generate_and_replay(ctx, "reset", dict(topkind="any", nodes=4 if quick else 5, depth=2, nkeys=2, rejects=1,
                                               resets=1 if quick else 2, routes=("entry", "keyvalue"),
                                               prebuilt="none"), profiles,
                            targets=["basicnode.Any", "basicnode.Map", "basicnode.List"] if False else None)
    # (4) B3 only: deeper bounds with the history hidden by a VIEW
    ctx.tlc("AssemblerGen", asm_cfg(topkind="any", nodes=6 if quick else 7, depth=3, nkeys=2, rejects=2, resets=1,
                                    prebuilt="basic", emit=False, view=True), timeout=1500)
    return ctx.finish(
        "model_checking",
        rule="behaviours = every call sequence of Assembler.tla inside the bounds (TLC, exhaustive, one JSON line per "
             "complete behaviour); non-trivial = contains a rejection, an AssignNode or a nested container; distinct = "
             "distinct call sequences; each is replayed per target builder and concretisation profile",
        assumptions=["TLC explores the bounded instance exhaustively; bounds are in coverage.tlc_runs",
                     "result classes: ok / repeated_key (datamodel.ErrRepeatedMapKey) / wrong_kind (any error from that call)"],
        exhaustive=True)
