"""Per-property check procedures.  Each takes a vlib.Ctx and returns the exit code."""
import json
import os

import vlib

PROPS = {}


def prop(pid):
    def deco(fn):
        PROPS[pid] = fn
        return fn
    return deco


def tla_set(items):
    return "{" + ", ".join(items) + "}"


def tla_strs(items):
    return tla_set('"%s"' % i for i in items)


def replay(ctx, path):
    """Re-run a stored replay file: the single witness case through the same harness command."""
    r = json.load(open(path))
    case = os.path.join(ctx.scratch, "replay-case.json")
    with open(case, "w") as fh:
        fh.write(json.dumps(r["finding"]["input"]) + "\n")
    args = list(r["args"])
    if r["in_flag"] in args:
        args[args.index(r["in_flag"]) + 1] = case
    else:
        args += [r["in_flag"], case]
    rep = ctx.vh_run(args)
    if r["key"] in (rep.get("groups") or {}):
        g = rep["groups"][r["key"]]
        print("VIOLATION property=%s replay=%s" % (r["property"], path))
        print("  what: %s :: %s" % (r["key"], g["first"][0].get("detail", "")[:800]))
        return 1
    print("replay %s: the recorded disagreement does not occur on this tree" % path)
    return 0


# --------------------------------------------------------------------------- Assembler family
def asm_cfg(topkind="any", nodes=4, depth=2, nkeys=2, rejects=1, resets=0,
            routes=("entry", "keyvalue", "keynode"), kinds=("int",), prebuilt="basic",
            hints=(0,), emit=True, view=False):
    inv = ["TypeOK", "NoDuplicateKeys", "ReadFormsAgree"]
    if not view:
        inv.append("BuiltIsFoldOfAccepted")
    if emit:
        inv.append("Emit")
    cfg = """SPECIFICATION Spec
CONSTANTS
  Keys <- GenKeys
  Scalars <- GenScalars
  Prebuilt <- GenPrebuilt
  Hints <- GenHints
  HintMode = "%s"
  TopKind = "%s"
  MaxNodes = %d
  MaxDepth = %d
  MaxRejects = %d
  MaxResets = %d
  Routes = %s
  NKeys = %d
  ScalarKindsUsed = %s
  PrebuiltMode = "%s"
INVARIANTS %s
PROPERTIES RejectIsNoop FinishedNeverChanges
CHECK_DEADLOCK FALSE
""" % (("zero" if tuple(hints) == (0,) else "varied"), topkind, nodes, depth, rejects, resets, tla_strs(routes),
       nkeys, tla_strs(kinds), prebuilt, " ".join(inv))
    if view:
        cfg += "VIEW core\n"
    return cfg


def asm_generate_and_replay(ctx, label, cfg_kwargs, profiles, deep=False, targets=None):
    cases = os.path.join(ctx.scratch, "asm-%s.ndjson" % label)
    ctx.tlc("AssemblerGen", asm_cfg(**cfg_kwargs), capture=cases, timeout=1500)
    args = ["assembler", "-in", cases, "-topkind", cfg_kwargs.get("topkind", "any"),
            "-profiles", ",".join(str(p) for p in profiles)]
    if deep:
        args.append("-deep")
    if targets:
        args += ["-targets", ",".join(targets)]
    rep = ctx.vh_run(args)
    ctx.absorb(rep, args, label="assembler/" + label)
    os.remove(cases)


@prop("C12")
def c12(ctx):
    profiles = sorted({0, ctx.seed % 4})
    quick = ctx.tier == "quick"
    # (1) protocol with the pinned rejections injected at every position, generic "any" builder
    asm_generate_and_replay(ctx, "any", dict(topkind="any", nodes=4 if quick else 5, depth=2 if quick else 3,
                                             nkeys=2, rejects=1 if quick else 2, resets=0,
                                             prebuilt="basic"), profiles)
    # (2) map-only and list-only builders: top-level wrong-kind rejections + typed (bindnode) containers
    asm_generate_and_replay(ctx, "map", dict(topkind="map", nodes=4, depth=2, nkeys=2 if quick else 3,
                                             rejects=1 if quick else 2, resets=0, kinds=("int", "string"),
                                             prebuilt="basic"), profiles)
    asm_generate_and_replay(ctx, "list", dict(topkind="list", nodes=4, depth=2, nkeys=2, rejects=1,
                                              resets=0, kinds=("int", "string"), prebuilt="basic"), profiles)
    # (3) Build / Reset / reuse
    asm_generate_and_replay(ctx, "reset", dict(topkind="any", nodes=4 if quick else 5, depth=2, nkeys=2, rejects=1,
                                               resets=1 if quick else 2, routes=("entry", "keyvalue"),
                                               prebuilt="none"), profiles,
                            targets=["basicnode.Any", "basicnode.Map", "basicnode.List"] if False else None)
    # (4) B3 only: deeper bounds with the history hidden by a VIEW
    ctx.tlc("AssemblerGen", asm_cfg(topkind="any", nodes=6 if quick else 7, depth=3, nkeys=2, rejects=2, resets=1,
                                    prebuilt="basic", emit=False, view=True), timeout=1500)
    return ctx.finish(
        "model_checking",
        rule="behaviours = every call sequence of Assembler.tla inside the bounds (TLC, exhaustive, one JSON line per "
             "complete behaviour); non-trivial = contains a rejection, an AssignNode or a nested container; distinct = "
             "distinct call sequences; each is replayed per target builder and concretisation profile",
        assumptions=["TLC explores the bounded instance exhaustively; bounds are in coverage.tlc_runs",
                     "result classes: ok / repeated_key (datamodel.ErrRepeatedMapKey) / wrong_kind (any error from that call)"],
        exhaustive=True)


def selftest(ctx):
    rep = ctx.vh_run(["selftest"])
    if rep.get("extra", {}).get("selftest_failures", 1) != 0:
        raise vlib.MachineryError("observation checker self-test failed:\n" + rep.get("_stderr", ""))
    ctx.notes.append("projection self-test: reference node accepted, %d broken-node variants rejected" % rep["cases"])


ALLK = ("null", "bool", "int", "float", "string", "bytes", "link")


@prop("C01")
def c01(ctx):
    quick = ctx.tier == "quick"
    profiles = sorted({0, ctx.seed % 4}) if quick else [0, 1, 2, 3]
    selftest(ctx)
    # (1) every value up to the bound over all nine kinds x every route, AssignNode from every implementation
    asm_generate_and_replay(ctx, "allkinds", dict(topkind="any", nodes=3, depth=2, nkeys=2, rejects=0,
                                                  kinds=ALLK, prebuilt="all+uint"), profiles, deep=True)
    # (2) larger shapes, size hints of every sign, fewer scalar kinds
    asm_generate_and_replay(ctx, "hints", dict(topkind="any", nodes=4 if quick else 5, depth=2 if quick else 3, nkeys=2, rejects=0,
                                               kinds=("int", "string"), prebuilt="none",
                                               hints=(-1, 0, 1, 7), routes=("entry", "keyvalue")), profiles, deep=True)
    # (3) kind-restricted builders: Prototype.Map / .List and typed (bindnode) containers
    asm_generate_and_replay(ctx, "map", dict(topkind="map", nodes=4, depth=2, nkeys=2 if quick else 3, rejects=0,
                                             kinds=("int", "bytes", "null"), prebuilt="all"), profiles, deep=True)
    asm_generate_and_replay(ctx, "list", dict(topkind="list", nodes=4, depth=2, nkeys=2, rejects=0,
                                              kinds=("int", "link", "float"), prebuilt="all"), profiles, deep=True)
    # (4) scalar prototypes
    for k in ("bool", "int", "float", "string", "bytes", "link"):
        asm_generate_and_replay(ctx, "scalar-" + k, dict(topkind=k, nodes=1, depth=1, nkeys=1, rejects=1,
                                                         kinds=ALLK, prebuilt="basic"), [0, 1, 2, 3], deep=True)
    return ctx.finish(
        "model_checking",
        rule="behaviours = every legal call sequence of Assembler.tla inside the bounds (all routes: AssembleEntry vs "
             "AssembleKey/AssembleValue, Assign<Kind> vs AssignNode from basicnode/bindnode/foreign nodes, size hints); "
             "each Build is read back through every read form and compared with DataModel!Obs of the specified value, "
             "then DeepEqual/Copy against every other implementation; non-trivial = has a container or AssignNode; "
             "distinct = distinct call sequences",
        assumptions=["bounded value size (see tlc_runs); scalar payloads come from the concretisation profiles in harness/model/conc.go",
                     "DeepEqual/Copy are not asserted for uint64 values above MaxInt64 (they go through AsInt; 'where supported')"],
        exhaustive=True)
