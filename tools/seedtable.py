#!/usr/bin/env python3
"""Regenerates the table of seeded changes in DESIGN.md (section 7) from seeded/*/meta.json and seeded/strengthening.json."""
import json, os, re
V = os.path.dirname(os.path.dirname(os.path.abspath(__file__)))
notes = json.load(open(os.path.join(V, "seeded", "strengthening.json")))
rows = []
for n in sorted(os.listdir(os.path.join(V, "seeded"))):
    mp = os.path.join(V, "seeded", n, "meta.json")
    if not os.path.exists(mp):
        continue
    m = json.load(open(mp))
    s = re.sub(r"\s+", " ", m["summary"])
    s = s[:150].rsplit(" ", 1)[0] + " …"
    fv = m["detection"]["first_violation"].strip()
    fv = fv[len("what: "):] if fv.startswith("what: ") else fv
    key = fv.split(" :: ")[0]
    rows.append("| %s | %s | `%s` | %s |" % (n, s.replace("|", "/"), key.replace("|", "/").replace("`", "'"), notes.get(n, "—")))
tbl = ("| seed | change (as described by its author; full text in `seeded/<id>/meta.json`) | caught by check of the same property: "
       "target / rule / class | strengthening it caused |\n|---|---|---|---|\n" + "\n".join(rows))
p = os.path.join(V, "DESIGN.md")
d = open(p).read()
a = d.index("| seed | change (as described by its author")
b = d.index("-" * 99 + "\n\n## 8.")
open(p, "w").write(d[:a] + tbl + "\n\n" + d[b:])
print(len(rows), "seeds")
