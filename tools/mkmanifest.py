#!/usr/bin/env python3
"""Regenerates /verif/MANIFEST.json from the table below (single source of truth)."""
import json
import os
import sys

sys.path.insert(0, os.path.dirname(os.path.abspath(__file__)))
VERIF = os.path.dirname(os.path.dirname(os.path.abspath(__file__)))

ALL = ["C%02d" % i for i in range(1, 21)]

CHECKS = {
    "C01": dict(
        category="model_checking",
        text="Assembler.tla + DataModel.tla: TLC enumerates every value inside the bounds together with every legal route "
             "of assembler calls that constructs it (entry shortcut / key+value, Assign<Kind> / AssignNode of nodes from "
             "other implementations, size hints) and checks on the specification that all read forms agree (ObsAgree) and "
             "that the built value is the fold of the accepted calls. The harness replays each behaviour on basicnode "
             "Any/Map/List/scalar prototypes and bindnode typed containers/scalars, reads the built node through every "
             "read form (length, both iterators, lookups by string/node/index/segment, every As* accessor under recover) "
             "and compares with Obs of the specified value; DeepEqual and Copy are cross-checked across implementations.",
        design_ref="DESIGN.md section 4, C01",
        note="Bounded (<= 5 values per tree, depth <= 3); scalar payloads from 4 adversarial concretisation profiles; "
             "generated-code nodes are covered under C13; trusted: TLC, harness/model projection (self-tested each run "
             "against a reference node and 7 broken-node variants).",
        technique="TLA+ state machine + observation-vector oracle, TLC-generated behaviours replayed into the real builders",
        engine="tlc+vh",
    ),
    "C02": dict(
        category="model_checking",
        text="DagCbor.tla states the canonical encoding Enc(v), the encoded length EncLen(v) (separate arithmetic) and a "
             "byte-level strict decoder, all written from the DAG-CBOR specification. TLC evaluates them over an "
             "exhaustively enumerated bounded value domain (every value an initial state), checks Dec(Enc(v)) = "
             "Sorted(v), |Enc(v)| = EncLen(v) and order independence on the specification, and emits (value, bytes, "
             "sorted value) per value; the harness builds each value under every permutation of map insertion order in "
             "basicnode (Any and kind-specific), bindnode and a foreign node implementation and compares "
             "dagcbor.Encode byte-for-byte, EncodedLength, the registered multicodec encoder, and the decoded node.",
        design_ref="DESIGN.md section 4, C02",
        note="Bounded domain (CborValues.tla); float bit patterns opaque; NaN/Inf and undefined CIDs are outside the quantifier; "
             "trusted: TLC, harness/model.",
        technique="TLA+ transcription of the canonical form evaluated by TLC over a bounded domain, one implementation test per value x insertion order x node implementation",
        engine="tlc+vh",
    ),
    "C03": dict(
        category="model_checking",
        text="DagCbor.tla contains the strict DAG-CBOR decoder as a byte-at-a-time state machine written from the "
             "specification (labelled rejections, the three documented tolerances as recorded flags). TLC explores it with "
             "the environment choosing every next byte (all short strings over a representative alphabet, also after "
             "scripted prefixes) and on every byte-level mutant of canonical encodings, checks on the specification that "
             "acceptance implies the consumed bytes are exactly the encoding of the value built (modulo tolerances), and "
             "emits (input, verdict) pairs; the harness feeds each input to dagcbor.Decode (strict, and relaxed for the "
             "promises relaxed mode keeps) and compares accept/reject and, on accept, the node read back.",
        design_ref="DESIGN.md section 4, C03",
        note="Bounded input length / mutation depth; rejection labels are compared only as accept-vs-reject; "
             "behaviour inside polydawn/refmt is judged through dagcbor's API; trusted: TLC, harness/model.",
        technique="TLA+ byte-level decoder state machine explored by TLC; every explored input replayed into the real decoder",
        engine="tlc+vh",
    ),
    "C04": dict(
        category="model_checking",
        text="DagJson.tla states DAG-JSON at token level from its specification (EncJ with bytewise key order and the two "
             "reserved forms, the decoder with its recognition of those forms, Reserved). TLC evaluates it over a bounded "
             "domain, proves on it that the round trip preserves value and kinds exactly when no reserved shape occurs, and "
             "emits (value, token sequence, sorted value); the harness encodes each value under every insertion order in 4 "
             "node implementations (byte identity = determinism), tokenises the output with the standard library and "
             "compares with the specified tokens, and decodes it back comparing kinds and values.",
        design_ref="DESIGN.md section 4, C04",
        note="Scalar lexemes are outside TLA+ (class exploration through Go oracles); one known finding (integral floats); "
             "trusted: TLC, encoding/json, encoding/base64, harness.",
        technique="TLA+ token-level codec specification evaluated by TLC; one implementation test per value x insertion order x implementation",
        engine="tlc+vh",
    ),
    "C05": dict(
        category="model_checking",
        text="LinkOps.tla specifies the link of every Store/ComputeLink as a function of (prototype, value) only and loads as "
             "succeeding exactly after a store; TLC enumerates every history inside the bounds and checks the two "
             "invariants on the specification; the harness replays each history on a real link system over three storage "
             "backends with rotating concrete prototypes/values/variants (other node implementation, reversed insertion "
             "order), compares links relationally and against an independently assembled CID, and re-hashes what loads return.",
        design_ref="DESIGN.md section 4, C05",
        note="<= 4 operations over 2 values x 2 prototypes per history; CIDv0 uses dag-cbor registered under the dag-pb code in "
             "the harness process; trusted: TLC, crypto/*, harness.",
        technique="TLA+ history model; TLC-generated histories replayed into a real LinkSystem with an independent CID oracle",
        engine="tlc+vh",
    ),
    "C06": dict(
        category="fault_enumeration",
        text="Linking.tla models Load/LoadRaw/LoadPlusRaw/Fill as the multi-step program of linking/functions.go (open, pulls "
             "through the tee, decoder verdict, drain, compare) against a storage that corrupts, truncates, extends, "
             "substitutes, short-reads and fails; LinkStore.tla does the same for Store with failing writers/encoders. TLC "
             "checks NoUnverifiedData, MismatchWins, IoErrorsSurface, NoCommitOnFailure over every combination and emits "
             "the scenario classes with the prescribed result; the harness instantiates each class at every offset of real "
             "blocks of every codec and hash function through a scripted BlockReadOpener / failing writer.",
        design_ref="DESIGN.md section 4, C06",
        note="The specification's blocks are a toy self-delimiting codec with an injective hash; the binding to real codecs is "
             "by fault class x offset enumeration on real blocks; trusted: TLC, harness scripted reader/writer.",
        technique="TLA+ multi-step load/store machines under a faulty environment; scenario classes instantiated exhaustively on real blocks",
        engine="tlc+vh",
    ),
    "C07": dict(
        category="model_checking",
        text="Selector.tla transcribes the selector language (compile rules, Interests / Explore / Match per clause, the "
             "recursion continuation with edge replacement) and Traversal.tla is the walk as an explicit-stack machine "
             "mirroring walk.go. TLC runs the machine on every (graph, selector) of the bounded catalogue, checks that visited "
             "paths resolve to the visited nodes and that parents precede children, and emits the visit and load sequences; "
             "the harness stores the blocks with real CIDs, builds the selector's data-model tree, compiles it and runs "
             "WalkAdv and WalkMatching, comparing (path, reason, node) visit by visit and the loads.",
        design_ref="DESIGN.md section 4, C07",
        note="Selectors up to AST depth 2 exhaustively (depth 3 sampled in the thorough tier), 7 graphs of <= 4 blocks; "
             "ExploreInterpretAs is outside this instance; trusted: TLC, harness.",
        technique="TLA+ walk machine + selector semantics; TLC-computed visit sequences replayed against the real walk",
        engine="tlc+vh",
    ),
    "C08": dict(
        category="model_checking",
        text="Schema.tla states, from the IPLD Schema documentation, the three mappings between data-model trees and typed "
             "values (FromType, FromRepr, ReprOf) for every representation strategy the library implements. TLC enumerates "
             "all inhabitants of a catalogue of 23 nested types, checks that the mappings invert each other, and emits "
             "(type, input, typed value, representation view); the harness builds each value through bindnode's type-level "
             "and representation-level builders, compares both views of both nodes through every read form, and round-trips "
             "the representation through dag-cbor and dag-json.",
        design_ref="DESIGN.md section 4, C08",
        note="Bounded catalogue (46 types) and value domain plus seeded random type systems; the defects it found in bindnode's "
             "views and builders are repaired (known_findings.json, 'fixed'); generated code is compared under C13; trusted: "
             "TLC, harness.",
        technique="TLA+ schema semantics evaluated by TLC over enumerated types and inhabitants; every case replayed into the typed-node engine",
        engine="tlc+vh",
    ),
    "C09": dict(
        category="model_checking",
        text="The same Schema.tla mappings give, for every local mutation of conforming trees at type and representation level, "
             "the verdict a typed builder must reach and the typed value it must produce when it accepts; TLC checks that "
             "accepted mutants denote inhabitants with consistent views and emits the cases; the harness feeds each tree to "
             "bindnode's builders under recover().",
        design_ref="DESIGN.md section 4, C09",
        note="Hashed sample of inhabitants per type in the quick tier; bindnode engine here, generated code under C13; "
             "trusted: TLC, harness.",
        technique="TLA+ acceptance semantics; TLC-generated conforming and mutated inputs replayed into typed builders",
        engine="tlc+vh",
    ),
    "C10": dict(
        category="model_checking",
        text="The decoder machine of DagCbor.tla with small MaxDepth constants predicts, for every explored input, accept / "
             "reject including depth_exceeded, and Selector!Compiles predicts which selector trees compile; TLC also "
             "generates the trees with extreme integers and every local malformation. Around these, the harness measures "
             "what TLA+ cannot state: under every decoder configuration no panic, a result within the deadline, nesting "
             "reached <= MaxDepth (counting assembler), size hints <= preallocation cap, allocation <= a fixed multiple of "
             "budget + input length; the other decoders and the walk of compiled selectors are checked for totality.",
        design_ref="DESIGN.md section 4, C10",
        note="Verdict/depth conformance is model-based; no-panic / terminates / allocation are observations (recover, "
             "watchdog, MemStats) with constants fixed in advance; the two panics it found (bare recursion edge, wide "
             "ExploreRange) are repaired.",
        technique="TLA+ decoder machine and selector compile rules generating inputs and verdicts; totality and resource bounds measured on every input x configuration",
        engine="tlc+vh",
    ),
    "C11": dict(
        category="model_checking",
        text="Immutable.tla has finished nodes with frozen values and every library operation that takes a finished node or "
             "its producing builder as actions (derived nodes get their specified values); TLC generates every history "
             "inside the bounds. The specification has no action that edits a finished value, so the content is in the "
             "binding: the harness performs each history on real nodes and after every single step re-reads every finished "
             "node twice in full and compares with the value at creation.",
        design_ref="DESIGN.md section 4, C11",
        note="Histories of <= 4 operations over <= 3 nodes; trusted: TLC, harness/model observation checker.",
        technique="TLA+ history model; TLC-generated histories replayed with a full double re-read of every node after every step",
        engine="tlc+vh",
    ),
    "C12": dict(
        category="model_checking",
        text="Assembler.tla is the builder/assembler protocol as a state machine (one action per public call, the two "
             "pinned rejections injected at every position). TLC explores every call sequence inside the bounds, checks "
             "NoDuplicateKeys / BuiltIsFoldOfAccepted / RejectIsNoop on the specification, and emits every behaviour; "
             "the Go harness replays each behaviour on the real builders (basicnode Any/Map/List, bindnode typed map and "
             "list) comparing the result class of every call and the node read back at every Build. TypedAssembler.tla guards "
             "the same machine with the schema (struct / union / enum / map / list builders of bindnode and of freshly "
             "generated code, type and representation level; the deferred refusal of a repeated key by generated maps is a "
             "named deviation, DeferredDupNext); every generic behaviour is also regrouped into closures and run through the "
             "front ends fluent and fluent/qp (Assembler!AbortsAt); recorded sessions are validated by TLC (AssemblerTrace.tla).",
        design_ref="DESIGN.md section 4, C12",
        note="Bounded (<= 5 values, depth <= 3, 2-3 keys, <= 2 rejections per behaviour); misuse orders are not generated; "
             "trusted: TLC, the projection functions of harness/model (self-tested against a reference node).",
        technique="TLA+ protocol state machine, TLC-generated behaviours replayed into the real assemblers",
        engine="assembler",
    ),
    "C13": dict(
        category="model_checking",
        text="The type systems TLC enumerates for C08/C09 (restricted to the generator's feature set) are the 'programs': "
             "schema/gen/go of the working tree generates a package for them afresh, it is compiled with a runner (compile "
             "failure = violation), and the generated prototypes / builders / nodes / representation views are compared on "
             "every C08 inhabitant and C09 mutant with the verdicts and views Schema.tla prescribes -- the same reference "
             "bindnode is compared to, so observational equivalence of the two engines is decided three-way.",
        design_ref="DESIGN.md section 4, C13",
        note="20+ generated catalogue types plus random type systems per run, two generator configurations; enum / any / "
             "listpairs are outside the generator; the defects found in generated code are repaired (known_findings.json, "
             "'fixed'); trusted: TLC, go build, harness.",
        technique="TLC-enumerated type systems fed to the code generator; generated code replayed against the TLA+ schema semantics (three-way with bindnode)",
        engine="tlc+vh",
    ),
    "C14": dict(
        category="model_checking",
        text="Traversal!Resolve specifies path resolution (map by key, list by index, links loaded on the way, failure when a "
             "segment is missing or a scalar is reached early); TLC checks on every walk that each visited path resolves to "
             "the visited node, checks Resolve against an independent existence predicate on probe paths, and checks the "
             "string form (join / split) round-trips exactly for clean paths. The harness retains the Path objects handed to "
             "the walk callbacks and resolves them after the walk with Get, Focus and stepwise lookups, and replays the "
             "probes and the string cases.",
        design_ref="DESIGN.md section 4, C14",
        note="Rides on the C07 cases; bounded graphs and segment alphabet; trusted: TLC, harness.",
        technique="TLA+ path-resolution operator checked on all walks; retained walk paths and probe paths replayed against Get/Focus/ParsePath",
        engine="tlc+vh",
    ),
    "C15": dict(
        category="model_checking",
        text="Traversal.tla with the controls: node and link budgets, the start-at filter exactly as the recurse closure "
             "applies it, visit-links-once, SkipMe. TLC runs the machine for every (graph, selector, control setting) and "
             "emits restricted visit/load sequences and the budget error with its path; the harness runs the real walk with "
             "that Config/Budget/loader, compares step by step, and independently re-checks the relation to the real "
             "unrestricted walk.",
        design_ref="DESIGN.md section 4, C15",
        note="Controls one at a time, no preloader; bounded graphs; trusted: TLC, harness.",
        technique="TLA+ walk machine with traversal controls; TLC-generated restricted walks replayed + metamorphic re-check on real walks",
        engine="tlc+vh",
    ),
    "C16": dict(
        category="model_checking",
        text="Transform.tla states the focused and the selector-driven transform as functional updates of the expanded "
             "tree of a graph (Upd, WT), with the failure cases; TLC checks identity-is-identity, replace-lands-at-target "
             "and remove-removes on every case of the bounded instance and emits the expected result trees; the harness runs "
             "FocusedTransform / WalkTransforming on real linked blocks and compares the result loaded from the new root, "
             "the untouched input and storage, link preservation and the callback's argument.",
        design_ref="DESIGN.md section 4, C16",
        note="Bounded graphs/paths; one known finding (WalkTransforming inlines links); trusted: TLC, harness.",
        technique="TLA+ functional-update semantics evaluated by TLC; every case replayed against the real transforms",
        engine="tlc+vh",
    ),
    "C17": dict(
        category="model_checking",
        text="Storage.tla is the key-value contract of the storage interfaces under content-addressed use (one action per "
             "public call, refused puts as a named no-effect action). TLC enumerates every history inside the bounds with "
             "the result each call must return; the harness replays each on memstore (native and fallback paths), "
             "cidlink.Memory and fsstore (two sharding/escaping configurations) under adversarial key profiles, scribbles "
             "over the caller's buffer after each put, and watches every filesystem path through the verif hooks plus a "
             "directory diff against a canary. In the other direction random 300-call histories recorded from the real "
             "stores are validated by TLC against the same specification (StorageTrace.tla). The "
             "contract's invariants are also proved with TLAPS for every number of keys, operations and routes "
             "(StorageProof.tla, 34 obligations).",
        design_ref="DESIGN.md section 4, C17",
        note="<= 4 calls over 2-3 keys exhaustively, 300-call recorded histories over 12 keys; trusted: TLC, hook placement.",
        technique="TLA+ key-value contract; TLC-generated histories replayed into the stores + TLC trace validation of recorded histories",
        engine="tlc+vh",
    ),
    "C18": dict(
        category="fault_enumeration",
        text="FsStore.tla models the staging-file/rename protocol with one action per filesystem operation (= per verif "
             "hook point), concurrent writers and readers, process crash and injected operation failures as environment "
             "actions; TLC checks AtomicVisibility, ReaderSeesAbsentOrComplete, AckedIsVisible, UsableAfterCrash and "
             "CommittedStays over every interleaving, and emits every behaviour. The harness forces each behaviour through "
             "the real store with blocking hooks (one thread runs between two hooks), kills or fails the operation the "
             "specification says, and compares staging files, destination files and directories with the specification's "
             "state after every step, every read result and every return value. Go-side drivers cover what TLC does not "
             "schedule: cancellation before every operation (fscancel), a writer that is a child PROCESS killed with SIGKILL "
             "before every operation (fskill), the staging directory on another filesystem with a polling reader (fslayout), "
             "a free-running stress under the race detector. In the thorough tier AtomicVisibility, "
             "ReaderSeesAbsentOrComplete and AckedIsVisible are also proved with TLAPS for all constants (FsStoreProof.tla, "
             "66 obligations).",
        design_ref="DESIGN.md section 4, C18",
        note="2-3 writers, 1 reader, <= 1 crash, <= 1 fault per behaviour in the TLC-driven replays (the TLAPS proof has no such "
             "bounds but is about the specification only); crash = threads abandoned at the hook (in-process) or SIGKILL of a child; "
             "no fsync / power-loss modelling (outside the property); trusted: TLC, the hook placement.",
        technique="TLA+ model of the write protocol; TLC-generated crash/fault/schedule behaviours forced through the real store via hooks",
        engine="tlc+vh",
    ),
    "C19": dict(
        category="model_checking",
        text="Bind.tla models the bind calls of one process with the process-global inferred type system as explicit state; "
             "every call is specified to succeed with a result that is a function of its arguments only. TLC enumerates all "
             "histories that touch that state and the harness runs each in a fresh process. Value faithfulness reuses "
             "Schema.tla: for every inhabitant TLC enumerates, a Go value is constructed independently of bindnode and "
             "Wrap / Unwrap / Marshal / Unmarshal are compared with the specified views and with the constructed value. The first inferred bind of 240 fresh Go types is also made from several goroutines at once under the race detector (bindrace), and the catalogue values are bound a second time through Go types holding a custom-converted type at every kind of position.",
        design_ref="DESIGN.md section 4, C19",
        note="Go-type vocabulary = a hand-written library (exploration by enumeration for that dimension); trusted: TLC, "
             "reflect, harness.",
        technique="TLA+ history model with explicit registry state, histories replayed one per process; TLC-enumerated typed values replayed through Wrap/Unwrap/Marshal",
        engine="tlc+vh",
    ),
    "C20": dict(
        category="exploration",
        text="Concurrency.tla gives every read-only public operation a footprint over abstract shared cells and lets "
             "goroutines interleave at begin/end granularity; TLC checks NoConflict for every mix and interleaving and "
             "emits the mixes. The binding is the Go race detector: each mix is run free-running on shared nodes, selector, "
             "type system, link system and prototypes under -race (which observes the real accesses, also to cells the model "
             "does not know), and each goroutine's results are compared with the sequential run.",
        design_ref="DESIGN.md section 4, C20",
        note="Race freedom is an observation over executions, not a proof; generated-code nodes are not part of the mixes; "
             "trusted: Go race detector, TLC, harness.",
        technique="TLA+ footprint/interleaving model generating operation mixes; mixes executed under the Go race detector with result comparison",
        engine="tlc+vh",
    ),
}

NOT_YET = "check not built yet in this round (planned, see DESIGN.md section 4)"


def main():
    checks = []
    for pid in ALL:
        c = CHECKS.get(pid)
        if not c:
            continue
        checks.append({
            "property_id": pid,
            "quick_cmd": "tools/check %s --tier quick" % pid,
            "thorough_cmd": "tools/check %s --tier thorough" % pid,
            "evidence_file": "evidence/%s.json" % pid,
            "replay_cmd_template": "tools/check %s --replay {path}" % pid,
            "engine": c.get("engine", "tlc+vh"),
            "level_claimed": {"category": c["category"], "text": c["text"], "design_ref": c["design_ref"]},
            "level_note": c["note"],
            "technique": c["technique"],
        })
    m = {
        "version": 1,
        "setup_cmd": "tools/setup",
        "hooks": {
            "guard": "verif",
            "enable": "go build -tags verif (the harness module replaces github.com/ipld/go-ipld-prime with /repo)",
            "baseline_off_cmd": "cd /repo && GOFLAGS=-mod=mod go test -vet=off -count=1 -timeout 25m ./...",
            "source_commits": ["0ae6174", "abe407c"],
            "add_only": True,
        },
        "engines": [
            {"name": "tlc+vh", "path": "tools/check",
             "serves_properties": sorted(CHECKS.keys()),
             "kind_free_text": "TLA+ specifications (specs/*.tla) model-checked by TLC; TLC-generated behaviours replayed "
                               "into go-ipld-prime by the Go harness (harness/), traces recorded from the real code "
                               "validated by TLC against the same specifications"},
        ],
        "checks": checks,
        "notes": "Every check: TLC on the specification (B3), replay of TLC-generated behaviours into /repo's working tree "
                 "(B1) and/or TLC validation of traces recorded from the real code (B2). Exit 2 = machinery failure, never a verdict.",
        "not_applicable": [{"property_id": p, "reason": NOT_YET} for p in ALL if p not in CHECKS],
    }
    with open(os.path.join(VERIF, "MANIFEST.json"), "w") as fh:
        json.dump(m, fh, indent=1)
        fh.write("\n")


if __name__ == "__main__":
    main()
