#!/usr/bin/env python3
"""Rewrites the measured columns (states / replayed, wall) of the table in DESIGN.md section 4 from evidence/*.json."""
import json, os, re
V = os.path.dirname(os.path.dirname(os.path.abspath(__file__)))
p = os.path.join(V, "DESIGN.md")
s = open(p).read()
def k(n):
    return "%.1f M" % (n / 1e6) if n >= 1e6 else ("%d k" % round(n / 1e3) if n >= 10000 else ("%.1f k" % (n / 1e3) if n >= 1000 else str(n)))
out = []
for line in s.split("\n"):
    m = re.match(r"\| (C\d\d) \|", line)
    cells = line.split(" | ")
    if m and len(cells) >= 7 and os.path.exists(os.path.join(V, "evidence", m.group(1) + ".json")):
        e = json.load(open(os.path.join(V, "evidence", m.group(1) + ".json")))
        c = e["coverage"]
        cells[-3] = "%s / %s" % (k(c["states"]), k(c["traces_validated_against_impl"]))
        cells[-2] = "%d s" % round(e["wall_s"])
        line = " | ".join(cells)
    out.append(line)
open(p, "w").write("\n".join(out))
