#!/usr/bin/env python3
"""Regenerates the two tables of DESIGN.md section 9 from known_findings.json."""
import json, os, re
V = os.path.dirname(os.path.dirname(os.path.abspath(__file__)))
d = json.load(open(os.path.join(V, "known_findings.json")))
rows = []
for f in d["fixed"]:
    m = re.match(r"fixed: property=(C\d+) (\w+) (.*)", f)
    if not m:
        continue
    rows.append("| `%s` | %s | %s |" % (m.group(2), m.group(1), m.group(3).replace("|", "/")))
fixed = "| commit | property | defect |\n|---|---|---|\n" + "\n".join(rows)
groups = {}
for f in d["findings"]:
    base = re.sub(r"-(type|repr|strict|relaxed)$", "", f["id"])
    base = re.sub(r"^KF-C\d+-", "", base)
    g = groups.setdefault(base, {"props": [], "what": f["what"], "ids": []})
    if f["property"] not in g["props"]:
        g["props"].append(f["property"])
    g["ids"].append(f["id"])
rows = []
for base, g in groups.items():
    what = re.sub(r"\s+", " ", g["what"])
    what = what[:330].rsplit(" ", 1)[0] + (" …" if len(what) > 330 else "")
    rows.append("| %s | %s | %s |" % (base, ", ".join(sorted(g["props"])), what.replace("|", "/")))
known = "| finding (ids `KF-<property>-<this>[-type/-repr]`) | properties | defect |\n|---|---|---|\n" + "\n".join(rows)
p = os.path.join(V, "DESIGN.md")
s = open(p).read()
a = s.index("**Repaired by `fix:` commits in /repo**")
b = s.index("**Recorded as known findings**")
c = s.index("Also observed and *not* counted as defects")
s = (s[:a] + "**Repaired by `fix:` commits in /repo** (each minimal, the repository's suite unchanged and passing; listed under\n"
     "`\"fixed\"` in `known_findings.json`, from which this table is generated; %d commits):\n\n" % len(d["fixed"]) + fixed + "\n\n"
     + "**Recorded as known findings** (not small-and-safe, deliberate leniency of the library, or outside this repository; "
     "generated from `known_findings.json`):\n\n" + known + "\n\n" + s[c:])
open(p, "w").write(s)
print(len(d["fixed"]), "fixed;", len(groups), "known groups")
