"""Shared plumbing of the check driver: scratch space, TLC runs, harness build and
runs, known-finding folding, evidence writing and the exit-code discipline.

Exit codes: 0 = property held on everything explored (known findings are printed as
KNOWN-FINDING lines); 1 = a reproduced disagreement between the real code and the
specification that is not a listed finding (VIOLATION line); 2 = the machinery itself
failed (TLC error on the spec, harness build failure, timeout, unreproduced
disagreement) -- never a verdict about the code.
"""
import atexit
import hashlib
import json
import os
import re
import shutil
import subprocess
import sys
import tempfile
import threading
import time
from concurrent.futures import ThreadPoolExecutor

VERIF = os.path.dirname(os.path.dirname(os.path.abspath(__file__)))
REPO = os.environ.get("VERIF_REPO", "/repo")
SPECS = os.path.join(VERIF, "specs")
TLA_CP = "/opt/veriftools/tla/tla2tools.jar:/opt/veriftools/tla/CommunityModules-deps.jar"
NCPU = os.cpu_count() or 4


class MachineryError(Exception):
    pass


def die(msg, code=2):
    print("CHECK-ERROR: " + msg, flush=True)
    sys.exit(code)


class Ctx:
    def __init__(self, pid, tier, seed, replay=None, keep=False):
        self.pid = pid
        self.tier = tier
        self.seed = seed
        self.replay = replay
        self.t0 = time.time()
        base = os.environ.get("VERIF_SCRATCH") or tempfile.gettempdir()
        self.scratch = tempfile.mkdtemp(prefix="verif-%s-" % pid, dir=base)
        if not keep:
            atexit.register(shutil.rmtree, self.scratch, True)
        self.vh = None
        self.ntlc = 0
        self.lock = threading.Lock()
        # evidence accumulators
        self.states = 0
        self.transitions = 0
        self.tlc_runs = []
        self.proofs = []
        self.traces_validated = 0
        self.evaluations = 0
        self.distinct_nontrivial = 0
        self.checks = 0
        self.samples = []
        self.rules = []
        self.notes = []
        self.assumptions = []
        self.exhaustive = False
        self.groups = []  # (family, key, group dict, rerun callable)
        self.extra = {}

    def log(self, msg):
        print("[%s %6.1fs] %s" % (self.pid, time.time() - self.t0, msg), flush=True)

    # ------------------------------------------------------------------ TLC
    def tlc(self, module, cfg, workers=None, timeout=900, simulate=None, depth=None,
            capture=None, heap="6g", extra_modules=None, deadlock=False, coverage=False,
            trace_file=None, dfs=False):
        """Run TLC on specs/<module>.tla with the given cfg text in a private scratch copy.

        capture: path; lines printed by PrintT(ToJson(..)) (they start with a double quote)
        are written there.  Returns dict(states, distinct, depth, out, ok).
        """
        with self.lock:
            self.ntlc += 1
            d = os.path.join(self.scratch, "tlc%d" % self.ntlc)
        os.makedirs(d)
        for f in os.listdir(SPECS):
            if f.endswith(".tla"):
                shutil.copy(os.path.join(SPECS, f), d)
        if extra_modules:
            for name, text in extra_modules.items():
                with open(os.path.join(d, name), "w") as fh:
                    fh.write(text)
        if trace_file:
            shutil.copy(trace_file, os.path.join(d, "trace.ndjson"))
        with open(os.path.join(d, module + ".cfg"), "w") as fh:
            fh.write(cfg)
        tmp = os.path.join(d, "tmp")
        os.makedirs(tmp)
        if workers is None:
            workers = min(NCPU, 8)
        cmd = ["java", "-XX:+UseParallelGC", "-Xmx" + heap, "-Xss64m",
               "-Djava.io.tmpdir=" + tmp]
        if dfs:
            cmd.append("-Dtlc2.tool.queue.IStateQueue=StateDeque")
        cmd += ["-cp", TLA_CP, "tlc2.TLC", "-workers", str(workers),
                "-metadir", os.path.join(d, "meta"), "-noGenerateSpecTE"]
        if simulate:
            cmd += ["-simulate", simulate]
        if depth:
            cmd += ["-depth", str(depth)]
        if deadlock:
            cmd += ["-deadlock"]
        if coverage:
            cmd += ["-coverage", "1"]
        if simulate:
            cmd += ["-seed", str(self.seed)]
        cmd += [module]
        t0 = time.time()
        out_lines = []
        ncap = 0
        capf = open(capture, "w") if capture else None
        try:
            p = subprocess.Popen(cmd, cwd=d, stdout=subprocess.PIPE, stderr=subprocess.STDOUT,
                                 text=True, errors="replace")
            try:
                for line in p.stdout:
                    if line.startswith('"'):
                        if capf:
                            capf.write(line)
                            ncap += 1
                    else:
                        out_lines.append(line)
                        if len(out_lines) > 20000:
                            del out_lines[:10000]
                    if time.time() - t0 > timeout:
                        p.kill()
                        raise MachineryError("TLC timeout after %ds on %s" % (timeout, module))
                p.wait()
            finally:
                if p.poll() is None:
                    p.kill()
        finally:
            if capf:
                capf.close()
        out = "".join(out_lines)
        res = {"module": module, "ok": False, "out": out, "captured": ncap,
               "wall_s": round(time.time() - t0, 1), "rc": p.returncode}
        m = re.search(r"(\d+) states generated, (\d+) distinct states found", out)
        if m:
            res["generated"] = int(m.group(1))
            res["distinct"] = int(m.group(2))
        m = re.search(r"depth of the complete state graph search is (\d+)", out)
        if m:
            res["depth"] = int(m.group(1))
        if simulate:
            m = re.search(r"(\d+) states checked", out) or re.search(r"states generated = (\d+)", out)
            res["ok"] = p.returncode == 0 or ("Error:" not in out and "error" not in out.lower())
        else:
            res["ok"] = ("Model checking completed. No error has been found." in out)
        if not res["ok"]:
            lines = out.splitlines()
            first = next((i for i, l in enumerate(lines) if l.startswith("Error:") or "Exception" in l or "OutOfMemory" in l), None)
            head = "\n".join(lines[first:first + 12]) + "\n...\n" if first is not None else ""
            tail = "\n".join(lines[-40:])
            raise MachineryError("TLC did not accept the specification %s (rc=%s):\n%s%s"
                                 % (module, p.returncode, head, tail))
        with self.lock:
            self.states += res.get("distinct", 0)
            self.transitions += res.get("generated", 0)
            self.tlc_runs.append({k: res[k] for k in res if k not in ("out",)})
        self.log("TLC %s: %s distinct states, %s generated, %d behaviours emitted, %.1fs"
                 % (module, res.get("distinct"), res.get("generated"), ncap, res["wall_s"]))
        shutil.rmtree(os.path.join(d, "meta"), True)
        return res

    def tlaps(self, module, timeout=1500):
        """Check the TLAPS proofs of specs/<module>.tla with tlapm in a private scratch copy (no fingerprint cache is
        reused).  Anything but 'All N obligations proved' is a defect of the specification / proof: exit 2, no verdict."""
        with self.lock:
            self.ntlc += 1
            d = os.path.join(self.scratch, "tlaps%d" % self.ntlc)
        os.makedirs(d)
        for f in os.listdir(SPECS):
            if f.endswith(".tla"):
                shutil.copy(os.path.join(SPECS, f), d)
        t0 = time.time()
        try:
            p = subprocess.run(["tlapm", "--threads", str(NCPU), "--cleanfp", module + ".tla"], cwd=d, stdout=subprocess.PIPE,
                               stderr=subprocess.STDOUT, text=True, errors="replace", timeout=timeout)
        except subprocess.TimeoutExpired:
            raise MachineryError("tlapm timeout after %ds on %s" % (timeout, module))
        m = re.search(r"All (\d+) obligations? proved", p.stdout)
        if p.returncode != 0 or not m:
            raise MachineryError("tlapm did not prove %s (rc=%s):\n%s" % (module, p.returncode, "\n".join(p.stdout.splitlines()[-30:])))
        n = int(m.group(1))
        with self.lock:
            self.proofs.append({"module": module, "obligations_proved": n, "wall_s": round(time.time() - t0, 1)})
        self.log("TLAPS %s: all %d obligations proved, %.1fs" % (module, n, time.time() - t0))
        shutil.rmtree(d, True)
        return n

    def tlc_trace(self, module, cfg, trace_file, label, target, record_args=None, timeout=900, heap="4g"):
        """Trace validation (B2): TLC checks that the recorded trace is a behaviour of the trace spec.
        A rejection becomes a finding (rule = the event the specification cannot explain)."""
        nlines = sum(1 for _ in open(trace_file))
        try:
            res = self.tlc(module, cfg, workers=1, timeout=timeout, trace_file=trace_file, heap=heap)
            self.traces_validated += 1
            self.evaluations += nlines
            self.log("trace %s: %d events accepted by %s" % (label, nlines, module))
            return True
        except MachineryError as e:
            msg = str(e)
            m = re.search(r'TRACE-REJECTED at event",\s*(\d+),', msg)
            if not m:
                raise
            line = int(m.group(1))
            ev = open(trace_file).read().splitlines()[line - 1]
            # context: the events of the same trace since its reset
            lines = open(trace_file).read().splitlines()
            start = line - 1
            while start > 0 and '"reset"' not in lines[start]:
                start -= 1
            keep = os.path.join(VERIF, "replays", self.pid)
            os.makedirs(keep, exist_ok=True)
            tpath = os.path.join(keep, "trace-%s-%d.ndjson" % (label.replace("/", "_"), line))
            with open(tpath, "w") as fh:
                fh.write("\n".join(lines[start:line]) + "\n")
            evj = json.loads(ev)
            tgt = target
            try:
                rl = json.loads(lines[start])
                tgt = rl.get("via") or rl.get("impl") or target
            except Exception:
                pass
            key = "%s | trace:%s/%s | %s" % (tgt, evj.get("a"), evj.get("via", ""), str(evj.get("r"))[:40])
            self.groups.append({"key": key, "label": label, "args": None, "in_flag": "-in",
                                "group": {"count": 1, "first": [{"case": line, "step": line - start - 1, "target": tgt,
                                          "rule": "trace:%s" % evj.get("a"), "class": str(evj.get("r")),
                                          "detail": "TLC rejects the recorded trace at event %d: %s (the specification "
                                                    "cannot explain this result in the state reached; trace prefix saved in %s)"
                                                    % (line, ev, tpath)}]}})
            self.evaluations += line
            self.log("trace %s: REJECTED at event %d: %s" % (label, line, ev))
            return False

    def tlc_parallel(self, jobs, max_procs=8):
        """jobs: list of kwargs dicts for self.tlc; run concurrently; returns results in order."""
        with ThreadPoolExecutor(max_workers=max_procs) as ex:
            futs = [ex.submit(lambda kw=kw: self.tlc(**kw)) for kw in jobs]
            return [f.result() for f in futs]

    # -------------------------------------------------------------- harness
    def goenv(self):
        env = dict(os.environ)
        env["GOFLAGS"] = "-mod=mod"
        env["GOPROXY"] = "off"
        env.pop("GOTOOLCHAIN", None)
        env.pop("GOSUMDB", None)
        return env

    def build_harness(self, race=False):
        if self.vh and not race:
            return self.vh
        src = os.path.join(self.scratch, "harness-src")
        if not os.path.isdir(src):
            shutil.copytree(os.path.join(VERIF, "harness"), src)
            # module graph: the repo under test is whatever is in REPO's working tree
            gm = open(os.path.join(src, "go.mod")).read()
            gm = gm.replace("=> /repo", "=> " + REPO)
            open(os.path.join(src, "go.mod"), "w").write(gm)
            sums = set()
            for f in (os.path.join(REPO, "go.sum"), os.path.join(src, "go.sum")):
                if os.path.exists(f):
                    sums.update(l for l in open(f).read().splitlines() if l.strip())
            open(os.path.join(src, "go.sum"), "w").write("\n".join(sorted(sums)) + "\n")
        out = os.path.join(self.scratch, "vh-race" if race else "vh")
        cmd = ["go", "build", "-tags", "verif"]
        if race:
            cmd.append("-race")
        cmd += ["-o", out, "./cmd/vh"]
        t0 = time.time()
        p = subprocess.run(cmd, cwd=src, env=self.goenv(), stdout=subprocess.PIPE,
                           stderr=subprocess.STDOUT, text=True)
        if p.returncode != 0:
            raise MachineryError("harness build failed against %s:\n%s" % (REPO, p.stdout[-4000:]))
        self.log("harness built%s in %.1fs" % (" (race)" if race else "", time.time() - t0))
        if not race:
            self.vh = out
        return out

    def harness_src(self):
        self.build_harness()
        return os.path.join(self.scratch, "harness-src")

    def vh_run(self, args, timeout=1800, race=False, env_extra=None, race_target="race", binary=None):
        """Run the harness; returns the parsed REPORT object."""
        vh = binary or self.build_harness(race=race)
        env = self.goenv()
        env["VERIF_KNOWN"] = os.path.join(VERIF, "known_findings.json")
        env["VERIF_PID"] = self.pid
        if race:
            env["GORACE"] = "halt_on_error=0 history_size=3"
        if env_extra:
            env.update(env_extra)
        t0 = time.time()
        try:
            p = subprocess.run([vh] + args, stdout=subprocess.PIPE, stderr=subprocess.PIPE,
                               text=True, timeout=timeout, env=env, cwd=self.scratch)
        except subprocess.TimeoutExpired:
            raise MachineryError("harness timeout: vh %s" % " ".join(args))
        rep = None
        for line in p.stdout.splitlines():
            if line.startswith("REPORT "):
                rep = json.loads(line[7:])
        if rep is None:
            raise MachineryError("harness produced no report (rc=%d): vh %s\n%s\n%s"
                                 % (p.returncode, " ".join(args), p.stdout[-2000:], p.stderr[-4000:]))
        rep["_stderr"] = p.stderr[-4000:]
        rep["_wall_s"] = round(time.time() - t0, 1)
        if race and "WARNING: DATA RACE" in p.stderr:
            # the race detector is the recorder for accesses to shared memory: each report is a finding
            first = p.stderr[p.stderr.index("WARNING: DATA RACE"):][:3000]
            funcs = re.findall(r"^  ([\w./()*\[\]-]+)\(\)$", first, re.M)
            site = next((f for f in funcs if "go-ipld-prime" in f), funcs[0] if funcs else "?")
            key = "%s | NoDataRace | data-race" % race_target
            rep.setdefault("groups", {})[key] = {
                "count": p.stderr.count("WARNING: DATA RACE"),
                "first": [{"case": 0, "step": -1, "target": race_target, "rule": "NoDataRace", "class": "data-race",
                           "detail": "race detector report at %s:\n%s" % (site, first)}]}
        return rep

    def vh_run_sharded(self, args, nshards=8, timeout=1800):
        """Run nshards harness processes (-shard i -nshards n) in parallel and merge their reports."""
        self.build_harness()
        with ThreadPoolExecutor(max_workers=nshards) as ex:
            futs = [ex.submit(lambda i=i: self.vh_run(args + ["-shard", str(i), "-nshards", str(nshards)], timeout=timeout))
                    for i in range(nshards)]
            reps = [f.result() for f in futs]
        out = {"family": reps[0].get("family"), "cases": 0, "nontrivial": 0, "checks": 0, "groups": {},
               "samples": [], "extra": {}, "_wall_s": max(r["_wall_s"] for r in reps), "_stderr": ""}
        for r in reps:
            out["cases"] += r.get("cases", 0)
            out["nontrivial"] += r.get("nontrivial", 0)
            out["checks"] += r.get("checks", 0)
            for s in r.get("samples") or []:
                if len(out["samples"]) < 3:
                    out["samples"].append(s)
            for k, g in (r.get("groups") or {}).items():
                if k in out["groups"]:
                    out["groups"][k]["count"] += g["count"]
                    out["groups"][k]["first"] = sorted(out["groups"][k]["first"] + g["first"], key=lambda f: f["case"])[:3]
                else:
                    out["groups"][k] = g
            for k, v in (r.get("extra") or {}).items():
                if isinstance(v, int):
                    out["extra"][k] = out["extra"].get(k, 0) + v
                else:
                    out["extra"].setdefault(k, v)
        return out

    def absorb(self, rep, args, label=None, in_flag="-in", race=False, race_target="race", binary=None):
        """Account a harness report into the evidence and remember its finding groups."""
        self.evaluations += rep.get("cases", 0)
        self.distinct_nontrivial += rep.get("nontrivial", 0)
        self.checks += rep.get("checks", 0)
        self.traces_validated += rep.get("cases", 0)
        for s in rep.get("samples") or []:
            if len(self.samples) < 6:
                self.samples.append(s)
        ngroups = 0
        for key, g in (rep.get("groups") or {}).items():
            self.groups.append({"key": key, "group": g, "args": list(args) if args is not None else None, "in_flag": in_flag,
                                "label": label or rep.get("family"), "race": race, "race_target": race_target,
                                "binary": binary})
            ngroups += 1
        self.log("replay %s: %d cases (%d non-trivial), %d comparisons, %d disagreement group(s), %.1fs"
                 % (label or rep.get("family"), rep.get("cases", 0), rep.get("nontrivial", 0),
                    rep.get("checks", 0), ngroups, rep.get("_wall_s", 0)))
        if rep.get("extra"):
            self.extra.setdefault(label or rep.get("family"), rep["extra"])
            nd = rep["extra"].get("divergences")
            if nd:
                msg = ("%s: %d behaviour(s) where the code no longer follows the specification step by step "
                       "(internal divergence, judged on observable facts only); first: %s"
                       % (label or rep.get("family"), nd, rep["extra"].get("first_divergence")))
                self.notes.append(msg)
                print("NOTE: " + msg, flush=True)

    # ------------------------------------------------------------- verdicts
    def load_known(self):
        path = os.path.join(VERIF, "known_findings.json")
        if not os.path.exists(path):
            return []
        return [f for f in json.load(open(path)).get("findings", []) if f["property"] == self.pid]

    def finish(self, level, rule, assumptions=None, exhaustive=None, explanation=None):
        known = self.load_known()
        violations = []
        known_hits = {}
        kmap = {k["id"]: k for k in known}
        for g in self.groups:
            if g["key"].startswith("KNOWN:"):
                kid = g["key"][6:]
                hit = kmap.get(kid)
                if hit is not None:
                    known_hits.setdefault(kid, [hit, 0])
                    known_hits[kid][1] += g["group"]["count"]
                    continue
            violations.append(g)
        for kid, (k, n) in sorted(known_hits.items()):
            print("KNOWN-FINDING: property=%s %s [%s; %d case(s) this run]"
                  % (self.pid, k["what"], kid, n), flush=True)
        rc = 0
        nviol = 0
        unreproduced = 0
        rdir = os.path.join(VERIF, "replays", self.pid)
        for g in violations:
            w = g["group"]["first"][0]
            os.makedirs(rdir, exist_ok=True)
            h = hashlib.sha1((g["key"] + json.dumps(w.get("input"), sort_keys=True)).encode()).hexdigest()[:12]
            rpath = os.path.join(rdir, "%s.json" % h)
            with open(rpath, "w") as fh:
                json.dump({"property": self.pid, "key": g["key"], "count": g["group"]["count"],
                           "finding": w, "family": g["label"], "args": g["args"],
                           "in_flag": g["in_flag"]}, fh, indent=1)
            # reproduce in isolation before reporting
            if self.reproduce(g, w):
                print("VIOLATION property=%s replay=%s" % (self.pid, rpath), flush=True)
                print("  what: %s :: %s (x%d)" % (g["key"], (w.get("detail") or "")[:600], g["group"]["count"]),
                      flush=True)
                nviol += 1
                rc = 1
            else:
                print("UNREPRODUCED disagreement (not a verdict): %s" % g["key"], flush=True)
                unreproduced += 1
        if unreproduced and rc == 0:
            rc = 2
        if not self.samples:
            raise MachineryError("the run produced no sample case for the evidence file")
        cov = {
            "states": self.states,
            "transitions": self.transitions,
            "traces_validated_against_impl": self.traces_validated,
            "evaluations": max(self.evaluations, 0),
            "distinct_nontrivial": self.distinct_nontrivial,
            "comparisons": self.checks,
            "rule": rule,
            "samples": self.samples[:6] if self.samples else [],
            "tlc_runs": self.tlc_runs,
            "tlaps_proofs": self.proofs,
            "known_findings_seen": sorted(known_hits.keys()),
            "notes": self.notes,
        }
        if exhaustive is not None:
            cov["exhaustive"] = exhaustive
        if explanation:
            cov["explanation"] = explanation
        if self.extra:
            cov["extra"] = self.extra
        ev = {
            "property_id": self.pid,
            "tier": self.tier,
            "seed": self.seed,
            "level": level,
            "coverage": cov,
            "assumptions": (assumptions or []) + self.assumptions,
            "wall_s": round(time.time() - self.t0, 1),
            "violations": nviol,
        }
        os.makedirs(os.path.join(VERIF, "evidence"), exist_ok=True)
        with open(os.path.join(VERIF, "evidence", self.pid + ".json"), "w") as fh:
            json.dump(ev, fh, indent=1)
        self.log("done: %d states, %d behaviours replayed, %d violations, %d known findings, rc=%d"
                 % (self.states, self.traces_validated, nviol, len(known_hits), rc))
        return rc

    def reproduce(self, g, w):
        """Re-run the single witness case in a fresh harness process."""
        if g.get("args") is None:
            return True
        if w.get("input") is None:
            # whole-run finding (stress / race detector): run the same command again, twice at most
            for _ in range(2):
                try:
                    rep = self.vh_run(list(g["args"]), timeout=600, race=g.get("race", False),
                                      race_target=g.get("race_target", "race"), binary=g.get("binary"))
                except MachineryError as e:
                    self.log("reproduction run failed: %s" % e)
                    return False
                if g["key"] in (rep.get("groups") or {}):
                    return True
            return False
        path = os.path.join(self.scratch, "repro-%d.json" % len(os.listdir(self.scratch)))
        with open(path, "w") as fh:
            fh.write(json.dumps(w["input"]) + "\n")
        args = list(g["args"])
        if g["in_flag"] in args:
            i = args.index(g["in_flag"])
            args[i + 1] = path
        else:
            args += [g["in_flag"], path]
        try:
            rep = self.vh_run(args, timeout=300, binary=g.get("binary"))
        except MachineryError as e:
            self.log("reproduction run failed: %s" % e)
            return False
        return g["key"] in (rep.get("groups") or {})


def main_wrapper(fn):
    try:
        rc = fn()
    except MachineryError as e:
        print("CHECK-ERROR (machinery, not a verdict): %s" % e, flush=True)
        rc = 2
    sys.exit(rc)
