// Command vh is the Go side of the verification machinery: replayers that step
// TLC-generated behaviours through go-ipld-prime, and recorders that write
// traces of the real code for TLC to validate.
package main

import (
	"flag"
	"fmt"
	"os"
)

type cmd struct {
	name string
	help string
	run  func(args []string) int
}

var cmds []cmd

func register(name, help string, run func(args []string) int) {
	cmds = append(cmds, cmd{name, help, run})
}

func main() {
	if len(os.Args) < 2 {
		usage()
		os.Exit(2)
	}
	for _, c := range cmds {
		if c.name == os.Args[1] {
			os.Exit(c.run(os.Args[2:]))
		}
	}
	usage()
	os.Exit(2)
}

func usage() {
	fmt.Fprintln(os.Stderr, "usage: vh <command> [flags]")
	for _, c := range cmds {
		fmt.Fprintf(os.Stderr, "  %-14s %s\n", c.name, c.help)
	}
}

func newFlags(name string) *flag.FlagSet { return flag.NewFlagSet(name, flag.ExitOnError) }
