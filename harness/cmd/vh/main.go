// Command vh: see package vhcmd.
package main

import "verifharness/vhcmd"

func main() { vhcmd.Main() }
