// Package vhcmd is the Go side of the verification machinery: replayers that step
// TLC-generated behaviours through go-ipld-prime, and recorders that write
// traces of the real code for TLC to validate.  cmd/vh links it as is; the
// runner built next to freshly generated code (gentmpl) links it together with
// the generated package, which makes the generated prototypes available to the
// same sub-commands (replay.GenProtos).
package vhcmd

import (
	"flag"
	"fmt"
	"os"
)

type cmd struct {
	name string
	help string
	run  func(args []string) int
}

var cmds []cmd

func register(name, help string, run func(args []string) int) {
	cmds = append(cmds, cmd{name, help, run})
}

// Main dispatches os.Args to the registered sub-command.
func Main() {
	if len(os.Args) < 2 {
		usage()
		os.Exit(2)
	}
	for _, c := range cmds {
		if c.name == os.Args[1] {
			os.Exit(c.run(os.Args[2:]))
		}
	}
	usage()
	os.Exit(2)
}

func usage() {
	fmt.Fprintln(os.Stderr, "usage: vh <command> [flags]")
	for _, c := range cmds {
		fmt.Fprintf(os.Stderr, "  %-14s %s\n", c.name, c.help)
	}
}

func newFlags(name string) *flag.FlagSet { return flag.NewFlagSet(name, flag.ExitOnError) }
