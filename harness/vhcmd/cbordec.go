package vhcmd

import (
	"os"

	"verifharness/model"
	"verifharness/replay"
	"verifharness/run"
)

func init() {
	register("cbordec", "replay inputs of specs/DagCborDec.tla against dagcbor.Decode", func(args []string) int {
		fs := newFlags("cbordec")
		in := fs.String("in", "-", "case file (TLC output lines)")
		relaxed := fs.Bool("relaxed", false, "cases were generated with Relaxed = TRUE")
		workers := fs.Int("workers", 0, "worker goroutines")
		maxDepth := fs.Int64("maxdepth", 0, "DecodeOptions.MaxDepth the cases were generated with (0: default)")
		depthOnly := fs.Bool("depthonly", false, "judge only acceptance and depth_exceeded rejections (the other rejections are C03's)")
		fs.Parse(args)
		col := run.NewCollector("cbordec")
		r := run.Input(*in)
		defer r.Close()
		run.Lines(r, *workers, func(idx int, line []byte) {
			var cs replay.DecCase
			if err := model.DecodeLine(line, &cs); err != nil {
				col.Add(run.Finding{Case: idx, Step: -1, Target: "harness", Rule: "decode-case", Class: "error", Detail: err.Error()})
				return
			}
			if *depthOnly && !cs.Verdict.Acc && cs.Verdict.Why != "depth_exceeded" {
				col.Case("", 0, nil)
				return
			}
			f, n := replay.ReplayCborDec(&cs, *relaxed, *maxDepth)
			if f != nil {
				f.Case = idx
				f.Input = &cs
				col.Add(*f)
			}
			key := ""
			if len(cs.Inp) > 1 {
				key = string(model.Bytes(cs.Inp)) // distinct inputs
			}
			col.Case(key, n, sampleOf(line))
			if cs.Verdict.Acc {
				col.AddExtra("spec_accepts", 1)
			} else {
				col.AddExtra("spec_rejects:"+cs.Verdict.Why, 1)
			}
		})
		col.Print(os.Stdout)
		return 0
	})
}
