package vhcmd

import (
	"os"

	"verifharness/model"
	"verifharness/replay"
	"verifharness/run"
)

func init() {
	register("immutable", "replay histories of specs/Immutable.tla: every finished node re-read twice after every step", func(args []string) int {
		fs := newFlags("immutable")
		in := fs.String("in", "-", "case file (TLC output lines)")
		fs.Parse(args)
		col := run.NewCollector("immutable")
		r := run.Input(*in)
		defer r.Close()
		run.Lines(r, 0, func(idx int, line []byte) {
			var cs replay.ImCase
			if err := model.DecodeLine(line, &cs); err != nil {
				col.Add(run.Finding{Case: idx, Step: -1, Target: "harness", Rule: "decode-case", Class: "error", Detail: err.Error()})
				return
			}
			f, n := replay.ReplayImmutable(&cs)
			if f != nil {
				f.Case = idx
				f.Input = &cs
				col.Add(*f)
			}
			col.Case(string(line), n, sampleOf(line))
		})
		col.Print(os.Stdout)
		return 0
	})
}
