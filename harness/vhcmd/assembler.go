package vhcmd

import (
	"fmt"
	"os"
	"strings"

	"verifharness/model"
	"verifharness/replay"
	"verifharness/run"
)

func init() {
	register("assembler", "replay behaviours of specs/Assembler.tla on real builders", func(args []string) int {
		fs := newFlags("assembler")
		in := fs.String("in", "-", "case file (TLC output lines)")
		topKind := fs.String("topkind", "any", "TopKind constant the cases were generated with")
		targets := fs.String("targets", "", "comma separated targets (default: all for topkind)")
		profiles := fs.String("profiles", "0", "comma separated concretisation profiles")
		deep := fs.Bool("deep", false, "also run the DeepEqual/Copy cross-implementation checks (C01)")
		workers := fs.Int("workers", 0, "worker goroutines")
		frontEnds := fs.Bool("frontends", false, "also run the first build of every behaviour through the closure front ends fluent and fluent/qp")
		fs.Parse(args)

		tg := replay.AsmTargets(*topKind)
		if *targets != "" {
			tg = strings.Split(*targets, ",")
		}
		var profs []int
		for _, p := range strings.Split(*profiles, ",") {
			var n int
			fmt.Sscan(p, &n)
			profs = append(profs, n)
		}
		col := run.NewCollector("assembler")
		r := run.Input(*in)
		defer r.Close()
		run.Lines(r, *workers, func(idx int, line []byte) {
			var cs replay.AsmCase
			if err := model.DecodeLine(line, &cs); err != nil {
				col.Add(run.Finding{Case: idx, Step: -1, Target: "harness", Rule: "decode-case", Class: "error", Detail: err.Error()})
				return
			}
			checks := 0
			nontrivial := false
			for _, s := range cs.Steps {
				if s.R != "ok" || s.A == "AssignNode" || (s.A == "Finish") {
					nontrivial = true
				}
			}
			for _, t := range tg {
				for _, p := range profs {
					f, n := replay.ReplayAssembler(&cs, t, model.Conc{Sym: true, Profile: p}, *deep)
					checks += n
					if f != nil {
						f.Case = idx
						f.Detail = fmt.Sprintf("profile %d: %s", p, f.Detail)
						f.Input = &cs
						col.Add(*f)
						break
					}
				}
				if *frontEnds {
					f, n, skipped := replay.ReplayClosureFrontEnds(&cs, cs.Abort, t, model.Conc{Sym: true, Profile: profs[0]})
					checks += n
					col.AddExtra("closure_front_end_builds", n)
					col.AddExtra("not_expressible_with_qp", skipped)
					if f != nil {
						f.Case = idx
						f.Input = &cs
						col.Add(*f)
					}
				}
			}
			key := ""
			if nontrivial {
				key = string(line)
			}
			col.Case(key, checks, sampleOf(line))
		})
		col.SetExtra("targets", tg)
		col.SetExtra("profiles", profs)
		col.Print(os.Stdout)
		return 0
	})
}

// sampleOf returns the inner JSON of a TLC-printed line (for evidence samples).
func sampleOf(line []byte) []byte {
	var raw interface{}
	if err := model.DecodeLine(line, &raw); err != nil {
		return nil
	}
	b, err := jsonMarshal(raw)
	if err != nil {
		return nil
	}
	return b
}
