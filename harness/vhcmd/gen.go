package vhcmd

import (
	"fmt"
	"os"

	"verifharness/model"
	"verifharness/replay"
	"verifharness/run"
)

// Sub-commands that need the freshly generated package: available only in the runner binary that is
// compiled together with it (gentmpl/genrun_main.go.txt sets replay.GenProtos).
func init() {
	register("genschema", "replay cases of specs/SchemaGen.tla on freshly generated code (C13, C09)", func(args []string) int {
		fs := newFlags("genschema")
		in := fs.String("in", "-", "case file")
		roundTrip := fs.Bool("roundtrip", false, "encode/decode/re-encode accepted values")
		fs.Parse(args)
		eng, ok := replay.GenEngine()
		if !ok {
			fmt.Fprintln(os.Stderr, "genschema: this binary was not built with a generated package")
			return 2
		}
		col := run.NewCollector("genrun")
		r := run.Input(*in)
		defer r.Close()
		run.Lines(r, 0, func(idx int, line []byte) {
			var cs replay.SchemaCase
			if err := model.DecodeLine(line, &cs); err != nil {
				return
			}
			if !replay.GenSupported(cs.Ty) {
				col.AddExtra("outside_generator_feature_set", 1)
				return
			}
			fs, n := replay.ReplaySchemaCase(&cs, eng, *roundTrip)
			for _, f := range fs {
				f.Case = idx
				f.Input = &cs
				col.Add(*f)
			}
			// the reflection binding on the same case: which engine disagrees with the specification?
			bs, _ := replay.ReplaySchemaCase(&cs, replay.BindnodeEngine, false)
			if (len(fs) == 0) != (len(bs) == 0) {
				col.AddExtra("engines_differ", 1)
			}
			var sample []byte
			if idx%997 == 0 {
				sample = sampleOf(line)
			}
			col.Case(string(line), n, sample)
		})
		col.Print(os.Stdout)
		return 0
	})
	register("gentypedasm", "replay behaviours of specs/TypedAssembler.tla on the typed builders of freshly generated code (C12, C01)", func(args []string) int {
		fs := newFlags("gentypedasm")
		in := fs.String("in", "-", "behaviour file")
		secondary := fs.Bool("secondary", false, "also report secondary observations of the built node")
		fs.Parse(args)
		eng, ok := replay.GenEngine()
		if !ok {
			fmt.Fprintln(os.Stderr, "gentypedasm: this binary was not built with a generated package")
			return 2
		}
		col := run.NewCollector("genrun")
		r := run.Input(*in)
		defer r.Close()
		run.Lines(r, 0, func(idx int, line []byte) {
			var cs replay.TypedAsmCase
			if err := model.DecodeLine(line, &cs); err != nil {
				return
			}
			if !replay.GenSupported(cs.Ty) {
				col.AddExtra("outside_generator_feature_set", 1)
				return
			}
			if !cs.ForEngine(eng) {
				col.AddExtra("other_engines_style_of_refusing_a_repeated_key", 1)
				return
			}
			if cs.Late {
				col.AddExtra("repeated_key_refused_by_the_value_assembler", 1)
			}
			fs, n := replay.ReplayTypedAsm(&cs, eng, *secondary)
			for _, f := range fs {
				f.Case = idx
				f.Input = &cs
				col.Add(*f)
			}
			var sample []byte
			if idx%997 == 0 {
				sample = sampleOf(line)
			}
			col.Case(string(line), n, sample)
		})
		col.Print(os.Stdout)
		return 0
	})
}
