package vhcmd

import (
	"fmt"
	"os"
	"strings"

	"verifharness/model"
	"verifharness/replay"
	"verifharness/run"
)

func init() {
	register("storage", "replay histories of specs/Storage.tla on the bundled block stores", func(args []string) int {
		fs := newFlags("storage")
		in := fs.String("in", "-", "case file (TLC output lines)")
		targets := fs.String("targets", "memstore,memstore[basic-only],cidlink.Memory,fsstore[default],fsstore[r122,hex]", "stores")
		profiles := fs.String("profiles", "0,1,2,3,4,5", "key profiles")
		shard := fs.Int("shard", 0, "process only cases with index % nshards == shard")
		nshards := fs.Int("nshards", 1, "number of shards")
		scratch := fs.String("scratch", os.TempDir(), "directory for sandboxes")
		fsEvery := fs.Int("fsevery", 1, "run the filesystem stores on every n-th history only")
		fs.Parse(args)
		var tg []string
		for _, t := range strings.Split(*targets, ";") {
			tg = append(tg, t)
		}
		if !strings.Contains(*targets, ";") {
			tg = splitTargets(*targets)
		}
		var profs []int
		for _, p := range strings.Split(*profiles, ",") {
			var n int
			fmt.Sscan(p, &n)
			profs = append(profs, n)
		}
		col := run.NewCollector("storage")
		r := run.Input(*in)
		defer r.Close()
		run.Lines(r, 1, func(idx int, line []byte) {
			if idx%*nshards != *shard {
				return
			}
			var cs replay.StCase
			if err := model.DecodeLine(line, &cs); err != nil {
				col.Add(run.Finding{Case: idx, Step: -1, Target: "harness", Rule: "decode-case", Class: "error", Detail: err.Error()})
				return
			}
			checks := 0
			for _, t := range tg {
				for _, p := range profs {
					if t == "cidlink.Memory" && p != profs[0] {
						continue // link-keyed: the key profile does not apply
					}
					if strings.HasPrefix(t, "fsstore") && (idx / *nshards)%*fsEvery != 0 {
						continue
					}
					f, n, skipped := replay.ReplayStorage(&cs, t, p, *scratch)
					checks += n
					if skipped {
						col.AddExtra("skipped_other_branch", 1)
					}
					if f != nil {
						f.Case = idx
						f.Input = &cs
						col.Add(*f)
					}
				}
			}
			col.Case(string(line), checks, sampleOf(line))
		})
		col.Print(os.Stdout)
		return 0
	})
}

// splitTargets splits on commas that are not inside brackets.
func splitTargets(s string) []string {
	var out []string
	depth, start := 0, 0
	for i, c := range s {
		switch c {
		case '[':
			depth++
		case ']':
			depth--
		case ',':
			if depth == 0 {
				out = append(out, s[start:i])
				start = i + 1
			}
		}
	}
	return append(out, s[start:])
}
