package vhcmd

import (
	"bytes"
	"context"
	"fmt"
	"math/rand"
	"os"

	"github.com/ipld/go-ipld-prime/storage/fsstore"

	"verifharness/run"
)

// fscancel: FsStore!Cancel.  The context handed to a put / streaming put is cancelled immediately before
// the k-th filesystem operation of that writer, for every k (the hook points are discovered by a dry run,
// so a writer that splits its work differently is still covered at every one of ITS steps).  Cancellation
// allows the writer to give up, nothing more: afterwards the key is absent or complete, an acknowledged
// put is visible, and the directory is usable by a new store handle.
func init() {
	register("fscancel", "cancel the writer's context before each of its filesystem operations (C18)", func(args []string) int {
		fs := newFlags("fscancel")
		seed := fs.Int64("seed", 1, "seed")
		scratch := fs.String("scratch", os.TempDir(), "directory for the sandboxes")
		thorough := fs.Bool("thorough", false, "every hook point also for large contents")
		fs.Parse(args)
		rng := rand.New(rand.NewSource(*seed))
		col := run.NewCollector("fscancel")
		type via struct {
			name   string
			writes int // 0: Put; n: PutStream with n writes
		}
		vias := []via{{"put", 0}, {"stream1", 1}, {"stream3", 3}}
		sizes := []int{0, 57, 300*1024 + 13, 1<<20 + 57}
		key := "cancelled-key"
		mk := func(size int) []byte {
			b := make([]byte, size)
			for i := range b {
				b[i] = byte(i*7 + i/251)
			}
			return b
		}
		doPut := func(ctx context.Context, st *fsstore.Store, v via, content []byte) error {
			if v.writes == 0 {
				return st.Put(ctx, key, content)
			}
			wr, commit, err := st.PutStream(ctx)
			if err != nil {
				return err
			}
			per := len(content)/v.writes + 1
			for off := 0; off < len(content) || off == 0; off += per {
				end := off + per
				if end > len(content) {
					end = len(content)
				}
				if _, werr := wr.Write(content[off:end]); werr != nil {
					commit("") // the documented way to abandon
					return werr
				}
				if len(content) == 0 {
					break
				}
			}
			return commit(key)
		}
		caseNo := 0
		for _, v := range vias {
			for _, size := range sizes {
				content := mk(size)
				// dry run: how many filesystem operations does this writer perform?
				total := 0
				{
					dir, err := os.MkdirTemp(*scratch, "fscancel-")
					if err != nil {
						fmt.Fprintln(os.Stderr, err)
						return 2
					}
					st := &fsstore.Store{}
					st.InitDefaults(dir)
					fsstore.VerifHook = func(point, path string) error { total++; return nil }
					err = doPut(context.Background(), st, v, content)
					fsstore.VerifHook = nil
					os.RemoveAll(dir)
					if err != nil {
						col.Add(run.Finding{Case: caseNo, Step: -1, Target: "fsstore[cancel-" + v.name + "]", Rule: "healthy-put:ok", Class: "error", Detail: err.Error()})
						continue
					}
				}
				points := map[int]bool{}
				for k := 0; k <= total; k++ {
					if *thorough || total <= 24 || k < 12 || k > total-6 {
						points[k] = true
					}
				}
				for len(points) < 30 && len(points) <= total {
					points[rng.Intn(total+1)] = true
				}
				for k := 0; k <= total; k++ {
					if !points[k] {
						continue
					}
					caseNo++
					target := "fsstore[cancel-" + v.name + "]"
					desc := fmt.Sprintf("%d bytes via %s, context cancelled before filesystem operation #%d of %d", size, v.name, k, total)
					dir, err := os.MkdirTemp(*scratch, "fscancel-")
					if err != nil {
						fmt.Fprintln(os.Stderr, err)
						return 2
					}
					st := &fsstore.Store{}
					st.InitDefaults(dir)
					ctx, cancel := context.WithCancel(context.Background())
					n := 0
					fsstore.VerifHook = func(point, path string) error {
						if n == k {
							cancel()
						}
						n++
						return nil
					}
					var perr error
					var panicked interface{}
					func() {
						defer func() { panicked = recover() }()
						perr = doPut(ctx, st, v, content)
					}()
					fsstore.VerifHook = nil
					if k >= n {
						cancel() // after the last operation: nothing left to notice
					}
					checks := 0
					fail := func(rule, class, detail string) {
						col.Add(run.Finding{Case: caseNo, Step: k, Target: target, Rule: rule, Class: class, Detail: desc + ": " + detail})
					}
					if panicked != nil {
						fail("NoPanic", "panic", fmt.Sprint(panicked))
					}
					// a new handle on the same directory (a new process would see the same files)
					st2 := &fsstore.Store{}
					st2.InitDefaults(dir)
					bg := context.Background()
					has, herr := st2.Has(bg, key)
					got, gerr := st2.Get(bg, key)
					checks += 2
					switch {
					case herr != nil:
						fail("UsableAfterCancel", "has-error", herr.Error())
					case has && gerr != nil:
						fail("ReaderSeesAbsentOrComplete", "has-but-unreadable", gerr.Error())
					case has && !bytes.Equal(got, content):
						fail("AtomicVisibility", "partial-visible", fmt.Sprintf("the key holds %d of %d bytes (the writer returned %v)", len(got), len(content), perr))
					case !has && perr == nil:
						fail("AckedIsVisible", "acked-but-absent", "the writer returned nil but the key is absent")
					}
					// the directory stays usable
					other := []byte("after-" + desc)
					if err := st2.Put(bg, "other-key", other); err != nil {
						fail("UsableAfterCancel", "put-error", err.Error())
					} else if g, err := st2.Get(bg, "other-key"); err != nil || !bytes.Equal(g, other) {
						fail("UsableAfterCancel", "get-mismatch", fmt.Sprint(err))
					}
					checks += 2
					os.RemoveAll(dir)
					var sample []byte
					if caseNo%37 == 1 {
						sample = []byte(fmt.Sprintf(`{"cancel":%q,"writer_returned":%q,"visible":%v}`, desc, fmt.Sprint(perr), has))
					}
					col.Case(desc, checks, sample)
				}
			}
		}
		col.Print(os.Stdout)
		return 0
	})
}
