package vhcmd

import (
	"encoding/hex"
	"fmt"

	"github.com/ipld/go-ipld-prime/codec/dagcbor"
	"github.com/ipld/go-ipld-prime/node/basicnode"

	"verifharness/model"
	"verifharness/replay"
)

func init() {
	register("cborprobe", "decode hex inputs with the real dagcbor decoder and print the outcome", func(args []string) int {
		for _, h := range args {
			b, err := hex.DecodeString(h)
			if err != nil {
				fmt.Println(h, "bad hex")
				continue
			}
			for _, relaxed := range []bool{false, true} {
				n, err, p := replay.DecodeCbor(b, dagcbor.DecodeOptions{AllowLinks: true, RelaxedDecode: relaxed}, basicnode.Prototype.Any)
				if p != nil {
					fmt.Printf("%s relaxed=%v PANIC %v\n", h, relaxed, p)
				} else if err != nil {
					fmt.Printf("%s relaxed=%v ERR %v\n", h, relaxed, err)
				} else {
					v, _ := model.Project(n)
					fmt.Printf("%s relaxed=%v OK %v\n", h, relaxed, v)
				}
			}
		}
		return 0
	})
}
