package vhcmd

import (
	"fmt"
	"os"

	"github.com/ipld/go-ipld-prime/datamodel"

	"verifharness/model"
	"verifharness/run"
)

// mutantNode wraps a correct node and breaks exactly one read form.  The observation
// checker must reject every one of them: this is the binding demonstration for the
// projection functions (DESIGN.md section 7 (c)).
type mutantNode struct {
	datamodel.Node
	mode string
}

func (m mutantNode) Length() int64 {
	if m.mode == "len+1" && m.Node.Length() >= 0 {
		return m.Node.Length() + 1
	}
	return m.Node.Length()
}

type skipFirstMapItr struct{ datamodel.MapIterator }
type skipFirstListItr struct{ datamodel.ListIterator }

func (m mutantNode) MapIterator() datamodel.MapIterator {
	it := m.Node.MapIterator()
	if m.mode == "iter-skip-first" && it != nil && !it.Done() {
		it.Next()
	}
	return it
}
func (m mutantNode) ListIterator() datamodel.ListIterator {
	it := m.Node.ListIterator()
	if m.mode == "iter-skip-first" && it != nil && !it.Done() {
		it.Next()
	}
	return it
}
func (m mutantNode) LookupByString(k string) (datamodel.Node, error) {
	if m.mode == "lookup-first-always" && m.Node.Kind() == datamodel.Kind_Map && m.Node.Length() > 1 {
		_, v, _ := m.Node.MapIterator().Next()
		return v, nil
	}
	if m.mode == "absent-found" && m.Node.Kind() == datamodel.Kind_Map {
		if v, err := m.Node.LookupByString(k); err == nil {
			return v, nil
		}
		return datamodel.Null, nil
	}
	return m.Node.LookupByString(k)
}
func (m mutantNode) LookupByIndex(i int64) (datamodel.Node, error) {
	if m.mode == "index-off-by-one" && m.Node.Kind() == datamodel.Kind_List && m.Node.Length() > 1 {
		return m.Node.LookupByIndex((i + 1) % m.Node.Length())
	}
	return m.Node.LookupByIndex(i)
}
func (m mutantNode) AsInt() (int64, error) {
	if m.mode == "asint-no-error" && m.Node.Kind() != datamodel.Kind_Int {
		return 0, nil
	}
	return m.Node.AsInt()
}
func (m mutantNode) AsString() (string, error) {
	if m.mode == "asstring-panics" && m.Node.Kind() != datamodel.Kind_String {
		panic("mutant")
	}
	return m.Node.AsString()
}

func sv(k string, n int) model.Value {
	return model.Value{K: k, A: []int{n}, Ks: [][]int{}, Vs: []model.Value{}}
}

func init() {
	register("selftest", "self-test of the observation checker against a reference node and broken nodes", func(args []string) int {
		col := run.NewCollector("selftest")
		mapv := model.Value{K: "map", A: []int{}, Ks: [][]int{{1}, {2}, {3}}, Vs: []model.Value{sv("int", 1), sv("string", 2),
			{K: "list", A: []int{}, Ks: [][]int{}, Vs: []model.Value{sv("bool", 1), sv("int", 2), sv("bytes", 1)}}}}
		listv := model.Value{K: "list", A: []int{}, Ks: [][]int{}, Vs: []model.Value{sv("int", 1), sv("int", 2), mapv}}
		vals := []model.Value{mapv, listv, sv("int", 1), sv("string", 1), sv("bytes", 2), sv("float", 1), sv("bool", 1), sv("link", 1),
			{K: "null", A: []int{}, Ks: [][]int{}, Vs: []model.Value{}}}
		modes := []string{"len+1", "iter-skip-first", "lookup-first-always", "absent-found", "index-off-by-one", "asint-no-error", "asstring-panics"}
		bad := 0
		for p := 0; p < model.NProfiles; p++ {
			c := model.Conc{Sym: true, Profile: p}
			for _, v := range vals {
				for _, impl := range []string{"foreign", "basic", "bind"} {
					n, err := c.BuildImpl(impl, v)
					if err != nil {
						fmt.Fprintln(os.Stderr, "selftest: cannot build", v, impl, err)
						bad++
						continue
					}
					if impl == "foreign" {
						// the trivially correct reference must be accepted
						if m := c.CheckObs(n, v, model.ObsOpts{}); m != nil {
							fmt.Fprintln(os.Stderr, "selftest: reference node rejected:", m)
							bad++
						}
					}
					col.Case(fmt.Sprintf("%d/%v/%s", p, v, impl), 1, nil)
				}
				ref, _ := c.BuildImpl("foreign", v)
				for _, mode := range modes {
					applicable := map[string]bool{
						"len+1":               v.K == "map" || v.K == "list",
						"iter-skip-first":     (v.K == "map" || v.K == "list") && len(v.Vs) > 0,
						"lookup-first-always": v.K == "map" && len(v.Vs) > 1,
						"absent-found":        v.K == "map",
						"index-off-by-one":    v.K == "list" && len(v.Vs) > 1,
						"asint-no-error":      v.K != "int",
						"asstring-panics":     v.K != "string",
					}[mode]
					if !applicable {
						continue
					}
					if m := c.CheckObs(mutantNode{ref, mode}, v, model.ObsOpts{}); m == nil {
						fmt.Fprintf(os.Stderr, "selftest: broken node (%s) over %v was NOT rejected\n", mode, v)
						bad++
					}
					col.Case(fmt.Sprintf("%d/%v/mut-%s", p, v, mode), 1, nil)
				}
			}
		}
		col.SetExtra("selftest_failures", bad)
		col.Print(os.Stdout)
		if bad > 0 {
			return 3
		}
		return 0
	})
}
