package vhcmd

import (
	"bytes"
	"context"
	"fmt"
	"math/rand"
	"os"
	"path/filepath"
	"sync"
	"sync/atomic"
	"time"

	"github.com/ipld/go-ipld-prime/storage/fsstore"

	"verifharness/run"
)

// fsstress: free-running writers and readers on one Store.  Only order-free facts are asserted
// (a read returns absent or exactly the content that belongs to that key); built with -race the
// Go race detector additionally observes every access to shared memory inside the store.
func init() {
	register("fsstress", "free-running concurrent puts/gets on one fsstore (use the -race build)", func(args []string) int {
		fs := newFlags("fsstress")
		dur := fs.Duration("dur", 2*time.Second, "how long to run")
		nw := fs.Int("writers", 8, "writer goroutines")
		nr := fs.Int("readers", 4, "reader goroutines")
		seed := fs.Int64("seed", 1, "seed")
		scratch := fs.String("scratch", os.TempDir(), "directory for the sandbox")
		fs.Parse(args)
		col := run.NewCollector("fsstress")
		dir, err := os.MkdirTemp(*scratch, "fsstress-")
		if err != nil {
			fmt.Fprintln(os.Stderr, err)
			return 2
		}
		defer os.RemoveAll(dir)
		st := &fsstore.Store{}
		if err := st.InitDefaults(filepath.Join(dir)); err != nil {
			fmt.Fprintln(os.Stderr, err)
			return 2
		}
		content := func(key string) []byte { return bytes.Repeat([]byte(key+"|"), 40) }
		keyOf := func(w, i int) string { return fmt.Sprintf("key-w%02d-%06d-x", w, i) }
		var progress [64]int64
		var puts, gets, found int64
		deadline := time.Now().Add(*dur)
		ctx := context.Background()
		var wg sync.WaitGroup
		for w := 0; w < *nw; w++ {
			wg.Add(1)
			go func(w int) {
				defer wg.Done()
				for i := 0; time.Now().Before(deadline); i++ {
					k := keyOf(w, i)
					if i%3 == 2 { // streaming put in two writes
						wr, commit, err := st.PutStream(ctx)
						if err == nil {
							c := content(k)
							wr.Write(c[:len(c)/2])
							wr.Write(c[len(c)/2:])
							err = commit(k)
						}
						_ = err // losing a mkdir race is a documented deviation; absence is allowed
					} else {
						_ = st.Put(ctx, k, content(k))
					}
					atomic.StoreInt64(&progress[w], int64(i+1))
					atomic.AddInt64(&puts, 1)
				}
			}(w)
		}
		for r := 0; r < *nr; r++ {
			wg.Add(1)
			go func(r int) {
				defer wg.Done()
				rng := rand.New(rand.NewSource(*seed + int64(r)))
				for time.Now().Before(deadline) {
					w := rng.Intn(*nw)
					hi := atomic.LoadInt64(&progress[w]) + 2
					k := keyOf(w, int(rng.Int63n(hi)))
					b, err := st.Get(ctx, k)
					atomic.AddInt64(&gets, 1)
					if err != nil {
						if !os.IsNotExist(err) {
							col.Add(run.Finding{Step: -1, Target: "fsstore[stress]", Rule: "ReaderSeesAbsentOrComplete", Class: "read-error", Detail: fmt.Sprintf("Get(%q): %v", k, err)})
						}
						continue
					}
					atomic.AddInt64(&found, 1)
					if !bytes.Equal(b, content(k)) {
						col.Add(run.Finding{Step: -1, Target: "fsstore[stress]", Rule: "ReaderSeesAbsentOrComplete", Class: "partial-or-foreign-read",
							Detail: fmt.Sprintf("Get(%q) returned %d bytes starting %q", k, len(b), string(b[:min(len(b), 24)]))})
					}
				}
			}(r)
		}
		wg.Wait()
		// final sweep: every key is absent or complete
		for w := 0; w < *nw; w++ {
			for i := 0; i < int(progress[w]); i++ {
				k := keyOf(w, i)
				b, err := st.Get(ctx, k)
				if err != nil {
					continue
				}
				if !bytes.Equal(b, content(k)) {
					col.Add(run.Finding{Step: -1, Target: "fsstore[stress]", Rule: "AtomicVisibility", Class: "partial-or-foreign-visible",
						Detail: fmt.Sprintf("key %q holds %d bytes starting %q", k, len(b), string(b[:min(len(b), 24)]))})
				}
			}
		}
		col.Case("stress", int(puts+gets), nil)
		col.SetExtra("puts", puts)
		col.SetExtra("gets", gets)
		col.SetExtra("gets_found", found)
		col.Print(os.Stdout)
		return 0
	})
}
