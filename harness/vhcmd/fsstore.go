package vhcmd

import (
	"os"

	"verifharness/model"
	"verifharness/replay"
	"verifharness/run"
)

func init() {
	register("fsstore", "force behaviours of specs/FsStore.tla (schedules, crashes, faults) through storage/fsstore", func(args []string) int {
		fs := newFlags("fsstore")
		in := fs.String("in", "-", "case file (TLC output lines)")
		shard := fs.Int("shard", 0, "process only cases with index % nshards == shard")
		nshards := fs.Int("nshards", 1, "number of shards")
		scratch := fs.String("scratch", os.TempDir(), "directory for sandboxes")
		fs.Parse(args)
		col := run.NewCollector("fsstore")
		r := run.Input(*in)
		defer r.Close()
		run.Lines(r, 1, func(idx int, line []byte) {
			if idx%*nshards != *shard {
				return
			}
			var cs replay.FsCase
			if err := model.DecodeLine(line, &cs); err != nil {
				col.Add(run.Finding{Case: idx, Step: -1, Target: "harness", Rule: "decode-case", Class: "error", Detail: err.Error()})
				return
			}
			f, o := replay.ReplayFsStore(&cs, *scratch)
			if f != nil {
				f.Case = idx
				f.Input = &cs
				col.Add(*f)
			}
			if o.Divergence != "" {
				col.AddExtra("divergences", 1)
				col.SetExtra("first_divergence", cs.Scenario+": "+o.Divergence)
			}
			col.Case(string(line), o.Checks, sampleOf(line))
		})
		col.Print(os.Stdout)
		return 0
	})
}
