package vhcmd

import "encoding/json"

func jsonMarshal(v interface{}) ([]byte, error) { return json.Marshal(v) }
