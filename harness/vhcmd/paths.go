package vhcmd

import (
	"os"
	"strings"

	"verifharness/model"
	"verifharness/replay"
	"verifharness/run"
)

func init() {
	register("paths", "replay path probes of specs/PathsGen.tla against traversal.Get/Focus and datamodel.ParsePath", func(args []string) int {
		fs := newFlags("paths")
		in := fs.String("in", "-", "case file (TLC output lines)")
		only := fs.String("only", "", "comma separated probe kinds to replay (default: all)")
		fs.Parse(args)
		col := run.NewCollector("paths")
		r := run.Input(*in)
		defer r.Close()
		run.Lines(r, 0, func(idx int, line []byte) {
			var p replay.PathProbe
			if err := model.DecodeLine(line, &p); err != nil {
				col.Add(run.Finding{Case: idx, Step: -1, Target: "harness", Rule: "decode-case", Class: "error", Detail: err.Error()})
				return
			}
			if *only != "" && !strings.Contains(","+*only+",", ","+p.Kind+",") {
				return
			}
			col.AddExtra("kind_"+p.Kind, 1)
			f, n := replay.ReplayPathProbe(&p)
			if f != nil {
				f.Case = idx
				f.Input = &p
				col.Add(*f)
			}
			key := ""
			if len(p.Path) > 0 || len(p.Joined) > 0 {
				key = string(line)
			}
			col.Case(key, n, sampleOf(line))
		})
		col.Print(os.Stdout)
		return 0
	})
}
