package vhcmd

import (
	"os"

	"verifharness/model"
	"verifharness/replay"
	"verifharness/run"
)

func init() {
	register("cborenc", "replay values of specs/DagCborEnc.tla against dagcbor.Encode/EncodedLength/Decode", func(args []string) int {
		fs := newFlags("cborenc")
		in := fs.String("in", "-", "case file (TLC output lines)")
		seed := fs.Int64("seed", 1, "seed for sampled insertion orders")
		limit := fs.Int("orders", 200, "cap on insertion orders per value")
		workers := fs.Int("workers", 0, "worker goroutines")
		fs.Parse(args)
		col := run.NewCollector("cborenc")
		r := run.Input(*in)
		defer r.Close()
		run.Lines(r, *workers, func(idx int, line []byte) {
			var cs replay.EncCase
			if err := model.DecodeLine(line, &cs); err != nil {
				col.Add(run.Finding{Case: idx, Step: -1, Target: "harness", Rule: "decode-case", Class: "error", Detail: err.Error()})
				return
			}
			f, n := replay.ReplayCborEnc(&cs, *seed+int64(idx), *limit)
			if f != nil {
				f.Case = idx
				f.Input = &cs
				col.Add(*f)
			}
			key := ""
			if cs.V.K == "map" || cs.V.K == "list" || len(cs.Enc) > 1 {
				key = string(line)
			}
			col.Case(key, n, sampleOf(line))
		})
		col.Print(os.Stdout)
		return 0
	})
}
