package vhcmd

import (
	"os"

	"verifharness/model"
	"verifharness/replay"
	"verifharness/run"
)

func init() {
	register("transform", "replay transforms of specs/TransformGen.tla against FocusedTransform / WalkTransforming", func(args []string) int {
		fs := newFlags("transform")
		in := fs.String("in", "-", "case file (TLC output lines)")
		fs.Parse(args)
		col := run.NewCollector("transform")
		r := run.Input(*in)
		defer r.Close()
		run.Lines(r, 0, func(idx int, line []byte) {
			var cs replay.TfCase
			if err := model.DecodeLine(line, &cs); err != nil {
				col.Add(run.Finding{Case: idx, Step: -1, Target: "harness", Rule: "decode-case", Class: "error", Detail: err.Error()})
				return
			}
			f, n := replay.ReplayTransform(&cs)
			if f != nil {
				f.Case = idx
				f.Input = &cs
				col.Add(*f)
			}
			key := ""
			if len(cs.Path) > 0 || cs.Kind == "walk" {
				key = string(line)
			}
			col.Case(key, n, sampleOf(line))
		})
		col.Print(os.Stdout)
		return 0
	})
}
