package vhcmd

import (
	"bufio"
	"bytes"
	"encoding/json"
	"fmt"
	"math"
	"math/rand"
	"os"

	cid "github.com/ipfs/go-cid"
	"github.com/ipld/go-ipld-prime/codec/dagcbor"
	"github.com/ipld/go-ipld-prime/datamodel"
	"github.com/ipld/go-ipld-prime/fluent/qp"
	cidlink "github.com/ipld/go-ipld-prime/linking/cid"
	"github.com/ipld/go-ipld-prime/node/basicnode"

	"verifharness/model"
	"verifharness/run"
)

// cbor-gen: random decoder inputs BEYOND the strings TLC enumerates -- encodings of random nested values (depth up to
// 4, every kind, integers of every head width, links of several CID shapes), structural and byte-level mutations of
// them (entries swapped or repeated, heads widened, definite lengths made indefinite, floats narrowed, bytes flipped /
// inserted / dropped, truncations, trailing bytes) and short random strings over a weighted alphabet.  Inputs only: TLC
// runs the decoder machine of DagCbor.tla on each (DagCborDec, Mode = "file") and emits the verdict the real decoder
// must reach.
func init() {
	register("cbor-gen", "random dag-cbor decoder inputs for TLC to evaluate (inputs only)", func(args []string) int {
		fs := newFlags("cbor-gen")
		out := fs.String("out", "inputs.ndjson", "output file")
		n := fs.Int("n", 3000, "number of inputs")
		seed := fs.Int64("seed", 1, "seed")
		maxLen := fs.Int("maxlen", 48, "longest input")
		fs.Parse(args)
		rng := rand.New(rand.NewSource(*seed))
		f, err := os.Create(*out)
		if err != nil {
			fmt.Fprintln(os.Stderr, err)
			return 2
		}
		defer f.Close()
		w := bufio.NewWriter(f)
		defer w.Flush()
		col := run.NewCollector("cbor-gen")
		g := &cborGen{rng: rng}
		seen := map[string]bool{}
		for i := 0; i < *n; {
			b := g.input()
			if len(b) == 0 || len(b) > *maxLen || seen[string(b)] {
				continue
			}
			seen[string(b)] = true
			line, _ := json.Marshal(map[string]interface{}{"inp": model.Ints(b)})
			w.Write(line)
			w.WriteByte('\n')
			var sample []byte
			if i < 3 {
				sample = line
			}
			col.Case(string(line), 1, sample)
			i++
		}
		col.Print(os.Stdout)
		return 0
	})
}

type cborGen struct{ rng *rand.Rand }

var cgCids = []cid.Cid{}

func init() {
	for _, p := range []cid.Prefix{
		{Version: 1, Codec: 0x71, MhType: 0x12, MhLength: -1},
		{Version: 1, Codec: 0x55, MhType: 0x00, MhLength: -1},
		{Version: 0, Codec: 0x70, MhType: 0x12, MhLength: -1},
		{Version: 1, Codec: 0x0129, MhType: 0x12, MhLength: 4},
	} {
		c, err := p.Sum([]byte("x"))
		if err == nil {
			cgCids = append(cgCids, c)
		}
	}
}

func (g *cborGen) scalar(na datamodel.NodeAssembler) {
	r := g.rng
	switch r.Intn(9) {
	case 0:
		na.AssignNull()
	case 1:
		na.AssignBool(r.Intn(2) == 0)
	case 2, 3:
		// integers at and around every head width, both signs
		mags := []uint64{0, 1, 23, 24, 255, 256, 65535, 65536, 1<<32 - 1, 1 << 32, 1<<63 - 1}
		m := mags[r.Intn(len(mags))]
		if r.Intn(2) == 0 {
			na.AssignInt(int64(m))
		} else {
			na.AssignInt(-1 - int64(m))
		}
	case 4:
		fl := []float64{1.5, -2.25, 0, math.Copysign(0, -1), 1e300, 3, math.SmallestNonzeroFloat64}
		na.AssignFloat(fl[r.Intn(len(fl))])
	case 5, 6:
		ss := []string{"", "a", "b", "aa", "é", "\x00", "abcdefghijklmnopqrstuvwx", "\xff"}
		na.AssignString(ss[r.Intn(len(ss))])
	case 7:
		bs := [][]byte{{}, {1}, {0, 255}, bytes.Repeat([]byte{7}, 24)}
		na.AssignBytes(bs[r.Intn(len(bs))])
	default:
		na.AssignLink(cidlink.Link{Cid: cgCids[r.Intn(len(cgCids))]})
	}
}

func (g *cborGen) node(na datamodel.NodeAssembler, depth int) {
	r := g.rng
	c := r.Intn(10)
	if depth <= 0 {
		c = 0
	}
	switch {
	case c < 5:
		g.scalar(na)
	case c < 8:
		keys := []string{"a", "b", "aa", "", "ab", "é", "z", "\x00"}
		n := r.Intn(4)
		perm := r.Perm(len(keys))[:n]
		qp.Map(int64(n), func(ma datamodel.MapAssembler) {
			for _, p := range perm {
				va, err := ma.AssembleEntry(keys[p])
				if err == nil {
					g.node(va, depth-1)
				}
			}
		})(na)
	default:
		n := r.Intn(4)
		qp.List(int64(n), func(la datamodel.ListAssembler) {
			for i := 0; i < n; i++ {
				g.node(la.AssembleValue(), depth-1)
			}
		})(na)
	}
}

func (g *cborGen) encoding() []byte {
	nb := basicnode.Prototype.Any.NewBuilder()
	g.node(nb, 1+g.rng.Intn(4))
	var buf bytes.Buffer
	if err := dagcbor.Encode(nb.Build(), &buf); err != nil {
		return nil
	}
	return buf.Bytes()
}

var cgAlphabet = []byte{0x00, 0x01, 0x17, 0x18, 0x19, 0x1a, 0x1b, 0x1c, 0x1f, 0x20, 0x38, 0x3b, 0x40, 0x41, 0x58, 0x5f, 0x60, 0x61, 0x78,
	0x7f, 0x80, 0x81, 0x82, 0x98, 0x9f, 0xa0, 0xa1, 0xa2, 0xb8, 0xbf, 0xc0, 0xd8, 0x2a, 0xd9, 0xe0, 0xf4, 0xf5, 0xf6, 0xf7, 0xf8,
	0xf9, 0xfa, 0xfb, 0xff, 0x7c, 0x7e, 0xfe}

// widen the head at offset i (if it is an immediate or 1-byte argument head): a non-minimal encoding of the same item
func widen(b []byte, i int) []byte {
	ib := b[i]
	major, ai := ib&0xe0, ib&0x1f
	if major == 0xe0 {
		return nil
	}
	switch {
	case ai < 24:
		return append(append(append([]byte{}, b[:i]...), major|24, ai), b[i+1:]...)
	case ai == 24 && i+1 < len(b):
		return append(append(append([]byte{}, b[:i]...), major|25, 0, b[i+1]), b[i+2:]...)
	}
	return nil
}

func (g *cborGen) input() []byte {
	r := g.rng
	switch r.Intn(10) {
	case 0: // short random string over the alphabet
		n := 1 + r.Intn(10)
		b := make([]byte, n)
		for i := range b {
			b[i] = cgAlphabet[r.Intn(len(cgAlphabet))]
		}
		return b
	case 1, 2: // a canonical encoding as it is
		return g.encoding()
	}
	b := g.encoding()
	if len(b) == 0 {
		return nil
	}
	for k, n := 0, 1+r.Intn(2); k < n && len(b) > 0; k++ {
		i := r.Intn(len(b))
		switch r.Intn(9) {
		case 0:
			b = append([]byte{}, b...)
			b[i] ^= 1 << uint(r.Intn(8))
		case 1:
			b = append(append(append([]byte{}, b[:i]...), cgAlphabet[r.Intn(len(cgAlphabet))]), b[i:]...)
		case 2:
			b = append(append([]byte{}, b[:i]...), b[i+1:]...)
		case 3:
			b = append([]byte{}, b[:i]...)
		case 4:
			b = append(append([]byte{}, b...), cgAlphabet[r.Intn(len(cgAlphabet))])
		case 5:
			if w := widen(b, i); w != nil {
				b = w
			}
		case 6: // a definite array / map head made indefinite, with a break at the very end
			if (b[i]&0xe0 == 0x80 || b[i]&0xe0 == 0xa0) && b[i]&0x1f < 24 {
				b = append(append([]byte{}, b...), 0xff)
				b[i] = b[i]&0xe0 | 0x1f
			}
		case 7: // repeat a slice of the input (entries repeated, lengths now wrong)
			j := i + 1 + r.Intn(4)
			if j <= len(b) {
				b = append(append(append([]byte{}, b[:j]...), b[i:j]...), b[j:]...)
			}
		case 8: // swap two neighbouring 2-byte groups (entry order)
			if i+4 <= len(b) {
				b = append([]byte{}, b...)
				b[i], b[i+1], b[i+2], b[i+3] = b[i+2], b[i+3], b[i], b[i+1]
			}
		}
	}
	return b
}
