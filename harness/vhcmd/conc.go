package vhcmd

import (
	"fmt"
	"os"

	"verifharness/model"
	"verifharness/replay"
	"verifharness/run"
)

func init() {
	register("conc", "run the operation mixes of specs/Concurrency.tla free-running (use the -race build)", func(args []string) int {
		fs := newFlags("conc")
		in := fs.String("in", "-", "case file (TLC output lines)")
		iters := fs.Int("iters", 20, "iterations per goroutine and mix")
		fs.Parse(args)
		col := run.NewCollector("conc")
		w, err := replay.NewConcWorld()
		if w != nil {
			defer w.Close()
		}
		if err != nil {
			fmt.Fprintln(os.Stderr, "conc:", err)
			return 2
		}
		if w.BaselineFinding != nil {
			col.Add(*w.BaselineFinding)
			col.Case("sequential baseline", 1, []byte(`{"baseline":"failed"}`))
			col.Print(os.Stdout)
			return 0
		}
		r := run.Input(*in)
		defer r.Close()
		run.Lines(r, 1, func(idx int, line []byte) {
			var mix replay.ConcMix
			if err := model.DecodeLine(line, &mix); err != nil || len(mix.Mix) == 0 {
				return
			}
			f, n := w.RunMix(&mix, *iters)
			if f != nil {
				f.Case = idx
				f.Input = &mix
				col.Add(*f)
			}
			col.Case(string(line), n, sampleOf(line))
		})
		col.Print(os.Stdout)
		return 0
	})
}
