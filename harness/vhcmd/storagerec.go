package vhcmd

import (
	"bufio"
	"bytes"
	"context"
	"encoding/json"
	"fmt"
	"io"
	"math/rand"
	"os"
	"path/filepath"
	"strings"

	"github.com/ipld/go-ipld-prime/storage"
	"github.com/ipld/go-ipld-prime/storage/fsstore"
	"github.com/ipld/go-ipld-prime/storage/memstore"
	"github.com/ipld/go-ipld-prime/storage/sharding"

	"verifharness/replay"
	"verifharness/run"
)

// storage-record: long random histories on the real stores, written as a trace for StorageTrace.tla.
func init() {
	register("storage-record", "record random histories of the real block stores as an NDJSON trace", func(args []string) int {
		fs := newFlags("storage-record")
		out := fs.String("out", "trace.ndjson", "trace file")
		seed := fs.Int64("seed", 1, "seed")
		ntraces := fs.Int("traces", 40, "number of histories")
		nops := fs.Int("ops", 300, "calls per history")
		nkeys := fs.Int("keys", 12, "distinct keys per history")
		scratch := fs.String("scratch", os.TempDir(), "directory for sandboxes")
		fs.Parse(args)
		rng := rand.New(rand.NewSource(*seed))
		f, err := os.Create(*out)
		if err != nil {
			fmt.Fprintln(os.Stderr, err)
			return 2
		}
		defer f.Close()
		w := bufio.NewWriter(f)
		defer w.Flush()
		col := run.NewCollector("storage-record")
		emit := func(ev map[string]interface{}) {
			b, _ := json.Marshal(ev)
			w.Write(b)
			w.WriteByte('\n')
		}
		ctx := context.Background()
		targets := []string{"memstore", "fsstore[default]", "fsstore[r133,hex]"}
		events := 0
		for t := 0; t < *ntraces; t++ {
			target := targets[t%len(targets)]
			// keys: every adversarial profile plus random binary keys
			var keys []string
			for _, p := range replay.StorageKeyProfiles {
				keys = append(keys, p...)
			}
			for len(keys) < 40 {
				b := make([]byte, 1+rng.Intn(40))
				rng.Read(b)
				keys = append(keys, string(b))
			}
			rng.Shuffle(len(keys), func(i, j int) { keys[i], keys[j] = keys[j], keys[i] })
			var ks []string
			for _, k := range keys {
				if k != "" && len(ks) < *nkeys {
					ks = append(ks, k)
				}
			}
			content := func(k int) []byte {
				return bytes.Repeat([]byte(fmt.Sprintf("<t%d content of key #%d>", t, k)), k%5) // keys 5 and 10 hold the empty block
			}
			var st interface {
				storage.ReadableStorage
				storage.WritableStorage
			}
			var sandbox string
			switch target {
			case "memstore":
				st = &memstore.Store{}
			default:
				sandbox, _ = os.MkdirTemp(*scratch, "strec-")
				base := filepath.Join(sandbox, "base")
				os.Mkdir(base, 0777)
				s := &fsstore.Store{}
				if strings.Contains(target, "r133") {
					err = s.Init(base, func(k string) string { return fmt.Sprintf("%x", k) }, sharding.Shard_r133)
				} else {
					err = s.InitDefaults(base)
				}
				if err != nil {
					fmt.Fprintln(os.Stderr, err)
					return 2
				}
				st = s
			}
			emit(map[string]interface{}{"a": "reset", "k": 0, "via": target, "r": ""})
			for i := 0; i < *nops; i++ {
				k := 1 + rng.Intn(len(ks))
				key := ks[k-1]
				ev := map[string]interface{}{"k": k}
				switch c := rng.Intn(10); {
				case c < 3:
					via := []string{"put", "stream", "vec"}[rng.Intn(3)]
					buf := append([]byte{}, content(k)...)
					var err error
					switch via {
					case "put":
						err = storage.Put(ctx, st, key, buf)
					case "stream":
						wr, commit, e := storage.PutStream(ctx, st)
						if e == nil {
							if _, e = wr.Write(buf); e != nil {
								commit("")
							} else {
								e = commit(key)
							}
						}
						err = e
					case "vec":
						h := len(buf) / 2
						err = storage.PutVec(ctx, st, key, [][]byte{buf[:h], buf[h:]})
					}
					for j := range buf {
						buf[j] = 0xEE // the caller reuses its buffer
					}
					ev["a"], ev["via"] = "put", via
					ev["r"] = "ok"
					if err != nil {
						ev["r"] = "refused"
					}
				case c < 8:
					via := []string{"get", "stream", "peek"}[rng.Intn(3)]
					var b []byte
					var err error
					switch via {
					case "get":
						b, err = storage.Get(ctx, st, key)
					case "stream":
						var rc io.ReadCloser
						rc, err = storage.GetStream(ctx, st, key)
						if err == nil {
							b, err = io.ReadAll(rc)
							rc.Close()
						}
					case "peek":
						var cl io.Closer
						b, cl, err = storage.Peek(ctx, st, key)
						if err == nil {
							b = append([]byte{}, b...)
							if cl != nil {
								cl.Close()
							}
						}
					}
					ev["a"], ev["via"] = "get", via
					switch {
					case err != nil:
						ev["r"] = "notfound"
					case bytes.Equal(b, content(k)):
						ev["r"] = "found"
					default:
						ev["r"] = fmt.Sprintf("found-other-content(%d bytes, %q)", len(b), string(b[:min(len(b), 20)]))
					}
				default:
					has, err := storage.Has(ctx, st, key)
					ev["a"], ev["via"] = "has", ""
					ev["r"] = fmt.Sprint(has)
					if err != nil {
						ev["r"] = "false"
					}
				}
				emit(ev)
				events++
			}
			if sandbox != "" {
				os.RemoveAll(sandbox)
			}
			col.Case(fmt.Sprintf("trace-%d", t), *nops, nil)
		}
		col.SetExtra("events", events)
		col.Print(os.Stdout)
		return 0
	})
}
