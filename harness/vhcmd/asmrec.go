package vhcmd

import (
	"bufio"
	"encoding/json"
	"fmt"
	"math/rand"
	"os"

	"github.com/ipld/go-ipld-prime/datamodel"
	"github.com/ipld/go-ipld-prime/node/basicnode"

	"verifharness/model"
	"verifharness/replay"
	"verifharness/run"
)

// asm-record: long random sessions of LEGAL assembler calls (plus the two pinned rejections) on the real
// builders, written as a trace for AssemblerTrace.tla (B2: code -> specification).  The recorder does not
// predict anything: it performs a call, logs the call with its arguments and the result class the
// implementation returned (and, at Build, the node read back through the public API), and uses the
// observed result only to know which calls are legal next.  TLC decides whether the specification can
// explain every event.
func init() {
	register("asm-record", "record random assembler sessions on the real builders as an NDJSON trace", func(args []string) int {
		fs := newFlags("asm-record")
		out := fs.String("out", "trace.ndjson", "trace file")
		seed := fs.Int64("seed", 1, "seed")
		nsess := fs.Int("sessions", 30, "number of sessions")
		ncalls := fs.Int("calls", 300, "calls per session (approximately)")
		topKind := fs.String("topkind", "any", "what the top-level builder accepts: any | map | list")
		fs.Parse(args)
		rng := rand.New(rand.NewSource(*seed))
		f, err := os.Create(*out)
		if err != nil {
			fmt.Fprintln(os.Stderr, err)
			return 2
		}
		defer f.Close()
		w := bufio.NewWriter(f)
		defer w.Flush()
		col := run.NewCollector("asm-record")
		events := 0
		nilV := model.Value{K: "nil", A: []int{}, Ks: [][]int{}, Vs: []model.Value{}}
		// nodes returned by Build in the current session, with what they read as when they were returned:
		// every event also says whether all of them still read the same (Assembler!FinishedNeverChanges)
		var finished []datamodel.Node
		var finishedVals []model.Value
		stable := func() bool {
			for i, n := range finished {
				v, err := model.Project(n)
				if err != nil || !v.Equal(finishedVals[i]) {
					return false
				}
			}
			return true
		}
		emit := func(a string, key []int, v model.Value, impl, r string, depth int) {
			if key == nil {
				key = []int{}
			}
			b, _ := json.Marshal(map[string]interface{}{"a": a, "key": key, "v": normValue(v), "impl": impl, "r": r, "depth": depth, "stable": stable()})
			w.Write(b)
			w.WriteByte('\n')
			events++
		}
		targets := replay.AsmTargets(*topKind)
		keys := []string{"a", "b", "", "k/1", "\x00", "é", "zz", "10"}
		conc := model.Conc{}
		scalars := []model.GoScalar{
			{Kind: datamodel.Kind_Null}, {Kind: datamodel.Kind_Bool, B: true}, {Kind: datamodel.Kind_Int, I: 0},
			{Kind: datamodel.Kind_Int, I: -1}, {Kind: datamodel.Kind_Int, I: 1 << 40}, {Kind: datamodel.Kind_String, S: ""},
			{Kind: datamodel.Kind_String, S: "x"}, {Kind: datamodel.Kind_Bytes, Bs: []byte{1, 2}}, {Kind: datamodel.Kind_Float, F: 1.5},
		}
		prebuilt := []model.Value{}
		for _, s := range []string{`{"k":"string","a":[120],"ks":[],"vs":[]}`,
			`{"k":"map","a":[],"ks":[],"vs":[]}`,
			`{"k":"map","a":[],"ks":[[97],[98]],"vs":[{"k":"int","a":[0,1],"ks":[],"vs":[]},{"k":"list","a":[],"ks":[],"vs":[]}]}`,
			`{"k":"list","a":[],"ks":[],"vs":[{"k":"int","a":[0,2],"ks":[],"vs":[]},{"k":"null","a":[],"ks":[],"vs":[]}]}`} {
			var v model.Value
			if err := json.Unmarshal([]byte(s), &v); err != nil {
				panic(err)
			}
			prebuilt = append(prebuilt, v)
		}
		impls := []string{"basic", "foreign", "bind"}

		type frame struct {
			ma   datamodel.MapAssembler
			la   datamodel.ListAssembler
			st   string
			keys []string
		}
		for s := 0; s < *nsess; s++ {
			target := targets[s%len(targets)]
			finished, finishedVals = nil, nil
			emit("reset", nil, nilV, target, "", 0)
			nb := replay.AsmProto(target).NewBuilder()
			var cur datamodel.NodeAssembler = nb
			var stack []*frame
			pc := "open"
			calls := 0
			accepts := func(kind string) bool { return pc != "open" || *topKind == "any" || *topKind == kind }
			// perform one call under recover; returns the result class
			do := func(fn func() error) string {
				var err error
				if p := model.Safe(func() { err = fn() }); p != nil {
					return "panic"
				}
				return replay.ErrClass(err)
			}
			delivered := func() { // a value was completed at the current value position
				if len(stack) == 0 {
					pc = "finished"
				} else {
					stack[len(stack)-1].st = "initial"
				}
			}
			valueStep := func() bool { // at a value position: returns false when the session must end
				depth := len(stack)
				choice := rng.Intn(10)
				switch {
				case choice < 4: // scalar
					g := scalars[rng.Intn(len(scalars))]
					if !accepts(model.KindName(g.Kind)) && rng.Intn(12) != 0 {
						return true // mostly avoid the top-level wrong kind; try again
					}
					r := do(func() error { return model.AssignScalar(cur, g) })
					emit("AssignScalar", nil, model.AbstractScalar(g), "", r, depth)
					if r != "ok" {
						return false
					}
					delivered()
				case choice < 5: // a finished node
					v := prebuilt[rng.Intn(len(prebuilt))]
					if !accepts(v.K) && rng.Intn(12) != 0 {
						return true
					}
					impl := impls[rng.Intn(len(impls))]
					n, err := conc.BuildImpl(impl, v)
					if err != nil {
						panic(err)
					}
					r := do(func() error { return cur.AssignNode(n) })
					emit("AssignNode", nil, v, impl, r, depth)
					if r != "ok" {
						return false
					}
					delivered()
				default: // a container
					kind := "map"
					if rng.Intn(2) == 0 {
						kind = "list"
					}
					if depth >= 6 || (!accepts(kind) && rng.Intn(12) != 0) {
						return true
					}
					fr := &frame{st: "initial"}
					var r string
					if kind == "map" {
						r = do(func() (err error) { fr.ma, err = cur.BeginMap(int64(rng.Intn(3) - 1)); return })
						emit("BeginMap", nil, nilV, "", r, depth)
					} else {
						r = do(func() (err error) { fr.la, err = cur.BeginList(int64(rng.Intn(3) - 1)); return })
						emit("BeginList", nil, nilV, "", r, depth)
					}
					if r != "ok" {
						return false
					}
					stack = append(stack, fr)
					pc = "building"
				}
				return true
			}
			pickKey := func(fr *frame) string {
				if len(fr.keys) > 0 && rng.Intn(6) == 0 {
					return fr.keys[rng.Intn(len(fr.keys))] // a repeated key
				}
				return keys[rng.Intn(len(keys))]
			}
			alive := true
			for alive && calls < *ncalls*2 {
				calls++
				switch pc {
				case "open":
					alive = valueStep()
				case "finished":
					var built datamodel.Node
					r := do(func() error { built = nb.Build(); return nil })
					var v model.Value
					if r == "ok" {
						var perr error
						v, perr = model.Project(built)
						if perr != nil {
							r = "unreadable"
						}
					}
					emit("Build", nil, v, "", r, 0)
					if r == "ok" {
						finished, finishedVals = append(finished, built), append(finishedVals, v)
					}
					pc = "built"
					alive = r == "ok"
				case "built":
					if calls >= *ncalls || target == "bindnode.Map{String:Any}" || target == "bindnode.List[Any]" {
						alive = false // bindnode builders do not implement Reset (documented TODO)
						break
					}
					r := do(func() error { nb.Reset(); return nil })
					emit("Reset", nil, nilV, "", r, 0)
					cur, stack, pc = nb, nil, "open"
					alive = r == "ok"
				case "building":
					fr := stack[len(stack)-1]
					depth := len(stack)
					finishBias := len(fr.keys) + 1
					if fr.la != nil {
						finishBias = 2
					}
					switch fr.st {
					case "initial":
						// keep the outermost container open for about half of the session's budget
						holdOpen := len(stack) == 1 && calls < *ncalls/2
						if (!holdOpen && rng.Intn(finishBias+3) >= 3) || calls >= *ncalls {
							r := do(func() error {
								if fr.ma != nil {
									return fr.ma.Finish()
								}
								return fr.la.Finish()
							})
							emit("Finish", nil, nilV, "", r, depth)
							if r != "ok" {
								alive = false
								break
							}
							stack = stack[:len(stack)-1]
							delivered()
							if len(stack) > 0 {
								pc = "building"
							}
							break
						}
						if fr.la != nil {
							r := do(func() error { cur = fr.la.AssembleValue(); return nil })
							emit("ListAssembleValue", nil, nilV, "", r, depth)
							fr.st = "midValue"
							fr.keys = append(fr.keys, "")
							alive = r == "ok"
							break
						}
						if rng.Intn(2) == 0 {
							k := pickKey(fr)
							var va datamodel.NodeAssembler
							r := do(func() (err error) { va, err = fr.ma.AssembleEntry(k); return })
							emit("AssembleEntry", model.Ints([]byte(k)), nilV, "", r, depth)
							if r == "ok" {
								cur, fr.st = va, "midValue"
								fr.keys = append(fr.keys, k)
							} else if r != "repeated_key" {
								alive = false
							}
						} else {
							r := do(func() error { cur = fr.ma.AssembleKey(); return nil })
							emit("AssembleKey", nil, nilV, "", r, depth)
							fr.st = "midKey"
							alive = r == "ok"
						}
					case "midKey":
						k := pickKey(fr)
						a := "KeyAssignString"
						var r string
						if rng.Intn(3) == 0 {
							a = "KeyAssignNode"
							r = do(func() error { return cur.AssignNode(basicnode.NewString(k)) })
						} else {
							r = do(func() error { return cur.AssignString(k) })
						}
						emit(a, model.Ints([]byte(k)), nilV, "", r, depth)
						switch r {
						case "ok":
							fr.st = "expectValue"
							fr.keys = append(fr.keys, k)
						case "repeated_key":
							fr.st = "initial"
						default:
							alive = false
						}
					case "expectValue":
						r := do(func() error { cur = fr.ma.AssembleValue(); return nil })
						emit("AssembleValue", nil, nilV, "", r, depth)
						fr.st = "midValue"
						alive = r == "ok"
					case "midValue":
						alive = valueStep()
					}
				}
			}
			var sample []byte
			if s < 3 {
				sample, _ = json.Marshal(map[string]interface{}{"session": s, "target": target, "calls": calls, "seed": *seed})
			}
			col.Case(fmt.Sprintf("session %d on %s", s, target), calls, sample)
		}
		w.Flush()
		col.AddExtra("events", events)
		col.Print(os.Stdout)
		return 0
	})
}

func normValue(v model.Value) model.Value {
	if v.K == "" {
		v.K = "nil"
	}
	if v.A == nil {
		v.A = []int{}
	}
	if v.Ks == nil {
		v.Ks = [][]int{}
	}
	for i := range v.Ks {
		if v.Ks[i] == nil {
			v.Ks[i] = []int{}
		}
	}
	if v.Vs == nil {
		v.Vs = []model.Value{}
	}
	for i := range v.Vs {
		v.Vs[i] = normValue(v.Vs[i])
	}
	return v
}
