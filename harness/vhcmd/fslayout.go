package vhcmd

import (
	"bytes"
	"context"
	"fmt"
	"io"
	"os"
	"path/filepath"
	"sync/atomic"
	"syscall"

	"github.com/ipld/go-ipld-prime/storage/fsstore"

	"verifharness/run"
)

// fslayout: FsStore!AtomicVisibility / ReaderSeesAbsentOrComplete / AckedIsVisible do not depend on how the base
// directory is laid out.  The layout tried here: the staging directory ('.temp' under the base path) is a symbolic
// link to a directory on ANOTHER filesystem than the shard directories, so that a rename from staging into place is
// impossible (EXDEV).  A store may refuse every put in that layout; what it may not do is let a reader see a block
// that is not complete, or acknowledge a put that is not visible.  Free-running (a reader polls while the writer
// works), so only order-free facts are asserted.
func init() {
	register("fslayout", "fsstore with the staging directory on another filesystem: readers see absent or complete (C18)", func(args []string) int {
		fs := newFlags("fslayout")
		scratch := fs.String("scratch", os.TempDir(), "directory for the sandboxes")
		rounds := fs.Int("rounds", 6, "puts per writer kind")
		size := fs.Int("size", 32<<20, "block size")
		fs.Parse(args)
		col := run.NewCollector("fslayout")
		dev := func(p string) (uint64, bool) {
			var st syscall.Stat_t
			if syscall.Stat(p, &st) != nil {
				return 0, false
			}
			return uint64(st.Dev), true
		}
		base, err := os.MkdirTemp(*scratch, "fslayout-")
		if err != nil {
			fmt.Fprintln(os.Stderr, err)
			return 2
		}
		defer os.RemoveAll(base)
		baseDev, _ := dev(base)
		other := ""
		for _, cand := range []string{"/dev/shm", os.TempDir(), "/run", "/var/tmp"} {
			if d, ok := dev(cand); ok && d != baseDev {
				if t, err := os.MkdirTemp(cand, "verif-fslayout-staging-"); err == nil {
					other = t
					break
				}
			}
		}
		if other == "" {
			// no second filesystem that can be written to: the layout cannot be built here (coverage says so)
			col.AddExtra("no_second_filesystem_available", 1)
			col.Case("no second filesystem", 0, []byte(`{"layout":"staging on another filesystem","skipped":"no second writable filesystem"}`))
			col.Print(os.Stdout)
			return 0
		}
		defer os.RemoveAll(other)
		content := make([]byte, *size)
		for i := range content {
			content[i] = byte(i*13 + i/257)
		}
		caseNo := 0
		for _, via := range []string{"put", "stream"} {
			for r := 0; r < *rounds; r++ {
				caseNo++
				dir := filepath.Join(base, fmt.Sprintf("%s-%d", via, r))
				os.MkdirAll(dir, 0o755)
				if err := os.Symlink(other, filepath.Join(dir, ".temp")); err != nil {
					fmt.Fprintln(os.Stderr, err)
					return 2
				}
				target := "fsstore[staging-on-another-filesystem/" + via + "]"
				desc := fmt.Sprintf("%d-byte block via %s, '.temp' -> %s", len(content), via, other)
				fail := func(rule, class, detail string) {
					col.Add(run.Finding{Case: caseNo, Step: r, Target: target, Rule: rule, Class: class, Detail: desc + ": " + detail})
				}
				st := &fsstore.Store{}
				if err := st.InitDefaults(dir); err != nil {
					// refusing the layout outright is fine
					col.AddExtra("layout_refused_by_init", 1)
					col.Case(desc, 1, nil)
					continue
				}
				key := fmt.Sprintf("layout-key-%d", r)
				bg := context.Background()
				var stop int32
				type seen struct {
					n   int
					how string
				}
				partial := make(chan seen, 1)
				done := make(chan int)
				go func() { // the reader: a new handle on the same directory, polling
					st2 := &fsstore.Store{}
					st2.InitDefaults(dir)
					polls := 0
					for atomic.LoadInt32(&stop) == 0 {
						polls++
						if b, err := st2.Get(bg, key); err == nil && !bytes.Equal(b, content) {
							select {
							case partial <- seen{len(b), "Get"}:
							default:
							}
						}
						if rd, err := st2.GetStream(bg, key); err == nil {
							b, rerr := io.ReadAll(rd)
							if c, ok := rd.(io.Closer); ok {
								c.Close()
							}
							if rerr == nil && !bytes.Equal(b, content) {
								select {
								case partial <- seen{len(b), "GetStream"}:
								default:
								}
							}
						}
					}
					done <- polls
				}()
				var perr error
				var panicked interface{}
				func() {
					defer func() { panicked = recover() }()
					if via == "put" {
						perr = st.Put(bg, key, content)
					} else {
						wr, commit, err := st.PutStream(bg)
						if err != nil {
							perr = err
							return
						}
						if _, err := wr.Write(content[:len(content)/2]); err != nil {
							commit("")
							perr = err
							return
						}
						if _, err := wr.Write(content[len(content)/2:]); err != nil {
							commit("")
							perr = err
							return
						}
						perr = commit(key)
					}
				}()
				atomic.StoreInt32(&stop, 1)
				polls := <-done
				checks := 2
				if panicked != nil {
					fail("NoPanic", "panic", fmt.Sprint(panicked))
				}
				select {
				case s := <-partial:
					fail("ReaderSeesAbsentOrComplete", "partial-visible", fmt.Sprintf("while the put was running %s returned %d of %d bytes (the writer returned %v)", s.how, s.n, len(content), perr))
				default:
				}
				st3 := &fsstore.Store{}
				st3.InitDefaults(dir)
				got, gerr := st3.Get(bg, key)
				switch {
				case gerr == nil && !bytes.Equal(got, content):
					fail("AtomicVisibility", "partial-visible", fmt.Sprintf("after the put returned %v the key holds %d of %d bytes", perr, len(got), len(content)))
				case gerr != nil && perr == nil:
					fail("AckedIsVisible", "acked-but-absent", fmt.Sprintf("the writer returned nil but Get fails: %v", gerr))
				}
				if perr != nil {
					col.AddExtra("puts_refused_in_this_layout", 1)
				} else {
					col.AddExtra("puts_acknowledged_in_this_layout", 1)
				}
				col.AddExtra("reader_polls", polls)
				var sample []byte
				if r == 0 {
					sample = []byte(fmt.Sprintf(`{"layout":%q,"writer_returned":%q,"reader_polls":%d}`, desc, fmt.Sprint(perr), polls))
				}
				col.Case(desc+fmt.Sprint(r), checks, sample)
			}
		}
		col.Print(os.Stdout)
		return 0
	})
}
