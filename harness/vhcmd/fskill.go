package vhcmd

import (
	"bytes"
	"context"
	"fmt"
	"math/rand"
	"os"
	"os/exec"
	"strconv"
	"syscall"

	"github.com/ipld/go-ipld-prime/storage/fsstore"

	"verifharness/run"
)

// fskill: FsStore!Crash with a REAL process death.  The TLC-driven replays simulate a crash inside one process (the
// writer's goroutine never resumes); here the writer is a child process that sends itself SIGKILL immediately before
// the k-th filesystem operation of its put, for every k (the number of operations is discovered by a dry run, so a
// writer that splits its work differently is covered at every one of ITS steps).  Nothing of the child survives but
// the directory.  The parent then opens the directory as a new process would: the key is absent or complete, an
// acknowledged put is visible, and the directory is usable (the same key can be put again and is then complete).
func fskillContent(size int) []byte {
	b := make([]byte, size)
	for i := range b {
		b[i] = byte(i*11 + i/253)
	}
	return b
}

func fskillPut(ctx context.Context, st *fsstore.Store, key string, writes int, content []byte) error {
	if writes == 0 {
		return st.Put(ctx, key, content)
	}
	wr, commit, err := st.PutStream(ctx)
	if err != nil {
		return err
	}
	per := len(content)/writes + 1
	for off := 0; off < len(content) || off == 0; off += per {
		end := off + per
		if end > len(content) {
			end = len(content)
		}
		if _, werr := wr.Write(content[off:end]); werr != nil {
			commit("")
			return werr
		}
		if len(content) == 0 {
			break
		}
	}
	return commit(key)
}

const fskillKey = "killed-writer-key"

func init() {
	register("fskill-child", "(internal) the writer process of fskill", func(args []string) int {
		fs := newFlags("fskill-child")
		dir := fs.String("dir", "", "store directory")
		writes := fs.Int("writes", 0, "0: Put; n: PutStream with n writes")
		size := fs.Int("size", 0, "content size")
		k := fs.Int("k", -1, "die before this filesystem operation")
		fs.Parse(args)
		st := &fsstore.Store{}
		if err := st.InitDefaults(*dir); err != nil {
			fmt.Println("INIT-ERROR", err)
			return 3
		}
		n := 0
		fsstore.VerifHook = func(point, path string) error {
			if n == *k {
				syscall.Kill(os.Getpid(), syscall.SIGKILL)
				select {} // never reached twice: the signal cannot be caught
			}
			n++
			return nil
		}
		if err := fskillPut(context.Background(), st, fskillKey, *writes, fskillContent(*size)); err != nil {
			fmt.Println("PUT-ERROR", err)
			return 4
		}
		fmt.Println("ACK")
		return 0
	})
	register("fskill", "kill a writer PROCESS before each of its filesystem operations, then inspect the directory (C18)", func(args []string) int {
		fs := newFlags("fskill")
		seed := fs.Int64("seed", 1, "seed")
		scratch := fs.String("scratch", os.TempDir(), "directory for the sandboxes")
		thorough := fs.Bool("thorough", false, "every point also for the large contents")
		fs.Parse(args)
		rng := rand.New(rand.NewSource(*seed))
		col := run.NewCollector("fskill")
		self, err := os.Executable()
		if err != nil {
			fmt.Fprintln(os.Stderr, err)
			return 2
		}
		type via struct {
			name   string
			writes int
		}
		vias := []via{{"put", 0}, {"stream1", 1}, {"stream3", 3}}
		sizes := []int{0, 57, 300*1024 + 13}
		caseNo := 0
		for _, v := range vias {
			for _, size := range sizes {
				content := fskillContent(size)
				total := 0
				{
					dir, err := os.MkdirTemp(*scratch, "fskill-")
					if err != nil {
						fmt.Fprintln(os.Stderr, err)
						return 2
					}
					st := &fsstore.Store{}
					st.InitDefaults(dir)
					fsstore.VerifHook = func(point, path string) error { total++; return nil }
					err = fskillPut(context.Background(), st, fskillKey, v.writes, content)
					fsstore.VerifHook = nil
					os.RemoveAll(dir)
					if err != nil {
						col.Add(run.Finding{Case: caseNo, Step: -1, Target: "fsstore[kill-" + v.name + "]", Rule: "healthy-put:ok", Class: "error", Detail: err.Error()})
						continue
					}
				}
				points := map[int]bool{}
				for k := 0; k <= total; k++ {
					if *thorough || total <= 20 || k < 10 || k > total-6 {
						points[k] = true
					}
				}
				for len(points) < 24 && len(points) <= total {
					points[rng.Intn(total+1)] = true
				}
				for k := 0; k <= total; k++ {
					if !points[k] {
						continue
					}
					caseNo++
					target := "fsstore[kill-" + v.name + "]"
					desc := fmt.Sprintf("%d bytes via %s, writer process killed (SIGKILL) before filesystem operation #%d of %d", size, v.name, k, total)
					dir, err := os.MkdirTemp(*scratch, "fskill-")
					if err != nil {
						fmt.Fprintln(os.Stderr, err)
						return 2
					}
					fail := func(rule, class, detail string) {
						col.Add(run.Finding{Case: caseNo, Step: k, Target: target, Rule: rule, Class: class, Detail: desc + ": " + detail})
					}
					cmd := exec.Command(self, "fskill-child", "-dir", dir, "-writes", strconv.Itoa(v.writes), "-size", strconv.Itoa(size), "-k", strconv.Itoa(k))
					out, werr := cmd.Output()
					acked := bytes.Contains(out, []byte("ACK"))
					killed := false
					if ee, ok := werr.(*exec.ExitError); ok {
						if ws, ok := ee.Sys().(syscall.WaitStatus); ok && ws.Signaled() && ws.Signal() == syscall.SIGKILL {
							killed = true
						}
					}
					if !killed && !acked {
						// the child neither died of the signal nor acknowledged: machinery, not a verdict
						fmt.Fprintf(os.Stderr, "fskill: child for %q ended unexpectedly: %v, output %q\n", desc, werr, out)
						os.RemoveAll(dir)
						return 2
					}
					if killed {
						col.AddExtra("children_killed", 1)
					} else {
						col.AddExtra("children_completed", 1)
					}
					checks := 0
					st2 := &fsstore.Store{}
					if err := st2.InitDefaults(dir); err != nil {
						fail("UsableAfterCrash", "init-error", err.Error())
					}
					bg := context.Background()
					has, herr := st2.Has(bg, fskillKey)
					got, gerr := st2.Get(bg, fskillKey)
					checks += 2
					switch {
					case herr != nil:
						fail("UsableAfterCrash", "has-error", herr.Error())
					case has && gerr != nil:
						fail("ReaderSeesAbsentOrComplete", "has-but-unreadable", gerr.Error())
					case has && !bytes.Equal(got, content):
						fail("AtomicVisibility", "partial-visible", fmt.Sprintf("the key holds %d of %d bytes", len(got), len(content)))
					case !has && acked:
						fail("AckedIsVisible", "acked-but-absent", "the writer process reported success but the key is absent")
					}
					// a new process puts the same key again: complete afterwards
					if err := st2.Put(bg, fskillKey, content); err != nil {
						fail("UsableAfterCrash", "re-put-error", err.Error())
					} else if g, err := st2.Get(bg, fskillKey); err != nil || !bytes.Equal(g, content) {
						fail("UsableAfterCrash", "re-put-incomplete", fmt.Sprintf("after putting the key again Get returns %d bytes, err=%v", len(g), err))
					}
					checks += 2
					os.RemoveAll(dir)
					var sample []byte
					if caseNo%29 == 1 {
						sample = []byte(fmt.Sprintf(`{"kill":%q,"killed":%v,"acknowledged":%v,"visible":%v}`, desc, killed, acked, has))
					}
					col.Case(desc, checks, sample)
				}
			}
		}
		col.Print(os.Stdout)
		return 0
	})
}
