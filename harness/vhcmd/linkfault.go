package vhcmd

import (
	"os"

	"verifharness/model"
	"verifharness/replay"
	"verifharness/run"
)

func init() {
	register("linkfault", "instantiate the fault scenarios of specs/Linking.tla and LinkStore.tla on real blocks", func(args []string) int {
		fs := newFlags("linkfault")
		in := fs.String("in", "-", "load scenarios (TLC output of LinkingGen)")
		storeIn := fs.String("store", "", "store scenarios (TLC output of LinkStoreGen)")
		thorough := fs.Bool("thorough", false, "every bit of every offset instead of a seeded sample")
		seed := fs.Int64("seed", 1, "seed")
		fs.Parse(args)
		col := run.NewCollector("linkfault")
		blocks, err := replay.MakeBlocks(!*thorough)
		if err != nil {
			col.Add(run.Finding{Step: -1, Target: "harness", Rule: "make-blocks", Class: "error", Detail: err.Error()})
			col.Print(os.Stdout)
			return 0
		}
		col.SetExtra("blocks", len(blocks))
		// the specification's scenarios, deduplicated by class
		loads := map[string]replay.LoadScenario{}
		r := run.Input(*in)
		run.Lines(r, 1, func(idx int, line []byte) {
			var s replay.LoadScenario
			if err := model.DecodeLine(line, &s); err == nil {
				if prev, ok := loads[s.Key()]; ok && prev.R != s.R {
					col.Add(run.Finding{Case: idx, Step: -1, Target: "harness", Rule: "scenario-class-ambiguous", Class: "error", Detail: s.Key() + ": " + prev.R + " vs " + s.R})
				}
				loads[s.Key()] = s
			}
		})
		r.Close()
		for _, s := range loads {
			for bi, b := range blocks {
				// substitutes: other blocks of the same codec
				var others []replay.Block
				for _, o := range blocks {
					if o.Codec == b.Codec && len(others) < 3 {
						others = append(others, o)
					}
				}
				f, n, nt := replay.ReplayLoadScenario(s, b, others, *thorough, *seed+int64(bi))
				if f != nil {
					f.Input = s
					col.Add(*f)
				}
				for i := 0; i < n; i++ {
					var sample []byte
					if i == 0 {
						sample, _ = jsonMarshal(map[string]interface{}{"scenario_class": s.Key(), "prescribed_result": s.R, "block": b.Name, "block_bytes": len(b.Bytes), "concrete_faults_of_this_class_on_this_block": n})
					}
					key := ""
					if i < nt {
						key = s.Key() + "/" + b.Name + "/" + string(rune('0'+i%10)) + string(rune('0'+(i/10)%10)) + string(rune('0'+(i/100)%10)) + string(rune('0'+i/1000))
					}
					col.Case(key, 1, sample)
				}
			}
		}
		col.SetExtra("load_scenario_classes", len(loads))
		if *storeIn != "" {
			stores := map[string]replay.StoreScenario{}
			r := run.Input(*storeIn)
			run.Lines(r, 1, func(idx int, line []byte) {
				var s replay.StoreScenario
				if err := model.DecodeLine(line, &s); err == nil {
					stores[s.Key()] = s
				}
			})
			r.Close()
			for _, s := range stores {
				for _, b := range blocks {
					f, n, _ := replay.ReplayStoreScenario(s, b)
					if f != nil {
						f.Input = s
						col.Add(*f)
					}
					for i := 0; i < n; i++ {
						col.Case(s.Key()+"/"+b.Name+"/"+string(rune('0'+i%10))+string(rune('0'+i/10)), 1, nil)
					}
				}
			}
			col.SetExtra("store_scenario_classes", len(stores))
		}
		col.Print(os.Stdout)
		return 0
	})
}
