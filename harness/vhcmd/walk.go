package vhcmd

import (
	"os"

	"verifharness/model"
	"verifharness/replay"
	"verifharness/run"
)

func init() {
	register("walk", "replay walks of specs/Traversal.tla against traversal.WalkAdv / WalkMatching / Get", func(args []string) int {
		fs := newFlags("walk")
		in := fs.String("in", "-", "case file (TLC output lines)")
		paths := fs.Bool("paths", false, "C14: resolve every visited path again after the walk")
		controls := fs.Bool("controls", false, "C15: check the relations against the real unrestricted walk")
		workers := fs.Int("workers", 0, "worker goroutines")
		fs.Parse(args)
		col := run.NewCollector("walk")
		r := run.Input(*in)
		defer r.Close()
		run.Lines(r, *workers, func(idx int, line []byte) {
			var cs replay.WalkCase
			if err := model.DecodeLine(line, &cs); err != nil {
				col.Add(run.Finding{Case: idx, Step: -1, Target: "harness", Rule: "decode-case", Class: "error", Detail: err.Error()})
				return
			}
			f, n := replay.ReplayWalk(&cs, replay.WalkOpts{Paths: *paths, Controls: *controls})
			if f != nil {
				f.Case = idx
				f.Input = &cs
				col.Add(*f)
			}
			key := ""
			if len(cs.Visits) > 1 || len(cs.Err) > 0 {
				key = string(line)
			}
			col.Case(key, n, sampleOf(line))
			col.AddExtra("visits", len(cs.Visits))
			col.AddExtra("loads", len(cs.Loads))
		})
		col.AddExtra("visits_of_entries_only_the_reifier_adds", int(replay.ReifierMarkedVisits))
		col.Print(os.Stdout)
		return 0
	})
}
