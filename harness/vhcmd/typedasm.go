package vhcmd

import (
	"os"

	"verifharness/model"
	"verifharness/replay"
	"verifharness/run"
)

func init() {
	register("typedasm", "replay behaviours of specs/TypedAssembler.tla on the typed builders of the reflection binding (bindnode)", func(args []string) int {
		fs := newFlags("typedasm")
		in := fs.String("in", "-", "behaviour file (TLC output lines)")
		secondary := fs.Bool("secondary", false, "also report how the built node answers questions that do not apply to it (C01)")
		fs.Parse(args)
		col := run.NewCollector("typedasm")
		r := run.Input(*in)
		defer r.Close()
		run.Lines(r, 0, func(idx int, line []byte) {
			var cs replay.TypedAsmCase
			if err := model.DecodeLine(line, &cs); err != nil {
				col.Add(run.Finding{Case: idx, Step: -1, Target: "harness", Rule: "decode-case", Class: "error", Detail: err.Error()})
				return
			}
			if !cs.ForEngine(replay.BindnodeEngine) {
				col.AddExtra("other_engines_style_of_refusing_a_repeated_key", 1)
				return
			}
			if cs.Early {
				col.AddExtra("repeated_key_refused_at_the_key", 1)
			}
			fs, n := replay.ReplayTypedAsm(&cs, replay.BindnodeEngine, *secondary)
			for _, f := range fs {
				f.Case = idx
				f.Input = &cs
				col.Add(*f)
			}
			col.Case(string(line), n, sampleOf(line))
			col.AddExtra("pc_"+cs.Pc, 1)
		})
		col.Print(os.Stdout)
		return 0
	})
}
