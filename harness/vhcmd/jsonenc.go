package vhcmd

import (
	"os"

	"verifharness/model"
	"verifharness/replay"
	"verifharness/run"
)

func init() {
	register("jsonenc", "replay values of specs/DagJsonEnc.tla against dagjson.Encode / Decode", func(args []string) int {
		fs := newFlags("jsonenc")
		in := fs.String("in", "-", "case file (TLC output lines)")
		seed := fs.Int64("seed", 1, "seed for sampled insertion orders")
		limit := fs.Int("orders", 120, "cap on insertion orders per value")
		fs.Parse(args)
		col := run.NewCollector("jsonenc")
		r := run.Input(*in)
		defer r.Close()
		run.Lines(r, 0, func(idx int, line []byte) {
			var cs replay.JsonCase
			if err := model.DecodeLine(line, &cs); err != nil {
				col.Add(run.Finding{Case: idx, Step: -1, Target: "harness", Rule: "decode-case", Class: "error", Detail: err.Error()})
				return
			}
			f, n := replay.ReplayJsonEnc(&cs, *seed+int64(idx), *limit)
			if f != nil {
				f.Case = idx
				f.Input = &cs
				col.Add(*f)
			}
			key := ""
			if !cs.Reserved && len(cs.Toks) > 1 {
				key = string(line)
			}
			col.Case(key, n, sampleOf(line))
			if cs.Reserved {
				col.AddExtra("reserved_shapes", 1)
			}
		})
		col.Print(os.Stdout)
		return 0
	})
}
