package vhcmd

import (
	"bufio"
	"encoding/json"
	"fmt"
	"math/rand"
	"os"

	"verifharness/model"
	"verifharness/replay"
	"verifharness/run"
)

// schema-gen: random TYPE SYSTEMS beyond the catalogue of SchemaCat.tla -- every representation strategy nested in the
// others at random (structs map / tuple / stringjoin / listpairs with random renames, optional / nullable fields;
// unions keyed / kinded / stringprefix; enums string / int; typed maps and lists, nullable or not), as JSON records of
// exactly the shape of the type records of Schema.tla.  Types only: TLC reads them (SchemaGen, SMode = "file-*"),
// enumerates their inhabitants and the local mutations of those, and evaluates ReprOf / FromType / FromRepr on them.
func init() {
	register("schema-gen", "random schema types for TLC to evaluate (types only)", func(args []string) int {
		fs := newFlags("schema-gen")
		out := fs.String("out", "types.ndjson", "output file")
		n := fs.Int("n", 60, "number of root types")
		seed := fs.Int64("seed", 1, "seed")
		maxInh := fs.Int("maxinh", 1500, "largest number of inhabitants (as SchemaCat!Inh counts them) a root type may have")
		genOnly := fs.Bool("genonly", false, "only types inside the code generator's feature set (no enum, no listpairs)")
		fs.Parse(args)
		g := &schemaGen{rng: rand.New(rand.NewSource(*seed)), genOnly: *genOnly, prefix: fmt.Sprintf("Z%d", *seed%10)}
		f, err := os.Create(*out)
		if err != nil {
			fmt.Fprintln(os.Stderr, err)
			return 2
		}
		defer f.Close()
		w := bufio.NewWriter(f)
		defer w.Flush()
		col := run.NewCollector("schema-gen")
		for i := 0; i < *n; {
			ty, cnt := g.composite(2 + g.rng.Intn(2))
			if cnt < 2 || cnt > *maxInh {
				continue
			}
			raw, _ := json.Marshal(ty)
			// the library itself must find the type system valid (the harness builds it exactly as it will later)
			if _, _, err := replay.BuildTypeSystem(raw); err != nil {
				col.AddExtra("discarded_invalid", 1)
				continue
			}
			line, _ := json.Marshal(map[string]interface{}{"ty": ty})
			w.Write(line)
			w.WriteByte('\n')
			var sample []byte
			if i < 2 {
				sample = line
			}
			col.Case(string(line), 1, sample)
			i++
		}
		col.Print(os.Stdout)
		return 0
	})
}

type schemaGen struct {
	rng     *rand.Rand
	counter int
	genOnly bool
	prefix  string
}

type tyJ = map[string]interface{}

func sgBytes(s string) []int { return model.Ints([]byte(s)) }

func (g *schemaGen) name() []int {
	g.counter++
	return sgBytes(fmt.Sprintf("%sx%d", g.prefix, g.counter))
}

var (
	sgInt    = tyJ{"k": "int", "n": sgBytes("Int")}
	sgString = tyJ{"k": "string", "n": sgBytes("String")}
	sgBool   = tyJ{"k": "bool", "n": sgBytes("Bool")}
	sgLink   = tyJ{"k": "link", "n": sgBytes("Link")}
)

// reprKind of a generated type: "map", "list", "string", "int", "bool", "link", "kinded"
func sgReprKind(t tyJ) string {
	switch t["k"] {
	case "struct":
		switch t["repr"].(tyJ)["r"] {
		case "map":
			return "map"
		case "tuple", "listpairs":
			return "list"
		}
		return "string"
	case "union":
		switch t["repr"].(tyJ)["r"] {
		case "keyed":
			return "map"
		case "stringprefix":
			return "string"
		}
		return "kinded"
	case "enum":
		return t["repr"].(tyJ)["r"].(string)
	}
	return t["k"].(string)
}

// scalar returns a scalar type and the number of inhabitants SchemaCat!Inh gives it
func (g *schemaGen) scalar() (tyJ, int) {
	switch g.rng.Intn(8) {
	case 0, 1, 2:
		return sgInt, 2
	case 3, 4, 5:
		return sgString, 2
	case 6:
		return sgBool, 1
	}
	return sgLink, 1
}

func (g *schemaGen) enum() (tyJ, int) {
	pool := []string{"Yes", "No", "One", "Zero", "Aa", "Bb"}
	n := 2 + g.rng.Intn(2)
	perm := g.rng.Perm(len(pool))[:n]
	ms := []interface{}{}
	for _, p := range perm {
		ms = append(ms, sgBytes(pool[p]))
	}
	if g.rng.Intn(2) == 0 {
		vals := []interface{}{}
		vp := g.rng.Perm(6)
		for i := 0; i < n; i++ {
			vals = append(vals, sgBytes([]string{"y", "n", "1", "q", "Yes", "zz"}[vp[i]]))
		}
		return tyJ{"k": "enum", "n": g.name(), "ms": ms, "repr": tyJ{"r": "string", "vals": vals}}, n
	}
	vals := []interface{}{}
	vp := g.rng.Perm(5)
	for i := 0; i < n; i++ {
		vals = append(vals, vp[i])
	}
	return tyJ{"k": "enum", "n": g.name(), "ms": ms, "repr": tyJ{"r": "int", "vals": vals}}, n
}

func (g *schemaGen) any(depth int) (tyJ, int) {
	if depth <= 0 || g.rng.Intn(3) == 0 {
		if !g.genOnly && g.rng.Intn(5) == 0 {
			return g.enum()
		}
		return g.scalar()
	}
	return g.composite(depth)
}

func sq(e int) int {
	if e <= 6 {
		return e * e
	}
	return 0
}

func (g *schemaGen) composite(depth int) (tyJ, int) {
	r := g.rng
	switch r.Intn(8) {
	case 0:
		el, c := g.any(depth - 1)
		nul := r.Intn(3) == 0
		e := c
		if nul {
			e++
		}
		return tyJ{"k": "list", "n": g.name(), "el": el, "nul": nul}, 1 + e + sq(e)
	case 1:
		val, c := g.any(depth - 1)
		nul := r.Intn(3) == 0
		e := c
		if nul {
			e++
		}
		return tyJ{"k": "map", "n": g.name(), "val": val, "nul": nul}, 1 + 2*e + sq(e)
	case 2, 3, 4:
		return g.structT(depth)
	default:
		return g.union(depth)
	}
}

func (g *schemaGen) structT(depth int) (tyJ, int) {
	r := g.rng
	pool := []string{"a", "b", "c", "d", "f", "g", "h"}
	nf := 1 + r.Intn(3)
	perm := r.Perm(len(pool))[:nf]
	reprs := []string{"map", "map", "map", "tuple", "stringjoin", "listpairs"}
	repr := reprs[r.Intn(len(reprs))]
	if g.genOnly && repr == "listpairs" {
		repr = "map"
	}
	fs := []interface{}{}
	count := 1
	firstOptional := nf
	if repr == "tuple" {
		// A tuple can only leave out its LAST field(s).  With two optional fields at the end the type-level value
		// "first absent, second present" has no representation at all (a limitation of the strategy, not something the
		// property speaks about): at most the last field is optional.
		if r.Intn(2) == 0 {
			firstOptional = nf - 1 // (a single-field tuple whose only field is optional has the empty list as a value)
		}
	}
	for i, p := range perm {
		var ft tyJ
		var c int
		opt, nul := r.Intn(4) == 0, r.Intn(4) == 0
		switch repr {
		case "stringjoin": // fields must have string representations and are neither optional nor nullable
			ft, c, opt, nul = sgString, 2, false, false
		case "tuple":
			ft, c = g.any(depth - 1)
			opt = i >= firstOptional
		default:
			ft, c = g.any(depth - 1)
		}
		if opt {
			c++
		}
		if nul {
			c++
		}
		if repr == "tuple" && opt {
			// (Inh keeps only values whose absent fields are trailing: fewer than the product; the bound stays valid)
		}
		count *= c
		fs = append(fs, tyJ{"name": sgBytes(pool[p]), "ty": ft, "opt": opt, "nul": nul})
	}
	rj := tyJ{"r": repr, "ren": []interface{}{}, "d": []int{}}
	switch repr {
	case "stringjoin":
		rj["d"] = sgBytes(":")
	case "map":
		if r.Intn(2) == 0 { // renames: an injective assignment of serial names, colliding with OTHER fields' names on purpose
			serialPool := append(append([]string{}, pool...), "x", "zz", "F", "")
			sp := r.Perm(len(serialPool))
			ren := []interface{}{}
			for i := range perm {
				if r.Intn(2) == 0 {
					ren = append(ren, sgBytes(pool[perm[i]]))
				} else {
					ren = append(ren, sgBytes(serialPool[sp[i]]))
				}
			}
			// keep it injective
			seen := map[string]bool{}
			ok := true
			for _, x := range ren {
				k := fmt.Sprint(x)
				if seen[k] {
					ok = false
				}
				seen[k] = true
			}
			if ok {
				rj["ren"] = ren
			}
		}
	}
	return tyJ{"k": "struct", "n": g.name(), "fs": fs, "repr": rj}, count
}

func (g *schemaGen) union(depth int) (tyJ, int) {
	r := g.rng
	kinds := []string{"keyed", "keyed", "kinded", "kinded", "stringprefix"}
	kind := kinds[r.Intn(len(kinds))]
	nm := 2 + r.Intn(2)
	ms := []interface{}{}
	count := 0
	usedKinds := map[string]bool{}
	usedNames := map[string]bool{}
	for tries := 0; len(ms) < nm && tries < 40; tries++ {
		var mt tyJ
		var c int
		switch kind {
		case "stringprefix": // members need string representations
			if r.Intn(2) == 0 {
				mt, c = sgString, 2
			} else {
				mt, c = g.structTJoin()
			}
		default:
			mt, c = g.any(depth - 1)
		}
		nmStr := fmt.Sprint(mt["n"])
		if usedNames[nmStr] {
			continue
		}
		if kind == "kinded" {
			rk := sgReprKind(mt)
			if rk == "kinded" || usedKinds[rk] {
				continue
			}
			usedKinds[rk] = true
		}
		usedNames[nmStr] = true
		ms = append(ms, mt)
		count += c
	}
	if len(ms) < 2 {
		return g.structT(depth)
	}
	rj := tyJ{"r": kind, "disc": []interface{}{}, "d": []int{}}
	if kind != "kinded" {
		pool := []string{"i", "s", "two", "k", "e", "l", "j", "String", "Int", "Bool"} // (also: type names of other members)
		perm := r.Perm(len(pool))
		disc := []interface{}{}
		for i := range ms {
			disc = append(disc, sgBytes(pool[perm[i]]))
		}
		rj["disc"] = disc
		if kind == "stringprefix" {
			rj["d"] = sgBytes(":")
		}
	}
	return tyJ{"k": "union", "n": g.name(), "ms": ms, "repr": rj}, count
}

// a stringjoin struct of one or two string fields
func (g *schemaGen) structTJoin() (tyJ, int) {
	nf := 1 + g.rng.Intn(2)
	fs := []interface{}{}
	count := 1
	for i := 0; i < nf; i++ {
		fs = append(fs, tyJ{"name": sgBytes([]string{"a", "b"}[i]), "ty": sgString, "opt": false, "nul": false})
		count *= 2
	}
	return tyJ{"k": "struct", "n": g.name(), "fs": fs, "repr": tyJ{"r": "stringjoin", "ren": []interface{}{}, "d": sgBytes("-")}}, count
}
