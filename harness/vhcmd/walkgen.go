package vhcmd

import (
	"bufio"
	"encoding/json"
	"fmt"
	"math/rand"
	"os"
	"sort"

	"verifharness/model"
	"verifharness/replay"
	"verifharness/run"
)

// walk-gen: random (graph, selector, controls) cases BEYOND the bounds TLC enumerates -- graphs of up to 4 blocks and
// depth 4, selectors of AST depth up to 5 over every clause kind (also ones that do not compile), one random control.
// The cases carry no expectations: TLC reads them (TraversalGen, Mode = "file"), runs the walk machine of
// Traversal.tla on each and emits what must happen; the ordinary walk replay then compares the real code with that.
func init() {
	register("walk-gen", "random walk cases for TLC to evaluate (inputs only)", func(args []string) int {
		fs := newFlags("walk-gen")
		out := fs.String("out", "cases.ndjson", "output file")
		n := fs.Int("n", 500, "number of cases")
		seed := fs.Int64("seed", 1, "seed")
		fs.Parse(args)
		rng := rand.New(rand.NewSource(*seed))
		f, err := os.Create(*out)
		if err != nil {
			fmt.Fprintln(os.Stderr, err)
			return 2
		}
		defer f.Close()
		w := bufio.NewWriter(f)
		defer w.Flush()
		col := run.NewCollector("walk-gen")
		g := &walkGen{rng: rng}
		for i := 0; i < *n; i++ {
			cs := g.genCase()
			b, _ := json.Marshal(cs)
			w.Write(b)
			w.WriteByte('\n')
			var sample []byte
			if i < 2 {
				sample = b
			}
			col.Case(string(b), 1, sample)
		}
		col.Print(os.Stdout)
		return 0
	})
}

type walkGen struct {
	rng     *rand.Rand
	nblocks int
}

var wgKeys = [][]int{{97}, {98}, {107, 48}, {}, {99}}

func wgScalar(k string, a ...int) model.Value {
	if a == nil {
		a = []int{}
	}
	return model.Value{K: k, A: a, Ks: [][]int{}, Vs: []model.Value{}}
}

// canonical (length-first, then bytewise) order of map keys: linked blocks are stored through dag-cbor
func wgLess(a, b []int) bool {
	if len(a) != len(b) {
		return len(a) < len(b)
	}
	for i := range a {
		if a[i] != b[i] {
			return a[i] < b[i]
		}
	}
	return false
}

func (g *walkGen) value(block, depth int) model.Value {
	r := g.rng
	choice := r.Intn(10)
	if depth <= 0 {
		choice = r.Intn(6)
	}
	switch {
	case choice < 2:
		return wgScalar("int", 0, 1+r.Intn(9))
	case choice < 4:
		return wgScalar("string", [][]int{{115}, {120, 121, 122}, {114, 111, 111, 116}, {}}[r.Intn(4)]...)
	case choice == 4:
		if block < g.nblocks {
			return wgScalar("link", block+1+r.Intn(g.nblocks-block))
		}
		return wgScalar("null")
	case choice == 5:
		return [](model.Value){wgScalar("bytes", 1, 2, 3, 4), wgScalar("bool", 1), wgScalar("null")}[r.Intn(3)]
	case choice < 8:
		n := r.Intn(4)
		perm := r.Perm(len(wgKeys))[:n]
		ks := make([][]int, 0, n)
		for _, p := range perm {
			ks = append(ks, wgKeys[p])
		}
		if block > 1 {
			sort.Slice(ks, func(i, j int) bool { return wgLess(ks[i], ks[j]) })
		}
		m := model.Value{K: "map", A: []int{}, Ks: ks, Vs: []model.Value{}}
		for range ks {
			m.Vs = append(m.Vs, g.value(block, depth-1))
		}
		return m
	default:
		l := model.Value{K: "list", A: []int{}, Ks: [][]int{}, Vs: []model.Value{}}
		for i, n := 0, r.Intn(4); i < n; i++ {
			l.Vs = append(l.Vs, g.value(block, depth-1))
		}
		return l
	}
}

func wgSel(t string, a []int, ks [][]int, ss ...replay.SelAST) replay.SelAST {
	if a == nil {
		a = []int{}
	}
	if ks == nil {
		ks = [][]int{}
	}
	if ss == nil {
		ss = []replay.SelAST{}
	}
	return replay.SelAST{T: t, A: a, Ks: ks, Ss: ss}
}

func (g *walkGen) selector(depth int, underRec bool) replay.SelAST {
	r := g.rng
	choice := r.Intn(13)
	if depth <= 0 {
		choice = r.Intn(3)
	}
	switch {
	case choice == 0:
		return wgSel("match", nil, nil)
	case choice == 1:
		return wgSel("subset", []int{r.Intn(7) - 3, r.Intn(8) - 3}, nil)
	case choice == 2:
		if underRec || r.Intn(12) == 0 { // (a stray edge outside a recursion: must not compile)
			return wgSel("edge", nil, nil)
		}
		return wgSel("match", nil, nil)
	case choice < 5:
		return wgSel("all", nil, nil, g.selector(depth-1, underRec))
	case choice < 7:
		n := 1 + r.Intn(2)
		perm := r.Perm(len(wgKeys))[:n]
		var ks [][]int
		var ss []replay.SelAST
		for _, p := range perm {
			ks = append(ks, wgKeys[p])
			ss = append(ss, g.selector(depth-1, underRec))
		}
		return wgSel("fields", nil, ks, ss...)
	case choice == 7:
		return wgSel("index", []int{r.Intn(3)}, nil, g.selector(depth-1, underRec))
	case choice == 8:
		a := r.Intn(3)
		b := a + 1 + r.Intn(3)
		if r.Intn(10) == 0 {
			b = a // an empty range must not compile
		}
		return wgSel("range", []int{a, b}, nil, g.selector(depth-1, underRec))
	case choice < 11:
		n := 2 + r.Intn(2)
		var ss []replay.SelAST
		for i := 0; i < n; i++ {
			ss = append(ss, g.selector(depth-1, underRec))
		}
		return wgSel("union", nil, nil, ss...)
	case choice == 11:
		if underRec && r.Intn(2) == 0 {
			return wgSel("all", nil, nil, wgSel("edge", nil, nil))
		}
		limit := []int{1, 2, 3, -1}[r.Intn(4)]
		stop := -1
		if g.nblocks >= 2 && r.Intn(3) == 0 {
			stop = 2 + r.Intn(g.nblocks-1)
		}
		return wgSel("rec", []int{limit, stop}, nil, g.selector(depth-1, true))
	default:
		return wgSel("as", nil, nil, g.selector(depth-1, underRec))
	}
}

// a random path into the graph (links followed), for start-at
func (g *walkGen) path(blocks []model.Value) [][]int {
	n := blocks[0]
	var p [][]int
	for d := 0; d < 3; d++ {
		if n.K == "link" {
			n = blocks[n.A[0]-1]
		}
		switch {
		case n.K == "map" && len(n.Ks) > 0:
			i := g.rng.Intn(len(n.Ks))
			p = append(p, n.Ks[i])
			n = n.Vs[i]
		case n.K == "list" && len(n.Vs) > 0:
			i := g.rng.Intn(len(n.Vs))
			p = append(p, []int{48 + i})
			n = n.Vs[i]
		default:
			return p
		}
		if g.rng.Intn(3) == 0 {
			break
		}
	}
	return p
}

func (g *walkGen) genCase() replay.WalkCase {
	r := g.rng
	g.nblocks = 1 + r.Intn(4)
	blocks := make([]model.Value, g.nblocks)
	for b := g.nblocks; b >= 1; b-- {
		v := g.value(b, 3)
		for v.K == "link" || (v.K != "map" && v.K != "list" && r.Intn(4) != 0) { // mostly containers at the top of a block, never a bare link
			v = g.value(b, 3)
		}
		// blocks are content-addressed: two equal blocks ARE one block (one link), which the block ids of the
		// specification cannot express -- draw again
		for dup := true; dup; {
			dup = false
			for c := b + 1; c <= g.nblocks; c++ {
				if blocks[c-1].Equal(v) {
					dup = true
				}
			}
			if dup {
				v = g.value(b, 3)
				for v.K == "link" {
					v = g.value(b, 3)
				}
			}
		}
		blocks[b-1] = v
	}
	cfg := replay.WalkCfg{Nb: -1, Lb: -1, Start: [][]int{}, Skip: make([]bool, g.nblocks)}
	switch r.Intn(10) {
	case 0:
		cfg.Nb = r.Intn(13)
	case 1:
		cfg.Lb = r.Intn(4)
	case 2:
		if p := g.path(blocks); len(p) > 0 {
			cfg.Start = p
		}
	case 3:
		cfg.Once = true
	case 4:
		if g.nblocks >= 2 {
			cfg.Skip[1+r.Intn(g.nblocks-1)] = true
		}
	}
	sel := g.selector(2+r.Intn(4), false)
	// most of the time make sure the walk gets somewhere: explore everything around the random selector
	switch r.Intn(4) {
	case 0:
		sel = wgSel("union", nil, nil, sel, wgSel("all", nil, nil, wgSel("all", nil, nil, wgSel("match", nil, nil))))
	case 1:
		sel = wgSel("rec", []int{[]int{2, 3, -1}[r.Intn(3)], -1}, nil, wgSel("union", nil, nil, sel, wgSel("all", nil, nil, wgSel("edge", nil, nil))))
	case 2:
		sel = wgSel("all", nil, nil, sel)
	}
	return replay.WalkCase{G: blocks, Sel: sel, Cfg: cfg, Visits: []replay.WalkVisit{}, Loads: []int{}, Err: []interface{}{}}
}
