package vhcmd

import (
	"os"

	"verifharness/model"
	"verifharness/replay"
	"verifharness/run"
)

func init() {
	register("linkops", "replay histories of specs/LinkOps.tla on a real link system", func(args []string) int {
		fs := newFlags("linkops")
		in := fs.String("in", "-", "case file (TLC output lines)")
		seed := fs.Int("seed", 1, "rotates the (prototype, value) profiles")
		nprof := fs.Int("profiles", 2, "profiles per history")
		scratch := fs.String("scratch", os.TempDir(), "directory for fsstore sandboxes")
		workers := fs.Int("workers", 0, "worker goroutines")
		fs.Parse(args)
		col := run.NewCollector("linkops")
		r := run.Input(*in)
		defer r.Close()
		backends := []string{"memstore", "cidlink.Memory", "memstore", "fsstore", "memstore", "cidlink.Memory", "memstore", "memstore"}
		run.Lines(r, *workers, func(idx int, line []byte) {
			var cs replay.LoCase
			if err := model.DecodeLine(line, &cs); err != nil {
				col.Add(run.Finding{Case: idx, Step: -1, Target: "harness", Rule: "decode-case", Class: "error", Detail: err.Error()})
				return
			}
			checks := 0
			for k := 0; k < *nprof; k++ {
				profile := (idx + *seed + k*5) % replay.NLinkProfiles
				backend := backends[(idx/3+k)%len(backends)]
				if cs.Profile != nil {
					profile, backend = *cs.Profile, cs.Backend
				}
				f, n := replay.ReplayLinkOps(&cs, profile, backend, *scratch)
				checks += n
				if f != nil {
					f.Case = idx
					cs.Profile, cs.Backend = &profile, backend
					f.Input = &cs
					col.Add(*f)
					break
				}
			}
			col.Case(string(line), checks, sampleOf(line))
		})
		col.Print(os.Stdout)
		return 0
	})
}
