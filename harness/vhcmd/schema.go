package vhcmd

import (
	"os"

	"verifharness/model"
	"verifharness/replay"
	"verifharness/run"
)

func init() {
	register("schema", "replay cases of specs/SchemaGen.tla on the reflection binding (bindnode)", func(args []string) int {
		fs := newFlags("schema")
		in := fs.String("in", "-", "case file (TLC output lines)")
		roundTrip := fs.Bool("roundtrip", false, "also encode/decode/re-encode accepted values (C08)")
		dsl := fs.Bool("dsl", false, "build the type system from rendered IPLD Schema DSL text (schema/dsl, schema/dmt, Compile) instead of schema.Spawn*")
		fs.Parse(args)
		eng := replay.BindnodeEngine
		if *dsl {
			eng = replay.BindnodeDSLEngine
		}
		col := run.NewCollector("schema")
		r := run.Input(*in)
		defer r.Close()
		run.Lines(r, 0, func(idx int, line []byte) {
			var cs replay.SchemaCase
			if err := model.DecodeLine(line, &cs); err != nil {
				col.Add(run.Finding{Case: idx, Step: -1, Target: "harness", Rule: "decode-case", Class: "error", Detail: err.Error()})
				return
			}
			fs, n := replay.ReplaySchemaCase(&cs, eng, *roundTrip)
			for _, f := range fs {
				f.Case = idx
				f.Input = &cs
				col.Add(*f)
			}
			col.Case(string(line), n, sampleOf(line))
			if cs.Ok {
				col.AddExtra("spec_accepts", 1)
			} else {
				col.AddExtra("spec_rejects", 1)
			}
		})
		col.Print(os.Stdout)
		return 0
	})
}
