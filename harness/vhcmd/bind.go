package vhcmd

import (
	"bytes"
	"encoding/json"
	"os"
	"os/exec"

	"verifharness/model"
	"verifharness/replay"
	"verifharness/run"
)

func init() {
	register("bindval", "C19 faithfulness: Wrap / build+Unwrap / Marshal+Unmarshal on the Go type library for SchemaGen inhabitants", func(args []string) int {
		fs := newFlags("bindval")
		in := fs.String("in", "-", "case file (TLC output lines of SchemaGen, conforming mode)")
		fs.Parse(args)
		col := run.NewCollector("bindval")
		r := run.Input(*in)
		defer r.Close()
		run.Lines(r, 0, func(idx int, line []byte) {
			var cs replay.SchemaCase
			if err := model.DecodeLine(line, &cs); err != nil {
				return
			}
			f, n, skipped := replay.ReplayBindValue(&cs)
			if skipped {
				col.AddExtra("types_without_go_binding_in_library", 1)
				return
			}
			if f != nil {
				f.Case = idx
				f.Input = &cs
				col.Add(*f)
			}
			col.Case(string(line), n, sampleOf(line))
		})
		col.Print(os.Stdout)
		return 0
	})
	register("bindone", "run ONE bind history (stdin) in this fresh process", func(args []string) int {
		var h replay.BindHist
		if err := json.NewDecoder(os.Stdin).Decode(&h); err != nil {
			return 2
		}
		f := replay.RunBindHistory(&h)
		json.NewEncoder(os.Stdout).Encode(map[string]interface{}{"finding": f})
		return 0
	})
	register("bindhist", "C19 purity: each history of specs/Bind.tla in a fresh process", func(args []string) int {
		fs := newFlags("bindhist")
		in := fs.String("in", "-", "case file (TLC output lines)")
		every := fs.Int("every", 1, "replay every n-th history")
		fs.Parse(args)
		col := run.NewCollector("bindhist")
		r := run.Input(*in)
		defer r.Close()
		self, _ := os.Executable()
		run.Lines(r, 0, func(idx int, line []byte) {
			if idx%*every != 0 {
				return
			}
			var h replay.BindHist
			if err := model.DecodeLine(line, &h); err != nil {
				return
			}
			b, _ := json.Marshal(&h)
			cmd := exec.Command(self, "bindone")
			cmd.Stdin = bytes.NewReader(b)
			var out, errb bytes.Buffer
			cmd.Stdout, cmd.Stderr = &out, &errb
			err := cmd.Run()
			var res struct {
				Finding *run.Finding `json:"finding"`
			}
			if err != nil || json.Unmarshal(out.Bytes(), &res) != nil {
				tail := errb.String()
				if len(tail) > 600 {
					tail = tail[:600]
				}
				col.Add(run.Finding{Case: idx, Step: -1, Target: "bindnode", Rule: "AlwaysSucceeds/SameResult", Class: "process-died", Detail: tail, Input: &h})
			} else if res.Finding != nil {
				res.Finding.Case = idx
				res.Finding.Input = &h
				col.Add(*res.Finding)
			}
			col.Case(string(line), len(h.Steps), sampleOf(line))
		})
		col.Print(os.Stdout)
		return 0
	})
}
