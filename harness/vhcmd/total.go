package vhcmd

import (
	"fmt"
	"os"

	"verifharness/model"
	"verifharness/replay"
	"verifharness/run"
)

func init() {
	register("total", "C10: totality and resource bounds of the parsers of untrusted data", func(args []string) int {
		fs := newFlags("total")
		mode := fs.String("mode", "cbor", "cbor | other | selectors")
		in := fs.String("in", "", "case file (TLC output lines): DagCborDec inputs or SelectorDmt cases")
		seed := fs.Int64("seed", 1, "seed")
		every := fs.Int("cfgevery", 7, "cbor: try every n-th configuration of the matrix per input (rotating)")
		fs.Parse(args)
		col := run.NewCollector("total/" + *mode)
		switch *mode {
		case "cbor":
			cfgs := replay.CborCfgMatrix()
			col.SetExtra("configurations", len(cfgs))
			n := 0
			try := func(inp []byte, hostile bool) {
				for ci, cfg := range cfgs {
					if !hostile && (ci+n)%*every != 0 {
						continue
					}
					if f := replay.CheckCborTotal(inp, cfg, hostile); f != nil {
						f.Input = map[string]interface{}{"inp": model.Ints(inp), "verdict": map[string]interface{}{"acc": false, "why": "", "v": model.Value{K: "nil"}, "tol": []string{}}}
						col.Add(*f)
					}
					var sample []byte
					if hostile && ci == 0 {
						sample, _ = jsonMarshal(map[string]interface{}{"input_hex": fmt.Sprintf("%x", inp), "configuration": cfg.String()})
					}
					col.Case(fmt.Sprintf("%x/%d", inp, ci), 1, sample)
				}
				n++
			}
			for _, h := range replay.HostileCbor() {
				try(h, true)
			}
			if *in != "" {
				r := run.Input(*in)
				run.Lines(r, 1, func(idx int, line []byte) {
					var cs replay.DecCase
					if model.DecodeLine(line, &cs) == nil {
						try(model.Bytes(cs.Inp), false)
					}
				})
				r.Close()
			}
		case "other":
			replay.CheckOtherDecoders(*seed, col)
		case "selectors":
			r := run.Input(*in)
			run.Lines(r, 4, func(idx int, line []byte) {
				var cs replay.SelDmtCase
				if err := model.DecodeLine(line, &cs); err != nil {
					return
				}
				if f := replay.CheckSelectorDmt(&cs); f != nil {
					f.Case = idx
					f.Input = &cs
					col.Add(*f)
				}
				col.Case(string(line), 1, sampleOf(line))
			})
			r.Close()
		}
		col.Print(os.Stdout)
		return 0
	})
}
