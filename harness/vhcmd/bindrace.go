package vhcmd

import (
	"encoding/json"
	"fmt"
	"os"
	"sync"

	"github.com/ipld/go-ipld-prime/datamodel"
	"github.com/ipld/go-ipld-prime/node/bindnode"
	"github.com/ipld/go-ipld-prime/schema"

	"verifharness/model"
	"verifharness/replay"
	"verifharness/run"
)

// bindrace: Bind!InferredBind / Concurrency "proto-inferred" for a Go type NOBODY has bound before.  The histories of
// Bind.tla run in one goroutine and the mixes of Concurrency.tla warm every operation up in the sequential reference run,
// so neither ever performs the FIRST inferred bind of a type from several goroutines at once.  Here each of 240 fresh
// named types (every third one nesting the previous one) is bound with an inferred schema by G goroutines released
// together; a goroutine alternately binds the outer type first or the nested one first.  Every call must succeed and all
// must give equivalent results (the schema type's name and fields, and a node built through the prototype).  Meant to be
// run under the race detector.
func init() {
	register("bindrace", "first inferred bind of fresh Go types from several goroutines at once (C19, C20)", func(args []string) int {
		fs := newFlags("bindrace")
		g := fs.Int("g", 4, "goroutines per type")
		fs.Parse(args)
		col := run.NewCollector("bindrace")
		describe := func(p schema.TypedPrototype) (string, error) {
			t := p.Type()
			s := t.Name() + ":" + t.TypeKind().String()
			if st, ok := t.(*schema.TypeStruct); ok {
				for _, f := range st.Fields() {
					s += " " + f.Name() + "=" + f.Type().Name()
				}
			}
			nb := p.NewBuilder()
			ma, err := nb.BeginMap(3)
			if err != nil {
				return s, err
			}
			va, err := ma.AssembleEntry("A")
			if err != nil {
				return s, err
			}
			va.AssignInt(7)
			va, err = ma.AssembleEntry("B")
			if err != nil {
				return s, err
			}
			va.AssignString("x")
			if st, ok := t.(*schema.TypeStruct); ok && len(st.Fields()) == 3 {
				va, err = ma.AssembleEntry("In")
				if err != nil {
					return s, err
				}
				ia, err := va.BeginMap(2)
				if err != nil {
					return s, err
				}
				x, _ := ia.AssembleEntry("A")
				x.AssignInt(1)
				x, _ = ia.AssembleEntry("B")
				x.AssignString("y")
				if err := ia.Finish(); err != nil {
					return s, err
				}
			}
			if err := ma.Finish(); err != nil {
				return s, err
			}
			v, err := model.Project(nb.Build().(datamodel.Node))
			return s + " " + v.String(), err
		}
		for i := 0; i+2 < 240; i += 3 {
			// the group: a plain type bound alone, then a plain type and the type that nests it bound together
			for _, pair := range [][]int{{i}, {i + 1, i + 2}} {
				start := make(chan struct{})
				var wg sync.WaitGroup
				results := make([][]string, *g)
				for w := 0; w < *g; w++ {
					wg.Add(1)
					go func(w int) {
						defer wg.Done()
						<-start
						order := pair
						if w%2 == 1 && len(pair) == 2 {
							order = []int{pair[1], pair[0]}
						}
						for _, ti := range order {
							var s string
							var err error
							if p := model.Safe(func() { s, err = describe(bindnode.Prototype(replay.FreshTypes[ti], nil)) }); p != nil {
								s = fmt.Sprintf("PANIC: %v", p)
							} else if err != nil {
								s = fmt.Sprintf("ERROR: %v (%s)", err, s)
							}
							results[w] = append(results[w], fmt.Sprintf("%d:%s", ti, s))
						}
					}(w)
				}
				close(start)
				wg.Wait()
				// every goroutine, for every type: the same answer
				byType := map[string]string{}
				checks := 0
				for w := range results {
					for _, r := range results[w] {
						var ti int
						var rest string
						fmt.Sscanf(r, "%d:", &ti)
						rest = r[len(fmt.Sprint(ti))+1:]
						key := fmt.Sprint(ti)
						checks++
						class := ""
						switch {
						case len(rest) >= 6 && rest[:6] == "PANIC:":
							class = "panic"
						case len(rest) >= 6 && rest[:6] == "ERROR:":
							class = "error"
						case byType[key] != "" && byType[key] != rest:
							class = "different-result"
						}
						if class != "" {
							col.Add(run.Finding{Case: i, Step: w, Target: "bindnode.Prototype[first inferred bind, concurrent]", Rule: "AlwaysSucceeds/SameResult", Class: class,
								Detail: fmt.Sprintf("Go type #%d bound for the first time by %d goroutines at once: goroutine %d got %s; another got %s", ti, *g, w, rest, byType[key])})
						}
						if byType[key] == "" {
							byType[key] = rest
						}
					}
				}
				var sample []byte
				if i == 0 {
					sample, _ = json.Marshal(map[string]interface{}{"types_bound_for_the_first_time": pair, "goroutines": *g, "goroutine_0_got": results[0]})
				}
				col.Case(fmt.Sprint(pair), checks, sample)
			}
		}
		col.Print(os.Stdout)
		return 0
	})
}
