package vhcmd

import (
	"encoding/json"
	"fmt"
	"github.com/ipld/go-ipld-prime/schema"
	"os"
	"path/filepath"

	gengo "github.com/ipld/go-ipld-prime/schema/gen/go"

	"verifharness/model"
	"verifharness/replay"
	"verifharness/run"
)

// gengo: run the code generator OF THE WORKING TREE on the type systems found in a case file
// (restricted to the generator's feature set) and write the package plus a registry file.
func init() {
	register("gengo", "generate Go code for the types of a SchemaGen case file (C13)", func(args []string) int {
		fs := newFlags("gengo")
		in := fs.String("in", "-", "case file (TLC output lines)")
		out := fs.String("out", "", "output directory of the generated package")
		memlayout := fs.String("memlayout", "", "non-default memory layout for EVERY union type: \"interface\" (default: the generator's own default, embedAll)")
		fs.Parse(args)
		col := run.NewCollector("gengo")
		var roots []json.RawMessage
		seen := map[string]bool{}
		r := run.Input(*in)
		run.Lines(r, 1, func(idx int, line []byte) {
			var cs struct {
				Ty json.RawMessage `json:"ty"`
			}
			if model.DecodeLine(line, &cs) == nil && !seen[string(cs.Ty)] {
				seen[string(cs.Ty)] = true
				roots = append(roots, cs.Ty)
			}
		})
		r.Close()
		ts, names, skipped, err := replay.BuildCombinedTypeSystem(roots)
		if err != nil {
			fmt.Fprintln(os.Stderr, "gengo:", err)
			return 2
		}
		os.MkdirAll(*out, 0777)
		var genErr interface{}
		func() {
			defer func() { genErr = recover() }()
			adj := &gengo.AdjunctCfg{}
			if *memlayout != "" {
				adj.CfgUnionMemlayout = map[schema.TypeName]string{}
				for name, t := range ts.GetTypes() {
					if t.TypeKind() == schema.TypeKind_Union {
						adj.CfgUnionMemlayout[name] = *memlayout
					}
				}
				col.SetExtra("union_memlayout", *memlayout)
			}
			gengo.Generate(*out, "gen", *ts, adj)
		}()
		if genErr != nil {
			col.Add(run.Finding{Step: -1, Target: "gengo.Generate", Rule: "generates", Class: "panic", Detail: fmt.Sprint(genErr)})
		}
		reg := "package gen\n\nimport \"github.com/ipld/go-ipld-prime/datamodel\"\n\n// Protos maps a type name to its type-level and representation-level prototypes.\nvar Protos = map[string][2]datamodel.NodePrototype{\n"
		for _, n := range names {
			reg += fmt.Sprintf("\t%q: {Type.%s, Type.%s__Repr},\n", n, n, n)
		}
		reg += "}\n"
		os.WriteFile(filepath.Join(*out, "registry.go"), []byte(reg), 0666)
		col.SetExtra("generated_types", names)
		col.SetExtra("outside_generator_feature_set", skipped)
		col.Case("generate", len(names), nil)
		col.Print(os.Stdout)
		return 0
	})
}
