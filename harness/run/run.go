// Package run is the shared plumbing of the replayers: read case lines, fan them
// out to workers, aggregate disagreements by (rule, class), print one JSON report.
package run

import (
	"bufio"
	"encoding/json"
	"fmt"
	"io"
	"os"
	"regexp"
	"runtime"
	"sort"
	"strings"
	"sync"
)

// Finding is one disagreement between specification and implementation.
type Finding struct {
	Case   int         `json:"case"`             // index of the case (line number, 0-based)
	Step   int         `json:"step"`             // index of the step inside the case, -1 if n/a
	Target string      `json:"target"`           // implementation + operation (call site)
	Rule   string      `json:"rule"`             // the specification's label for the rule disobeyed
	Class  string      `json:"class"`            // the observed outcome class
	Detail string      `json:"detail,omitempty"` // human readable
	Input  interface{} `json:"input,omitempty"`  // minimal witness (the case itself)
}

func (f Finding) Key() string { return f.Target + " | " + f.Rule + " | " + f.Class }

// Report is what a replayer prints (one JSON object on the last line of stdout).
type Report struct {
	Family     string                 `json:"family"`
	Cases      int                    `json:"cases"`
	Nontrivial int                    `json:"nontrivial"`
	Checks     int64                  `json:"checks"` // individual comparisons made
	Groups     map[string]*Group      `json:"groups"` // findings grouped by Key()
	Samples    []json.RawMessage      `json:"samples"`
	Extra      map[string]interface{} `json:"extra,omitempty"`
}

type Group struct {
	Count int       `json:"count"`
	First []Finding `json:"first"` // up to 3 witnesses, smallest case index first
}

// Known is one entry of /verif/known_findings.json.
type Known struct {
	ID         string `json:"id"`
	Property   string `json:"property"`
	Target     string `json:"target"`
	Rule       string `json:"rule"`
	RulePrefix string `json:"rule_prefix"`
	Class      string `json:"class"`
	Witness    string `json:"witness"` // optional regexp that must match the finding's detail
	re         *regexp.Regexp
}

func (k *Known) Matches(f *Finding) bool {
	if k.Target != f.Target || k.Class != f.Class {
		return false
	}
	if k.Rule != "*" && k.Rule != f.Rule && !(k.RulePrefix != "" && strings.HasPrefix(f.Rule, k.RulePrefix)) {
		return false
	}
	if k.re != nil && !k.re.MatchString(f.Detail) {
		return false
	}
	return true
}

// Collector aggregates findings from concurrent workers.
type Collector struct {
	mu       sync.Mutex
	rep      Report
	distinct map[string]struct{}
	known    []*Known
}

// NewCollector creates a collector; the committed known findings of the property under check
// (env VERIF_KNOWN = file, VERIF_PID = property) are loaded so that every single finding is
// classified individually as listed or not.
func NewCollector(family string) *Collector {
	c := &Collector{rep: Report{Family: family, Groups: map[string]*Group{}, Extra: map[string]interface{}{}}, distinct: map[string]struct{}{}}
	if path := os.Getenv("VERIF_KNOWN"); path != "" {
		var file struct {
			Findings []*Known `json:"findings"`
		}
		if b, err := os.ReadFile(path); err == nil && json.Unmarshal(b, &file) == nil {
			for _, k := range file.Findings {
				if k.Property != os.Getenv("VERIF_PID") {
					continue
				}
				if k.Witness != "" {
					k.re = regexp.MustCompile(k.Witness)
				}
				c.known = append(c.known, k)
			}
		}
	}
	return c
}

func (c *Collector) Add(f Finding) {
	c.mu.Lock()
	defer c.mu.Unlock()
	key := f.Key()
	for _, k := range c.known {
		if k.Matches(&f) {
			key = "KNOWN:" + k.ID
			break
		}
	}
	g := c.rep.Groups[key]
	if g == nil {
		g = &Group{}
		c.rep.Groups[key] = g
	}
	g.Count++
	g.First = append(g.First, f)
	sort.Slice(g.First, func(i, j int) bool { return g.First[i].Case < g.First[j].Case })
	if len(g.First) > 3 {
		g.First = g.First[:3]
	}
}

// Case accounts for one processed case; key identifies it for the distinct count
// (empty key = trivial case, counted in Cases only).
func (c *Collector) Case(nontrivialKey string, checks int, sample []byte) {
	c.mu.Lock()
	defer c.mu.Unlock()
	c.rep.Cases++
	c.rep.Checks += int64(checks)
	if nontrivialKey != "" {
		if _, ok := c.distinct[nontrivialKey]; !ok {
			c.distinct[nontrivialKey] = struct{}{}
			c.rep.Nontrivial++
		}
	}
	if sample != nil && len(c.rep.Samples) < 3 && len(sample) < 4000 {
		c.rep.Samples = append(c.rep.Samples, json.RawMessage(append([]byte{}, sample...)))
	}
}

func (c *Collector) SetExtra(k string, v interface{}) {
	c.mu.Lock()
	defer c.mu.Unlock()
	c.rep.Extra[k] = v
}

func (c *Collector) AddExtra(k string, n int) {
	c.mu.Lock()
	defer c.mu.Unlock()
	cur, _ := c.rep.Extra[k].(int)
	c.rep.Extra[k] = cur + n
}

func (c *Collector) Print(w io.Writer) {
	c.mu.Lock()
	defer c.mu.Unlock()
	b, _ := json.Marshal(c.rep)
	fmt.Fprintf(w, "REPORT %s\n", b)
}

// Lines feeds every non-empty line of r (with its index) to fn on a pool of workers.
func Lines(r io.Reader, workers int, fn func(idx int, line []byte)) error {
	if workers <= 0 {
		workers = runtime.NumCPU()
	}
	type item struct {
		idx  int
		line []byte
	}
	ch := make(chan item, 256)
	var wg sync.WaitGroup
	for i := 0; i < workers; i++ {
		wg.Add(1)
		go func() {
			defer wg.Done()
			for it := range ch {
				fn(it.idx, it.line)
			}
		}()
	}
	br := bufio.NewReaderSize(r, 1<<20)
	idx := 0
	for {
		line, err := br.ReadBytes('\n')
		if len(line) > 1 {
			ch <- item{idx, line}
			idx++
		}
		if err != nil {
			break
		}
	}
	close(ch)
	wg.Wait()
	return nil
}

// Input opens the file named by path, or stdin for "-" / "".
func Input(path string) io.ReadCloser {
	if path == "" || path == "-" {
		return os.Stdin
	}
	f, err := os.Open(path)
	if err != nil {
		fmt.Fprintln(os.Stderr, "harness:", err)
		os.Exit(2)
	}
	return f
}
