// Package model holds the Go side of the abstract values of specs/DataModel.tla:
// JSON decoding of what TLC prints, the concretisation tables that turn symbols
// into real Go values, builders that realise an abstract value in each node
// implementation, and the projection / observation functions that read a real
// node back through the public node API only.
package model

import (
	"bytes"
	"encoding/json"
	"fmt"
	"strings"
)

// Value mirrors the uniform record shape [k, a, ks, vs] of DataModel.tla.
type Value struct {
	K  string  `json:"k"`
	A  []int   `json:"a"`
	Ks [][]int `json:"ks"`
	Vs []Value `json:"vs"`
}

func (v Value) IsNil() bool { return v.K == "nil" || v.K == "" }

func (v Value) String() string {
	var sb strings.Builder
	v.write(&sb)
	return sb.String()
}

func (v Value) write(sb *strings.Builder) {
	switch v.K {
	case "map":
		sb.WriteString("{")
		for i := range v.Vs {
			if i > 0 {
				sb.WriteString(",")
			}
			fmt.Fprintf(sb, "%v:", v.Ks[i])
			v.Vs[i].write(sb)
		}
		sb.WriteString("}")
	case "list":
		sb.WriteString("[")
		for i := range v.Vs {
			if i > 0 {
				sb.WriteString(",")
			}
			v.Vs[i].write(sb)
		}
		sb.WriteString("]")
	default:
		fmt.Fprintf(sb, "%s%v", v.K, v.A)
	}
}

func intsEq(a, b []int) bool {
	if len(a) != len(b) {
		return false
	}
	for i := range a {
		if a[i] != b[i] {
			return false
		}
	}
	return true
}

// Equal is DataModel!Eq: order-sensitive structural equality.
func (v Value) Equal(w Value) bool {
	if v.K != w.K || !intsEq(v.A, w.A) || len(v.Ks) != len(w.Ks) || len(v.Vs) != len(w.Vs) {
		return false
	}
	for i := range v.Ks {
		if !intsEq(v.Ks[i], w.Ks[i]) {
			return false
		}
	}
	for i := range v.Vs {
		if !v.Vs[i].Equal(w.Vs[i]) {
			return false
		}
	}
	return true
}

// Size is DataModel!Size.
func (v Value) Size() int {
	n := 1
	for _, c := range v.Vs {
		n += c.Size()
	}
	return n
}

func Bytes(a []int) []byte {
	b := make([]byte, len(a))
	for i, x := range a {
		b[i] = byte(x)
	}
	return b
}

func Ints(b []byte) []int {
	a := make([]int, len(b))
	for i, x := range b {
		a[i] = int(x)
	}
	return a
}

// DecodeLine decodes one line printed by TLC's PrintT(ToJson(x)): a JSON string
// whose content is JSON.  Plain JSON lines are accepted too.
func DecodeLine(line []byte, into interface{}) error {
	line = bytes.TrimSpace(line)
	if len(line) > 0 && line[0] == '"' {
		var s string
		if err := json.Unmarshal(line, &s); err != nil {
			return err
		}
		line = []byte(s)
	}
	dec := json.NewDecoder(bytes.NewReader(line))
	return dec.Decode(into)
}
