package model

import (
	"fmt"
	"io"
	"strconv"

	"github.com/ipld/go-ipld-prime/datamodel"
	"github.com/ipld/go-ipld-prime/node/basicnode"
)

// Foreign is a minimal, independent datamodel.Node implementation backed by an
// abstract Value.  It serves two purposes: (1) as "a node from another
// implementation" handed to AssignNode / Copy / DeepEqual, so the generic
// (non-shortcut) paths of the library are taken, and (2) as the trivially
// correct reference the observation checker is self-tested against.
type Foreign struct {
	V Value
	C Conc
	g *GoScalar
}

func NewForeign(v Value, c Conc) *Foreign {
	f := &Foreign{V: v, C: c}
	if v.K != "map" && v.K != "list" {
		g, err := c.Scalar(v)
		if err != nil {
			panic(err)
		}
		f.g = &g
	}
	return f
}

var _ datamodel.Node = &Foreign{}

func (f *Foreign) Kind() datamodel.Kind { return KindOf(f.V.K) }
func (f *Foreign) LookupByString(key string) (datamodel.Node, error) {
	if f.V.K != "map" {
		return nil, datamodel.ErrWrongKind{TypeName: "foreign", MethodName: "LookupByString", AppropriateKind: datamodel.KindSet_JustMap, ActualKind: f.Kind()}
	}
	for i, k := range f.V.Ks {
		if f.C.Key(k) == key {
			return NewForeign(f.V.Vs[i], f.C), nil
		}
	}
	return nil, datamodel.ErrNotExists{Segment: datamodel.PathSegmentOfString(key)}
}
func (f *Foreign) LookupByNode(key datamodel.Node) (datamodel.Node, error) {
	switch f.V.K {
	case "map":
		s, err := key.AsString()
		if err != nil {
			return nil, err
		}
		return f.LookupByString(s)
	case "list":
		i, err := key.AsInt()
		if err != nil {
			return nil, err
		}
		return f.LookupByIndex(i)
	}
	return nil, datamodel.ErrWrongKind{TypeName: "foreign", MethodName: "LookupByNode", AppropriateKind: datamodel.KindSet_Recursive, ActualKind: f.Kind()}
}
func (f *Foreign) LookupByIndex(idx int64) (datamodel.Node, error) {
	if f.V.K != "list" {
		return nil, datamodel.ErrWrongKind{TypeName: "foreign", MethodName: "LookupByIndex", AppropriateKind: datamodel.KindSet_JustList, ActualKind: f.Kind()}
	}
	if idx < 0 || idx >= int64(len(f.V.Vs)) {
		return nil, datamodel.ErrNotExists{Segment: datamodel.PathSegmentOfInt(idx)}
	}
	return NewForeign(f.V.Vs[idx], f.C), nil
}
func (f *Foreign) LookupBySegment(seg datamodel.PathSegment) (datamodel.Node, error) {
	switch f.V.K {
	case "map":
		return f.LookupByString(seg.String())
	case "list":
		i, err := strconv.ParseInt(seg.String(), 10, 64)
		if err != nil {
			return nil, datamodel.ErrInvalidSegmentForList{TroubleSegment: seg, Reason: err}
		}
		return f.LookupByIndex(i)
	}
	return nil, datamodel.ErrWrongKind{TypeName: "foreign", MethodName: "LookupBySegment", AppropriateKind: datamodel.KindSet_Recursive, ActualKind: f.Kind()}
}

type foreignMapItr struct {
	f *Foreign
	i int
}

func (it *foreignMapItr) Next() (datamodel.Node, datamodel.Node, error) {
	if it.Done() {
		return nil, nil, datamodel.ErrIteratorOverread{}
	}
	k := basicnode.NewString(it.f.C.Key(it.f.V.Ks[it.i]))
	v := NewForeign(it.f.V.Vs[it.i], it.f.C)
	it.i++
	return k, v, nil
}
func (it *foreignMapItr) Done() bool { return it.i >= len(it.f.V.Vs) }

type foreignListItr struct {
	f *Foreign
	i int
}

func (it *foreignListItr) Next() (int64, datamodel.Node, error) {
	if it.Done() {
		return -1, nil, datamodel.ErrIteratorOverread{}
	}
	v := NewForeign(it.f.V.Vs[it.i], it.f.C)
	it.i++
	return int64(it.i - 1), v, nil
}
func (it *foreignListItr) Done() bool { return it.i >= len(it.f.V.Vs) }

func (f *Foreign) MapIterator() datamodel.MapIterator {
	if f.V.K != "map" {
		return nil
	}
	return &foreignMapItr{f, 0}
}
func (f *Foreign) ListIterator() datamodel.ListIterator {
	if f.V.K != "list" {
		return nil
	}
	return &foreignListItr{f, 0}
}
func (f *Foreign) Length() int64 {
	if f.V.K == "map" || f.V.K == "list" {
		return int64(len(f.V.Vs))
	}
	return -1
}
func (f *Foreign) IsAbsent() bool { return false }
func (f *Foreign) IsNull() bool   { return f.V.K == "null" }
func (f *Foreign) wrong(m string, ks datamodel.KindSet) error {
	return datamodel.ErrWrongKind{TypeName: "foreign", MethodName: m, AppropriateKind: ks, ActualKind: f.Kind()}
}
func (f *Foreign) AsBool() (bool, error) {
	if f.V.K != "bool" {
		return false, f.wrong("AsBool", datamodel.KindSet_JustBool)
	}
	return f.g.B, nil
}
func (f *Foreign) AsInt() (int64, error) {
	if f.V.K != "int" {
		return 0, f.wrong("AsInt", datamodel.KindSet_JustInt)
	}
	if f.g.IsUint {
		return 0, fmt.Errorf("foreign: unsigned integer out of int64 range")
	}
	return f.g.I, nil
}
func (f *Foreign) AsFloat() (float64, error) {
	if f.V.K != "float" {
		return 0, f.wrong("AsFloat", datamodel.KindSet_JustFloat)
	}
	return f.g.F, nil
}
func (f *Foreign) AsString() (string, error) {
	if f.V.K != "string" {
		return "", f.wrong("AsString", datamodel.KindSet_JustString)
	}
	return f.g.S, nil
}
func (f *Foreign) AsBytes() ([]byte, error) {
	if f.V.K != "bytes" {
		return nil, f.wrong("AsBytes", datamodel.KindSet_JustBytes)
	}
	return append([]byte{}, f.g.Bs...), nil
}

// AsLargeBytes makes Foreign a datamodel.LargeBytesNode whose reader delivers the content in short reads of
// 1, 2, 4, 5, 7, 1, ... bytes (never a multiple of three, never a full buffer): what a sharded bytes ADL looks like.
func (f *Foreign) AsLargeBytes() (io.ReadSeeker, error) {
	if f.V.K != "bytes" {
		return nil, f.wrong("AsLargeBytes", datamodel.KindSet_JustBytes)
	}
	return &stutterReader{b: append([]byte{}, f.g.Bs...)}, nil
}

var _ datamodel.LargeBytesNode = &Foreign{}

type stutterReader struct {
	b    []byte
	off  int64
	turn int
}

var stutterSizes = []int{1, 2, 4, 5, 7}

func (r *stutterReader) Read(p []byte) (int, error) {
	if r.off >= int64(len(r.b)) {
		return 0, io.EOF
	}
	if len(p) == 0 {
		return 0, nil
	}
	n := stutterSizes[r.turn%len(stutterSizes)]
	r.turn++
	if n > len(p) {
		n = len(p)
	}
	n = copy(p[:n], r.b[r.off:])
	r.off += int64(n)
	return n, nil
}

func (r *stutterReader) Seek(offset int64, whence int) (int64, error) {
	var abs int64
	switch whence {
	case io.SeekStart:
		abs = offset
	case io.SeekCurrent:
		abs = r.off + offset
	case io.SeekEnd:
		abs = int64(len(r.b)) + offset
	default:
		return 0, fmt.Errorf("stutterReader: invalid whence")
	}
	if abs < 0 {
		return 0, fmt.Errorf("stutterReader: negative position")
	}
	r.off = abs
	return abs, nil
}

func (f *Foreign) AsLink() (datamodel.Link, error) {
	if f.V.K != "link" {
		return nil, f.wrong("AsLink", datamodel.KindSet_JustLink)
	}
	return f.g.L, nil
}
func (f *Foreign) Prototype() datamodel.NodePrototype { return basicnode.Prototype.Any }
