package model

import (
	"bytes"
	"errors"
	"fmt"
	"io"
	"math"
	"strconv"

	"github.com/ipld/go-ipld-prime/datamodel"
	"github.com/ipld/go-ipld-prime/node/basicnode"
)

// Mismatch describes the first difference between what a real node shows
// through the node API and what DataModel!Obs says for the specified value.
type Mismatch struct {
	Path  string // where in the tree
	Field string // which observation (rule label)
	Spec  string
	Impl  string
}

func (m *Mismatch) Error() string {
	return fmt.Sprintf("at %q: %s: spec=%s impl=%s", m.Path, m.Field, m.Spec, m.Impl)
}

func mm(path, field string, spec, impl interface{}) *Mismatch {
	return &Mismatch{Path: path, Field: field, Spec: fmt.Sprint(spec), Impl: fmt.Sprint(impl)}
}

// Safe runs f and converts a panic into an error.
func Safe(f func()) (panicked interface{}) {
	defer func() {
		if r := recover(); r != nil {
			panicked = r
		}
	}()
	f()
	return nil
}

// ObsOpts tunes which observations are compared.
type ObsOpts struct {
	// SortedMaps: compare maps as sets of entries (for typed maps after a key-sorting codec).
	// Never set for C01.
	NoLookups    bool // skip the lookup forms (used for the light recursive comparison)
	Typed        bool // schema-typed node: lookups of unknown keys may fail with any error type
	PrimaryOnly  bool // only what the node CONTAINS: kinds, scalars, iteration, lookups of present entries
	AbsentKeys   []string
	WrongKindErr bool // require errors of kind-inappropriate accessors to be datamodel.ErrWrongKind
}

// CheckObs reads n through every read form of the node API and compares with Obs(v).
func (c Conc) CheckObs(n datamodel.Node, v Value, o ObsOpts) *Mismatch {
	return c.checkObs(n, v, o, "")
}

// Same is the light comparison: kinds, scalars, iteration order, lengths -- no lookups.
func (c Conc) Same(n datamodel.Node, v Value) *Mismatch {
	return c.checkObs(n, v, ObsOpts{NoLookups: true}, "")
}

func isWrongKind(err error) bool {
	var wk datamodel.ErrWrongKind
	return errors.As(err, &wk)
}

func isNotExists(err error) bool {
	var ne datamodel.ErrNotExists
	return errors.As(err, &ne)
}

func (c Conc) checkObs(n datamodel.Node, v Value, o ObsOpts, path string) (res *Mismatch) {
	if n == nil {
		return mm(path, "node", v.String(), "<nil node>")
	}
	if p := Safe(func() { res = c.checkObs1(n, v, o, path) }); p != nil {
		return mm(path, "panic", v.String(), fmt.Sprintf("panic: %v", p))
	}
	return res
}

func (c Conc) checkObs1(n datamodel.Node, v Value, o ObsOpts, path string) *Mismatch {
	if v.K == "absent" { // schema-level absence: the dedicated Absent value
		if !n.IsAbsent() {
			return mm(path, "IsAbsent", true, fmt.Sprintf("false (kind %s)", KindName(n.Kind())))
		}
		return nil
	}
	wantKind := KindOf(v.K)
	if n.Kind() != wantKind {
		return mm(path, "kind", v.K, KindName(n.Kind()))
	}
	if n.IsNull() != (v.K == "null") {
		return mm(path, "IsNull", v.K == "null", n.IsNull())
	}
	if n.IsAbsent() {
		return mm(path, "IsAbsent", false, true)
	}
	// length
	wantLen := int64(-1)
	if v.K == "map" || v.K == "list" {
		wantLen = int64(len(v.Vs))
	}
	if got := n.Length(); got != wantLen && !(o.PrimaryOnly && wantLen == -1) {
		return mm(path, "Length", wantLen, got)
	}
	// scalar accessors: the appropriate one returns the value, all others a wrong-kind error
	if m := c.checkAccessors(n, v, o, path); m != nil {
		return m
	}
	switch v.K {
	case "map":
		itr := n.MapIterator()
		if itr == nil {
			return mm(path, "MapIterator", "iterator", "nil")
		}
		var keptKeys []datamodel.Node
		for i := range v.Vs {
			if itr.Done() {
				return mm(path, "MapIterator.Done", fmt.Sprintf("false at %d", i), "true")
			}
			kn, vn, err := itr.Next()
			if err != nil {
				return mm(path, "MapIterator.Next", "ok", err)
			}
			keptKeys = append(keptKeys, kn)
			wantKey := c.Key(v.Ks[i])
			if kn == nil || kn.Kind() != datamodel.Kind_String {
				return mm(path, "MapIterator.key.kind", "string", "non-string key node")
			}
			ks, err := kn.AsString()
			if err != nil || ks != wantKey {
				return mm(path, "MapIterator.key", strconv.Quote(wantKey), fmt.Sprintf("%q err=%v", ks, err))
			}
			if m := c.checkObs(vn, v.Vs[i], o, path+"/"+ks); m != nil {
				return m
			}
		}
		if !itr.Done() {
			return mm(path, "MapIterator.Done", "true at end", "false")
		}
		// a node that was handed out stays what it was: the key nodes kept across the later Next calls still
		// read as they did, and they still find their values
		for i, kn := range keptKeys {
			wantKey := c.Key(v.Ks[i])
			if ks, err := kn.AsString(); err != nil || ks != wantKey {
				return mm(path, "MapIterator.key(kept across later Next calls)", strconv.Quote(wantKey), fmt.Sprintf("%q err=%v", ks, err))
			}
			if !o.NoLookups {
				got, err := n.LookupByNode(kn)
				if err != nil {
					return mm(path, "LookupByNode(key node from the iterator)", "ok:"+strconv.Quote(wantKey), err)
				}
				if m := c.checkObs(got, v.Vs[i], ObsOpts{NoLookups: true, Typed: o.Typed, PrimaryOnly: o.PrimaryOnly}, path+"/"+wantKey); m != nil {
					m.Field = "LookupByNode(key node from the iterator):" + m.Field
					return m
				}
			}
		}
		if !o.PrimaryOnly {
			if _, _, err := itr.Next(); err == nil {
				return mm(path, "MapIterator.overread", "error", "nil error")
			}
			if n.ListIterator() != nil {
				return mm(path, "ListIterator.on.map", "nil", "iterator")
			}
		}
		if o.NoLookups {
			return nil
		}
		light := ObsOpts{NoLookups: true, Typed: o.Typed, PrimaryOnly: o.PrimaryOnly}
		for i := range v.Vs {
			key := c.Key(v.Ks[i])
			got, err := n.LookupByString(key)
			if err != nil {
				return mm(path, "LookupByString", "ok:"+strconv.Quote(key), err)
			}
			if m := c.checkObs(got, v.Vs[i], light, path+"/"+key); m != nil {
				m.Field = "LookupByString:" + m.Field
				return m
			}
			if !o.PrimaryOnly { // a key node of ANOTHER implementation: secondary (typed maps may want their own key type)
				got, err = n.LookupByNode(basicnode.NewString(key))
				if err != nil {
					return mm(path, "LookupByNode", "ok:"+strconv.Quote(key), err)
				}
				if m := c.checkObs(got, v.Vs[i], light, path+"/"+key); m != nil {
					m.Field = "LookupByNode:" + m.Field
					return m
				}
			}
			got, err = n.LookupBySegment(datamodel.PathSegmentOfString(key))
			if err != nil {
				return mm(path, "LookupBySegment", "ok:"+strconv.Quote(key), err)
			}
			if m := c.checkObs(got, v.Vs[i], light, path+"/"+key); m != nil {
				m.Field = "LookupBySegment:" + m.Field
				return m
			}
		}
		if o.PrimaryOnly {
			return nil
		}
		absent := append([]string{"\x01absent-key\x01"}, o.AbsentKeys...)
		for _, key := range absent {
			present := false
			for i := range v.Ks {
				if c.Key(v.Ks[i]) == key {
					present = true
				}
			}
			if present {
				continue
			}
			if got, err := n.LookupByString(key); err == nil {
				return mm(path, "LookupByString.absent", "not_exists", fmt.Sprintf("ok (%v)", got))
			} else if !isNotExists(err) && !o.Typed {
				return mm(path, "LookupByString.absent.errtype", "ErrNotExists", fmt.Sprintf("%T", err))
			}
			if _, err := n.LookupBySegment(datamodel.PathSegmentOfString(key)); err == nil {
				return mm(path, "LookupBySegment.absent", "not_exists", "ok")
			}
		}
		if _, err := n.LookupByIndex(0); err == nil {
			return mm(path, "LookupByIndex.on.map", "wrong_kind", "ok")
		}
	case "list":
		itr := n.ListIterator()
		if itr == nil {
			return mm(path, "ListIterator", "iterator", "nil")
		}
		for i := range v.Vs {
			if itr.Done() {
				return mm(path, "ListIterator.Done", fmt.Sprintf("false at %d", i), "true")
			}
			idx, vn, err := itr.Next()
			if err != nil {
				return mm(path, "ListIterator.Next", "ok", err)
			}
			if idx != int64(i) {
				return mm(path, "ListIterator.index", i, idx)
			}
			if m := c.checkObs(vn, v.Vs[i], o, path+"/"+strconv.Itoa(i)); m != nil {
				return m
			}
		}
		if !itr.Done() {
			return mm(path, "ListIterator.Done", "true at end", "false")
		}
		if !o.PrimaryOnly {
			if _, _, err := itr.Next(); err == nil {
				return mm(path, "ListIterator.overread", "error", "nil error")
			}
			if n.MapIterator() != nil {
				return mm(path, "MapIterator.on.list", "nil", "iterator")
			}
		}
		if o.NoLookups {
			return nil
		}
		light := ObsOpts{NoLookups: true, Typed: o.Typed, PrimaryOnly: o.PrimaryOnly}
		for i := range v.Vs {
			p := path + "/" + strconv.Itoa(i)
			got, err := n.LookupByIndex(int64(i))
			if err != nil {
				return mm(path, "LookupByIndex", fmt.Sprintf("ok:%d", i), err)
			}
			if m := c.checkObs(got, v.Vs[i], light, p); m != nil {
				m.Field = "LookupByIndex:" + m.Field
				return m
			}
			got, err = n.LookupBySegment(datamodel.PathSegmentOfInt(int64(i)))
			if err != nil {
				return mm(path, "LookupBySegment(int)", fmt.Sprintf("ok:%d", i), err)
			}
			if m := c.checkObs(got, v.Vs[i], light, p); m != nil {
				m.Field = "LookupBySegment(int):" + m.Field
				return m
			}
			got, err = n.LookupBySegment(datamodel.PathSegmentOfString(strconv.Itoa(i)))
			if err != nil {
				return mm(path, "LookupBySegment(str)", fmt.Sprintf("ok:%d", i), err)
			}
			if m := c.checkObs(got, v.Vs[i], light, p); m != nil {
				m.Field = "LookupBySegment(str):" + m.Field
				return m
			}
			// LookupByNode is documented as the map lookup; on a list an implementation may
			// refuse it, but if it answers, the answer must agree with the other forms.
			if got, err = n.LookupByNode(basicnode.NewInt(int64(i))); err == nil {
				if m := c.checkObs(got, v.Vs[i], light, p); m != nil {
					m.Field = "LookupByNode(int):" + m.Field
					return m
				}
			}
		}
		if o.PrimaryOnly {
			return nil
		}
		for _, idx := range []int64{int64(len(v.Vs)), -1, math.MaxInt64} {
			if got, err := n.LookupByIndex(idx); err == nil {
				return mm(path, "LookupByIndex.out_of_range", "not_exists", fmt.Sprintf("ok (%v) idx=%d", got, idx))
			}
		}
		if _, err := n.LookupBySegment(datamodel.PathSegmentOfString("notanumber")); err == nil {
			return mm(path, "LookupBySegment.nonnumeric.on.list", "error", "ok")
		}
		if _, err := n.LookupByString("0"); err == nil {
			return mm(path, "LookupByString.on.list", "wrong_kind", "ok")
		}
	default:
		if o.PrimaryOnly {
			return nil
		}
		if n.MapIterator() != nil {
			return mm(path, "MapIterator.on.scalar", "nil", "iterator")
		}
		if n.ListIterator() != nil {
			return mm(path, "ListIterator.on.scalar", "nil", "iterator")
		}
		if o.NoLookups {
			return nil
		}
		if _, err := n.LookupByString("x"); err == nil {
			return mm(path, "LookupByString.on.scalar", "wrong_kind", "ok")
		}
		if _, err := n.LookupByIndex(0); err == nil {
			return mm(path, "LookupByIndex.on.scalar", "wrong_kind", "ok")
		}
		if _, err := n.LookupBySegment(datamodel.PathSegmentOfString("x")); err == nil {
			return mm(path, "LookupBySegment.on.scalar", "wrong_kind", "ok")
		}
		if _, err := n.LookupByNode(basicnode.NewString("x")); err == nil {
			return mm(path, "LookupByNode.on.scalar", "wrong_kind", "ok")
		}
	}
	return nil
}

func (c Conc) checkAccessors(n datamodel.Node, v Value, o ObsOpts, path string) *Mismatch {
	var g GoScalar
	if v.K != "map" && v.K != "list" {
		var err error
		g, err = c.Scalar(v)
		if err != nil {
			return mm(path, "harness.concretise", v.String(), err)
		}
	}
	wrong := func(name string, err error) *Mismatch {
		if o.PrimaryOnly {
			return nil
		}
		if err == nil {
			return mm(path, name+".wrong_kind", "wrong_kind error", "nil error")
		}
		if o.WrongKindErr && !isWrongKind(err) {
			return mm(path, name+".wrong_kind.errtype", "ErrWrongKind", fmt.Sprintf("%T: %v", err, err))
		}
		return nil
	}
	if o.PrimaryOnly {
		// only the accessor that applies to this kind
		switch v.K {
		case "bool":
			if b, err := n.AsBool(); err != nil || b != g.B {
				return mm(path, "AsBool", g.B, fmt.Sprintf("%v err=%v", b, err))
			}
		case "int":
			if !g.IsUint {
				if i, err := n.AsInt(); err != nil || i != g.I {
					return mm(path, "AsInt", g.I, fmt.Sprintf("%v err=%v", i, err))
				}
			}
		case "float":
			if f, err := n.AsFloat(); err != nil || (math.Float64bits(f) != math.Float64bits(g.F) && !(math.IsNaN(f) && math.IsNaN(g.F))) {
				return mm(path, "AsFloat", g.F, fmt.Sprintf("%v err=%v", f, err))
			}
		case "string":
			if s, err := n.AsString(); err != nil || s != g.S {
				return mm(path, "AsString", strconv.Quote(g.S), fmt.Sprintf("%q err=%v", s, err))
			}
		case "bytes":
			if b, err := n.AsBytes(); err != nil || !bytes.Equal(b, g.Bs) {
				return mm(path, "AsBytes", fmt.Sprintf("%x", g.Bs), fmt.Sprintf("%x err=%v", b, err))
			}
		case "link":
			if l, err := n.AsLink(); err != nil || l == nil || l.Binary() != g.L.Binary() {
				return mm(path, "AsLink", g.L, fmt.Sprintf("%v err=%v", l, err))
			}
		}
		return nil
	}
	// AsBool
	if b, err := n.AsBool(); v.K == "bool" {
		if err != nil || b != g.B {
			return mm(path, "AsBool", g.B, fmt.Sprintf("%v err=%v", b, err))
		}
	} else if m := wrong("AsBool", err); m != nil {
		return m
	}
	// AsInt
	if i, err := n.AsInt(); v.K == "int" {
		if g.IsUint {
			// beyond int64: AsInt must not silently return a wrong number
			if err == nil {
				return mm(path, "AsInt.uint_overflow", "error", i)
			}
			un, ok := n.(datamodel.UintNode)
			if !ok {
				return mm(path, "AsUint", g.U, "node is not a UintNode")
			}
			u, err := un.AsUint()
			if err != nil || u != g.U {
				return mm(path, "AsUint", g.U, fmt.Sprintf("%v err=%v", u, err))
			}
		} else if err != nil || i != g.I {
			return mm(path, "AsInt", g.I, fmt.Sprintf("%v err=%v", i, err))
		}
	} else if m := wrong("AsInt", err); m != nil {
		return m
	}
	// AsFloat
	if f, err := n.AsFloat(); v.K == "float" {
		if err != nil || (math.Float64bits(f) != math.Float64bits(g.F) && !(math.IsNaN(f) && math.IsNaN(g.F))) {
			return mm(path, "AsFloat", fmt.Sprintf("%x", math.Float64bits(g.F)), fmt.Sprintf("%x err=%v", math.Float64bits(f), err))
		}
	} else if m := wrong("AsFloat", err); m != nil {
		return m
	}
	// AsString
	if s, err := n.AsString(); v.K == "string" {
		if err != nil || s != g.S {
			return mm(path, "AsString", strconv.Quote(g.S), fmt.Sprintf("%q err=%v", s, err))
		}
	} else if m := wrong("AsString", err); m != nil {
		return m
	}
	// AsBytes (+ AsLargeBytes when offered)
	if b, err := n.AsBytes(); v.K == "bytes" {
		if err != nil || !bytes.Equal(b, g.Bs) {
			return mm(path, "AsBytes", fmt.Sprintf("%x", g.Bs), fmt.Sprintf("%x err=%v", b, err))
		}
		if lb, ok := n.(datamodel.LargeBytesNode); ok {
			rd, err := lb.AsLargeBytes()
			if err != nil {
				return mm(path, "AsLargeBytes", "ok", err)
			}
			all, err := io.ReadAll(rd)
			if err != nil || !bytes.Equal(all, g.Bs) {
				return mm(path, "AsLargeBytes.content", fmt.Sprintf("%x", g.Bs), fmt.Sprintf("%x err=%v", all, err))
			}
		}
	} else if m := wrong("AsBytes", err); m != nil {
		return m
	}
	// AsLink
	if l, err := n.AsLink(); v.K == "link" {
		if err != nil || l == nil || l.Binary() != g.L.Binary() {
			return mm(path, "AsLink", g.L, fmt.Sprintf("%v err=%v", l, err))
		}
	} else if m := wrong("AsLink", err); m != nil {
		return m
	}
	return nil
}

// Project reads a real node into a concrete abstract Value using iteration only.
func Project(n datamodel.Node) (v Value, err error) {
	if p := Safe(func() { v, err = project(n) }); p != nil {
		return v, fmt.Errorf("panic: %v", p)
	}
	return
}

func project(n datamodel.Node) (Value, error) {
	if n.IsAbsent() {
		return Value{K: "absent", A: []int{}, Ks: [][]int{}, Vs: []Value{}}, nil
	}
	v := Value{K: KindName(n.Kind()), A: []int{}, Ks: [][]int{}, Vs: []Value{}}
	switch n.Kind() {
	case datamodel.Kind_Map:
		itr := n.MapIterator()
		for !itr.Done() {
			k, c, err := itr.Next()
			if err != nil {
				return v, err
			}
			ks, err := k.AsString()
			if err != nil {
				return v, err
			}
			cv, err := project(c)
			if err != nil {
				return v, err
			}
			v.Ks = append(v.Ks, Ints([]byte(ks)))
			v.Vs = append(v.Vs, cv)
		}
	case datamodel.Kind_List:
		itr := n.ListIterator()
		for !itr.Done() {
			_, c, err := itr.Next()
			if err != nil {
				return v, err
			}
			cv, err := project(c)
			if err != nil {
				return v, err
			}
			v.Vs = append(v.Vs, cv)
		}
	case datamodel.Kind_Null:
	case datamodel.Kind_Bool:
		b, err := n.AsBool()
		if err != nil {
			return v, err
		}
		return AbstractScalar(GoScalar{Kind: n.Kind(), B: b}), nil
	case datamodel.Kind_Int:
		if un, ok := n.(datamodel.UintNode); ok {
			u, err := un.AsUint()
			if err == nil && u > math.MaxInt64 {
				return AbstractScalar(GoScalar{Kind: n.Kind(), IsUint: true, U: u}), nil
			}
		}
		i, err := n.AsInt()
		if err != nil {
			return v, err
		}
		return AbstractScalar(GoScalar{Kind: n.Kind(), I: i}), nil
	case datamodel.Kind_Float:
		f, err := n.AsFloat()
		if err != nil {
			return v, err
		}
		return AbstractScalar(GoScalar{Kind: n.Kind(), F: f}), nil
	case datamodel.Kind_String:
		s, err := n.AsString()
		if err != nil {
			return v, err
		}
		return AbstractScalar(GoScalar{Kind: n.Kind(), S: s}), nil
	case datamodel.Kind_Bytes:
		b, err := n.AsBytes()
		if err != nil {
			return v, err
		}
		return AbstractScalar(GoScalar{Kind: n.Kind(), Bs: b}), nil
	case datamodel.Kind_Link:
		l, err := n.AsLink()
		if err != nil {
			return v, err
		}
		return AbstractScalar(GoScalar{Kind: n.Kind(), L: l}), nil
	default:
		return v, fmt.Errorf("project: invalid kind %v", n.Kind())
	}
	return v, nil
}
