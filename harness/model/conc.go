package model

import (
	"encoding/binary"
	"fmt"
	"math"
	"strings"

	"github.com/ipfs/go-cid"
	"github.com/ipld/go-ipld-prime/datamodel"
	cidlink "github.com/ipld/go-ipld-prime/linking/cid"
	mh "github.com/multiformats/go-multihash"
)

// Conc is a concretisation table: it maps the payloads of abstract values to Go values.
// With Sym=true payloads are one-element symbols <<n>> resolved through the profile;
// with Sym=false payloads are the concrete bytes as described in DataModel.tla.
type Conc struct {
	Sym     bool
	Profile int
}

const NProfiles = 4

var longKey = strings.Repeat("K", 300)

var keyTable = [NProfiles][]string{
	{"k1", "k2", "k3", "k4", "k5"},
	{"", "\x00", "a/b", "..", "0"},
	{"\xff\xfe", longKey, "\u00e9", "e\u0301", "\U0001F600"},
	{"aa", "b", "ab", "a", "ba"},
}

var intTable = [NProfiles][]int64{
	{1, 2, -1, 0, 7},
	{math.MaxInt64, math.MinInt64, 0, -1, 1 << 32},
	{23, 24, 255, 256, 65536},
	{-24, -25, -256, -257, 1<<53 + 1},
}

var floatTable = [NProfiles][]float64{
	{1.5, -2.25, 0.1, 3.0, 1e21},
	{math.MaxFloat64, math.SmallestNonzeroFloat64, 1e-7, -1e300, 2.5},
	{0.0, 1.0, math.Copysign(0, -1), -1.0, 1e20},
	{0.5, 1.0 / 3.0, 1e-6, 123456789.125, 4.25},
}

var stringTable = [NProfiles][]string{
	{"s1", "s2", "s3", "s4", "s5"},
	{"", "\x00", "a/b", "\"q\"\\", " "},
	{"\xff\xfe", strings.Repeat("S", 300), "é", "\U0001F600", "\n\t"},
	{"/", "bytes", "x", "yy", "zzz"},
}

var bytesTable = [NProfiles][][]byte{
	{{1}, {2, 3}, {4, 5, 6}, {7, 8, 9, 10}, {}},
	{{}, {0}, {0xff}, {0, 0}, []byte(strings.Repeat("\xab", 300))},
	{{0xff, 0xfe}, []byte("text"), {0x2f}, {1, 2, 3, 4, 5}, {9}},
	{{0xd8, 0x2a}, {0x00, 0x01}, {0x7f}, {0x80}, {}},
}

func mkCid(version uint64, codec uint64, mhType uint64, mhLen int, data string) cid.Cid {
	c, err := cid.Prefix{Version: version, Codec: codec, MhType: mhType, MhLength: mhLen}.Sum([]byte(data))
	if err != nil {
		panic(err)
	}
	return c
}

var linkTable = [NProfiles][]cid.Cid{}

func init() {
	for p := 0; p < NProfiles; p++ {
		for i := 0; i < 5; i++ {
			data := fmt.Sprintf("block-%d-%d", p, i)
			var c cid.Cid
			switch p {
			case 0:
				c = mkCid(1, 0x71, mh.SHA2_256, -1, data)
			case 1:
				c = mkCid(0, 0x70, mh.SHA2_256, -1, data)
			case 2:
				c = mkCid(1, 0x55, mh.IDENTITY, -1, data)
			default:
				c = mkCid(1, 0x0129, mh.SHA2_512, -1, data)
			}
			linkTable[p] = append(linkTable[p], c)
		}
	}
}

func pick(n, l int) int {
	if n < 1 {
		n = 1
	}
	return (n - 1) % l
}

// Key returns the Go string for a key token.
func (c Conc) Key(k []int) string {
	if !c.Sym {
		return string(Bytes(k))
	}
	t := keyTable[c.Profile%NProfiles]
	if len(k) == 0 {
		return "<nokey>"
	}
	return t[pick(k[0], len(t))]
}

// GoScalar is a concrete scalar.
type GoScalar struct {
	Kind   datamodel.Kind
	B      bool
	I      int64
	IsUint bool // integer above MaxInt64, held in U
	U      uint64
	F      float64
	S      string
	Bs     []byte
	L      datamodel.Link
}

func (g GoScalar) String() string {
	switch g.Kind {
	case datamodel.Kind_Null:
		return "null"
	case datamodel.Kind_Bool:
		return fmt.Sprint(g.B)
	case datamodel.Kind_Int:
		if g.IsUint {
			return fmt.Sprintf("uint(%d)", g.U)
		}
		return fmt.Sprint(g.I)
	case datamodel.Kind_Float:
		return fmt.Sprintf("float(%x)", math.Float64bits(g.F))
	case datamodel.Kind_String:
		return fmt.Sprintf("%q", g.S)
	case datamodel.Kind_Bytes:
		return fmt.Sprintf("bytes(%x)", g.Bs)
	case datamodel.Kind_Link:
		return fmt.Sprintf("link(%s)", g.L)
	}
	return "?"
}

func KindOf(k string) datamodel.Kind {
	switch k {
	case "null":
		return datamodel.Kind_Null
	case "bool":
		return datamodel.Kind_Bool
	case "int":
		return datamodel.Kind_Int
	case "float":
		return datamodel.Kind_Float
	case "string":
		return datamodel.Kind_String
	case "bytes":
		return datamodel.Kind_Bytes
	case "link":
		return datamodel.Kind_Link
	case "list":
		return datamodel.Kind_List
	case "map":
		return datamodel.Kind_Map
	}
	return datamodel.Kind_Invalid
}

func KindName(k datamodel.Kind) string {
	switch k {
	case datamodel.Kind_Null:
		return "null"
	case datamodel.Kind_Bool:
		return "bool"
	case datamodel.Kind_Int:
		return "int"
	case datamodel.Kind_Float:
		return "float"
	case datamodel.Kind_String:
		return "string"
	case datamodel.Kind_Bytes:
		return "bytes"
	case datamodel.Kind_Link:
		return "link"
	case datamodel.Kind_List:
		return "list"
	case datamodel.Kind_Map:
		return "map"
	}
	return "invalid"
}

// Scalar resolves the payload of a scalar abstract value.
func (c Conc) Scalar(v Value) (GoScalar, error) {
	g := GoScalar{Kind: KindOf(v.K)}
	p := c.Profile % NProfiles
	sym := 1
	if c.Sym && len(v.A) > 0 {
		sym = v.A[0]
	}
	switch v.K {
	case "null":
	case "bool":
		if c.Sym {
			g.B = sym%2 == 1
		} else {
			g.B = len(v.A) > 0 && v.A[0] != 0
		}
	case "int":
		if c.Sym {
			if sym >= 100 { // symbols from 100 up: unsigned integers beyond int64 (MaxUint64 downwards)
				g.IsUint, g.U = true, math.MaxUint64-uint64(sym-100)
				break
			}
			g.I = intTable[p][pick(sym, 5)]
			break
		}
		if len(v.A) < 1 || len(v.A) > 9 {
			return g, fmt.Errorf("bad int payload %v", v.A)
		}
		var arg uint64
		for _, b := range v.A[1:] {
			arg = arg<<8 | uint64(b)
		}
		if v.A[0] == 0 {
			if arg > math.MaxInt64 {
				g.IsUint, g.U = true, arg
			} else {
				g.I = int64(arg)
			}
		} else {
			if arg > math.MaxInt64 {
				return g, fmt.Errorf("negative int out of int64 range: -1-%d", arg)
			}
			g.I = -1 - int64(arg)
		}
	case "float":
		if c.Sym {
			g.F = floatTable[p][pick(sym, 5)]
			break
		}
		switch len(v.A) {
		case 8:
			g.F = math.Float64frombits(binary.BigEndian.Uint64(Bytes(v.A)))
		case 4: // narrow floats as read by a decoder (documented tolerance)
			g.F = float64(math.Float32frombits(binary.BigEndian.Uint32(Bytes(v.A))))
		case 2:
			g.F = Float16(uint16(v.A[0])<<8 | uint16(v.A[1]))
		default:
			return g, fmt.Errorf("bad float payload %v", v.A)
		}
	case "string":
		if c.Sym {
			g.S = stringTable[p][pick(sym, 5)]
		} else {
			g.S = string(Bytes(v.A))
		}
	case "bytes":
		if c.Sym {
			g.Bs = bytesTable[p][pick(sym, 5)]
		} else {
			g.Bs = Bytes(v.A)
		}
	case "link":
		if c.Sym {
			g.L = cidlink.Link{Cid: linkTable[p][pick(sym, 5)]}
		} else {
			cc, err := cid.Cast(Bytes(v.A))
			if err != nil {
				return g, fmt.Errorf("bad cid payload %v: %v", v.A, err)
			}
			g.L = cidlink.Link{Cid: cc}
		}
	default:
		return g, fmt.Errorf("not a scalar kind: %q", v.K)
	}
	return g, nil
}

// Abstract turns a concrete scalar back into the concrete (Sym=false) payload form.
func AbstractScalar(g GoScalar) Value {
	v := Value{K: KindName(g.Kind), A: []int{}, Ks: [][]int{}, Vs: []Value{}}
	switch g.Kind {
	case datamodel.Kind_Bool:
		if g.B {
			v.A = []int{1}
		} else {
			v.A = []int{0}
		}
	case datamodel.Kind_Int:
		var sign int
		var arg uint64
		if g.IsUint {
			arg = g.U
		} else if g.I >= 0 {
			arg = uint64(g.I)
		} else {
			sign = 1
			arg = uint64(-1 - g.I)
		}
		a := []int{sign}
		started := false
		for sh := 56; sh >= 0; sh -= 8 {
			b := int(arg >> uint(sh) & 0xff)
			if b != 0 || started {
				a = append(a, b)
				started = true
			}
		}
		v.A = a
	case datamodel.Kind_Float:
		var buf [8]byte
		binary.BigEndian.PutUint64(buf[:], math.Float64bits(g.F))
		v.A = Ints(buf[:])
	case datamodel.Kind_String:
		v.A = Ints([]byte(g.S))
	case datamodel.Kind_Bytes:
		v.A = Ints(g.Bs)
	case datamodel.Kind_Link:
		if cl, ok := g.L.(cidlink.Link); ok {
			v.A = Ints(cl.Cid.Bytes())
		} else {
			v.A = Ints([]byte(g.L.Binary()))
		}
	}
	return v
}

// Concretise rewrites a symbolic value into its concrete-payload form under this table.
func (c Conc) Concretise(v Value) (Value, error) {
	if !c.Sym {
		return v, nil
	}
	switch v.K {
	case "map":
		out := Value{K: "map", A: []int{}, Ks: make([][]int, len(v.Ks)), Vs: make([]Value, len(v.Vs))}
		for i := range v.Vs {
			out.Ks[i] = Ints([]byte(c.Key(v.Ks[i])))
			cv, err := c.Concretise(v.Vs[i])
			if err != nil {
				return out, err
			}
			out.Vs[i] = cv
		}
		return out, nil
	case "list":
		out := Value{K: "list", A: []int{}, Ks: [][]int{}, Vs: make([]Value, len(v.Vs))}
		for i := range v.Vs {
			cv, err := c.Concretise(v.Vs[i])
			if err != nil {
				return out, err
			}
			out.Vs[i] = cv
		}
		return out, nil
	default:
		g, err := c.Scalar(v)
		if err != nil {
			return v, err
		}
		return AbstractScalar(g), nil
	}
}

// Float16 converts an IEEE-754 binary16 bit pattern to float64 (independent of the library under test).
func Float16(h uint16) float64 {
	sign := 1.0
	if h&0x8000 != 0 {
		sign = -1.0
	}
	exp := int(h>>10) & 0x1f
	frac := float64(h & 0x3ff)
	switch exp {
	case 0:
		return sign * math.Ldexp(frac, -24)
	case 31:
		if frac == 0 {
			return sign * math.Inf(1)
		}
		return math.NaN()
	}
	return sign * math.Ldexp(1+frac/1024, exp-15)
}

// HasUint reports whether a concrete value contains an unsigned integer above MaxInt64.
func HasUint(v Value) bool {
	if v.K == "int" && len(v.A) == 9 && v.A[0] == 0 && v.A[1] >= 128 {
		return true
	}
	for _, c := range v.Vs {
		if HasUint(c) {
			return true
		}
	}
	return false
}
