package model

import (
	"fmt"

	"github.com/ipld/go-ipld-prime/datamodel"
	"github.com/ipld/go-ipld-prime/node/basicnode"
	"github.com/ipld/go-ipld-prime/node/bindnode"
	"github.com/ipld/go-ipld-prime/schema"
)

// AssignScalar calls the Assign<Kind> method that matches g.
func AssignScalar(na datamodel.NodeAssembler, g GoScalar) error {
	switch g.Kind {
	case datamodel.Kind_Null:
		return na.AssignNull()
	case datamodel.Kind_Bool:
		return na.AssignBool(g.B)
	case datamodel.Kind_Int:
		if g.IsUint {
			return na.AssignNode(basicnode.NewUint(g.U))
		}
		return na.AssignInt(g.I)
	case datamodel.Kind_Float:
		return na.AssignFloat(g.F)
	case datamodel.Kind_String:
		return na.AssignString(g.S)
	case datamodel.Kind_Bytes:
		return na.AssignBytes(append([]byte{}, g.Bs...))
	case datamodel.Kind_Link:
		return na.AssignLink(g.L)
	}
	return fmt.Errorf("model: cannot assign kind %v", g.Kind)
}

// BuildInto assembles v into na by the plainest route (AssembleEntry / AssembleValue / Assign<Kind>).
func (c Conc) BuildInto(na datamodel.NodeAssembler, v Value) error {
	switch v.K {
	case "map":
		ma, err := na.BeginMap(int64(len(v.Vs)))
		if err != nil {
			return err
		}
		for i := range v.Vs {
			va, err := ma.AssembleEntry(c.Key(v.Ks[i]))
			if err != nil {
				return err
			}
			if err := c.BuildInto(va, v.Vs[i]); err != nil {
				return err
			}
		}
		return ma.Finish()
	case "list":
		la, err := na.BeginList(int64(len(v.Vs)))
		if err != nil {
			return err
		}
		for i := range v.Vs {
			if err := c.BuildInto(la.AssembleValue(), v.Vs[i]); err != nil {
				return err
			}
		}
		return la.Finish()
	default:
		g, err := c.Scalar(v)
		if err != nil {
			return err
		}
		return AssignScalar(na, g)
	}
}

// AnyTS is a small type system with untyped containers, used to obtain bindnode
// implementations of plain data-model maps and lists.
var AnyTS = func() *schema.TypeSystem {
	ts := new(schema.TypeSystem)
	ts.Init()
	ts.Accumulate(schema.SpawnString("String"))
	ts.Accumulate(schema.SpawnAny("Any"))
	ts.Accumulate(schema.SpawnBool("Bool"))
	ts.Accumulate(schema.SpawnInt("Int"))
	ts.Accumulate(schema.SpawnFloat("Float"))
	ts.Accumulate(schema.SpawnBytes("Bytes"))
	ts.Accumulate(schema.SpawnLink("Link"))
	ts.Accumulate(schema.SpawnMap("MapAny", "String", "Any", true)) // nullable: bindnode admits null in Any only where nullable
	ts.Accumulate(schema.SpawnList("ListAny", "Any", true))
	// the same containers with NON-nullable Any values (for behaviours that hold no null): another Go shape for the values
	ts.Accumulate(schema.SpawnMap("MapAnyNN", "String", "Any", false))
	ts.Accumulate(schema.SpawnList("ListAnyNN", "Any", false))
	return ts
}()

// ProtoFor returns the node prototype of implementation impl able to hold a value of kind k.
func ProtoFor(impl string, k string) (datamodel.NodePrototype, error) {
	switch impl {
	case "basic", "":
		return basicnode.Prototype.Any, nil
	case "basic-typed":
		switch k {
		case "map":
			return basicnode.Prototype.Map, nil
		case "list":
			return basicnode.Prototype.List, nil
		case "bool":
			return basicnode.Prototype.Bool, nil
		case "int":
			return basicnode.Prototype.Int, nil
		case "float":
			return basicnode.Prototype.Float, nil
		case "string":
			return basicnode.Prototype.String, nil
		case "bytes":
			return basicnode.Prototype.Bytes, nil
		case "link":
			return basicnode.Prototype.Link, nil
		}
		return basicnode.Prototype.Any, nil
	case "bind":
		switch k {
		case "map":
			return bindnode.Prototype(nil, AnyTS.TypeByName("MapAny")), nil
		case "list":
			return bindnode.Prototype(nil, AnyTS.TypeByName("ListAny")), nil
		}
		tn := map[string]string{"bool": "Bool", "int": "Int", "float": "Float", "string": "String", "bytes": "Bytes", "link": "Link"}[k]
		if tn == "" {
			return basicnode.Prototype.Any, nil // no typed home for null in bindnode
		}
		return bindnode.Prototype(nil, AnyTS.TypeByName(tn)), nil
	}
	return nil, fmt.Errorf("model: unknown implementation %q", impl)
}

// BuildImpl returns a finished node of implementation impl holding v.
func (c Conc) BuildImpl(impl string, v Value) (datamodel.Node, error) {
	if impl == "foreign" {
		return NewForeign(v, c), nil
	}
	np, err := ProtoFor(impl, v.K)
	if err != nil {
		return nil, err
	}
	nb := np.NewBuilder()
	if err := c.BuildInto(nb, v); err != nil {
		return nil, err
	}
	return nb.Build(), nil
}
