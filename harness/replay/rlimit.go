package replay

import (
	"os/signal"
	"syscall"
)

// A real write failure: with RLIMIT_FSIZE lowered, the kernel lets a write fill the file up to the
// limit and then fails it with EFBIG -- a genuinely torn write, persistent until the limit is lifted.

var savedFsize *syscall.Rlimit

func limitFileSize(n int64) {
	signal.Ignore(syscall.SIGXFSZ)
	var cur syscall.Rlimit
	if err := syscall.Getrlimit(syscall.RLIMIT_FSIZE, &cur); err != nil {
		return
	}
	if savedFsize == nil {
		c := cur
		savedFsize = &c
	}
	cur.Cur = uint64(n)
	syscall.Setrlimit(syscall.RLIMIT_FSIZE, &cur)
}

func unlimitFileSize() {
	if savedFsize != nil {
		syscall.Setrlimit(syscall.RLIMIT_FSIZE, savedFsize)
		savedFsize = nil
	}
}
