package replay

import (
	"bytes"
	"encoding/base64"
	"encoding/binary"
	"encoding/json"
	"fmt"
	"github.com/ipld/go-ipld-prime/node/basicnode"
	"io"
	"math"
	"math/big"
	"math/rand"
	"strings"
	"testing/iotest"

	"github.com/ipfs/go-cid"
	"github.com/ipld/go-ipld-prime/codec/dagjson"
	"github.com/ipld/go-ipld-prime/datamodel"
	"github.com/ipld/go-ipld-prime/multicodec"

	"verifharness/model"
	"verifharness/run"
)

// JTok is one token of DagJson!EncJ.  The payload of "str" tokens is tagged with the oracle that renders it.
type JTok struct {
	T string        `json:"t"`
	A []interface{} `json:"a"`
}

type JsonCase struct {
	V        model.Value `json:"v"`
	Toks     []JTok      `json:"toks"`
	Sorted   model.Value `json:"sorted"`
	Reserved bool        `json:"reserved"`
}

func ifaceBytes(x interface{}) []byte {
	arr, _ := x.([]interface{})
	b := make([]byte, len(arr))
	for i, e := range arr {
		f, _ := e.(float64)
		b[i] = byte(f)
	}
	return b
}

func plainBytes(a []interface{}) []byte {
	b := make([]byte, len(a))
	for i, e := range a {
		f, _ := e.(float64)
		b[i] = byte(f)
	}
	return b
}

// expectedTokens renders the specification's token sequence with independent oracles:
// encoding/base64 for bytes, go-cid's String for links (construction only), math/big for integers.
func expectedTokens(ts []JTok) ([]string, error) {
	var out []string
	for _, t := range ts {
		switch t.T {
		case "{", "}", "[", "]", "true", "false", "null":
			out = append(out, t.T)
		case "key":
			out = append(out, "s:"+string(plainBytes(t.A)))
		case "str":
			if len(t.A) != 2 {
				return nil, fmt.Errorf("bad str token %v", t.A)
			}
			tag, _ := t.A[0].(string)
			payload := ifaceBytes(t.A[1])
			switch tag {
			case "raw":
				out = append(out, "s:"+string(payload))
			case "b64":
				out = append(out, "s:"+base64.RawStdEncoding.EncodeToString(payload))
			case "cid":
				c, err := cid.Cast(payload)
				if err != nil {
					return nil, err
				}
				out = append(out, "s:"+c.String())
			}
		case "int":
			b := plainBytes(t.A)
			n := new(big.Int).SetBytes(b[1:])
			if b[0] == 1 {
				n.Add(n, big.NewInt(1))
				n.Neg(n)
			}
			out = append(out, "n:"+n.String())
		case "float":
			f := math.Float64frombits(binary.BigEndian.Uint64(plainBytes(t.A)))
			out = append(out, fmt.Sprintf("f:%x", math.Float64bits(f)))
		}
	}
	return out, nil
}

// tokenise reads real DAG-JSON output with the standard library's tokenizer.
func tokenise(data []byte) ([]string, error) {
	dec := json.NewDecoder(bytes.NewReader(data))
	dec.UseNumber()
	var out []string
	for {
		t, err := dec.Token()
		if err != nil {
			if err.Error() == "EOF" {
				return out, nil
			}
			return out, err
		}
		switch x := t.(type) {
		case json.Delim:
			out = append(out, string(x))
		case string:
			out = append(out, "s:"+x)
		case json.Number:
			s := x.String()
			if strings.ContainsAny(s, ".eE") {
				f, err := x.Float64()
				if err != nil {
					return out, err
				}
				out = append(out, fmt.Sprintf("f:%x", math.Float64bits(f)))
			} else {
				out = append(out, "n:"+s)
			}
		case bool:
			out = append(out, fmt.Sprint(x))
		case nil:
			out = append(out, "null")
		}
	}
}

// ReplayJsonEnc checks one value of DagJsonEnc against dagjson.Encode / Decode.
func ReplayJsonEnc(cs *JsonCase, seed int64, limit int) (*run.Finding, int) {
	conc := model.Conc{}
	checks := 0
	fail := func(target, rule, class, detail string) *run.Finding {
		return &run.Finding{Step: -1, Target: target, Rule: rule, Class: class, Detail: detail}
	}
	if cs.Reserved {
		// outside the quantifier; only: encoding and decoding must not panic
		n, err := conc.BuildImpl("basic", cs.V)
		if err != nil {
			return nil, 0
		}
		var buf bytes.Buffer
		if p := model.Safe(func() {
			if dagjson.Encode(n, &buf) == nil {
				nb, _ := model.ProtoFor("basic", "")
				b := nb.NewBuilder()
				dagjson.Decode(b, bytes.NewReader(buf.Bytes()))
			}
		}); p != nil {
			return fail("dagjson", "reserved-shape:no-panic", "panic", fmt.Sprintf("%v: %v", cs.V, p)), 1
		}
		return nil, 1
	}
	want, err := expectedTokens(cs.Toks)
	if err != nil {
		return fail("harness", "expected-tokens", "error", err.Error()), 0
	}
	rng := rand.New(rand.NewSource(seed))
	var first []byte
	regEnc, _ := multicodec.LookupEncoder(0x0129)
	for oi, ord := range Orders(cs.V, limit, rng) {
		for _, impl := range []string{"basic", "basic-typed", "bind", "foreign"} {
			n, err := conc.BuildImpl(impl, ord)
			if err != nil {
				return fail("harness", "prebuild:"+impl, "error", fmt.Sprintf("%v: %v", ord, err)), checks
			}
			var buf bytes.Buffer
			var eerr error
			if p := model.Safe(func() { eerr = dagjson.Encode(n, &buf) }); p != nil {
				return fail("dagjson.Encode["+impl+"]", "EncJ", "panic", fmt.Sprintf("%v: %v", ord, p)), checks
			}
			checks++
			if eerr != nil {
				return fail("dagjson.Encode["+impl+"]", "EncJ", "error", fmt.Sprintf("%v: %v", ord, eerr)), checks
			}
			if first == nil {
				first = append([]byte{}, buf.Bytes()...)
				// structure: the standard library tokenizer must see exactly the specified tokens
				got, terr := tokenise(first)
				if terr != nil {
					return fail("dagjson.Encode["+impl+"]", "EncJ", "not-json", fmt.Sprintf("%v: output %q: %v", ord, first, terr)), checks
				}
				if fmt.Sprint(got) != fmt.Sprint(want) {
					class := "different-tokens"
					if len(got) == len(want) {
						for i := range got {
							if got[i] != want[i] && strings.HasPrefix(want[i], "f:") && strings.HasPrefix(got[i], "n:") {
								class = "float-written-as-integer"
							}
						}
					}
					return fail("dagjson.Encode["+impl+"]", "EncJ", class, fmt.Sprintf("%v: output %q tokens %q, specification %q", ord, first, got, want)), checks
				}
				checks++
				var b2 bytes.Buffer
				if err := regEnc(n, &b2); err != nil || !bytes.Equal(b2.Bytes(), first) {
					return fail("multicodec[0x0129].Encode", "EncJ", "different-bytes", fmt.Sprintf("%q vs %q (%v)", b2.Bytes(), first, err)), checks
				}
			} else if !bytes.Equal(buf.Bytes(), first) {
				return fail("dagjson.Encode["+impl+"]", "Deterministic", "different-bytes",
					fmt.Sprintf("insertion order #%d %v in %s: %q, first encoding %q", oi, ord, impl, buf.Bytes(), first)), checks
			}
		}
	}
	// ... and a function of the value alone also right after an Encode that failed
	if n, err := conc.BuildImpl("basic", cs.V); err == nil {
		f, k := encodeAfterFaults("dagjson.Encode[basic]", func(n datamodel.Node, w io.Writer) error { return dagjson.Encode(n, w) }, n, first,
			[]encProbe{{basicnode.NewString("x"), []byte(`"x"`)}, {cborProbe, []byte(`{"a":1}`)}}, rng, 12, fmt.Sprint(cs.V))
		checks += k
		if f != nil {
			return f, checks
		}
	}
	// decode: the same value, sorted, with the same kinds
	for ii, impl := range []string{"basic", "bind"} {
		// A round trip does not depend on what the process decoded before: every other time, decodes that FAIL right
		// after the decoder's look-ahead for the special forms (a link that is no CID, bytes that are no base64, a
		// map fed to a builder that refuses it, a document that ends early) come first.
		if ii == 1 {
			for _, bad := range []string{`{"/":"not a cid"}`, `{"/":{"bytes":"*"}}`, `{"/":{"bytes":"AQ"},"x":1}`, `{"a":{"/":`, `[{"/":{"bytes":[1,`} {
				model.Safe(func() {
					dagjson.Decode(basicnode.Prototype.Any.NewBuilder(), bytes.NewReader([]byte(bad)))
					dagjson.Decode(basicnode.Prototype.String.NewBuilder(), bytes.NewReader(first))
				})
			}
		}
		np, _ := model.ProtoFor(impl, cs.V.K)
		nb := np.NewBuilder()
		var derr error
		var n datamodel.Node
		if p := model.Safe(func() {
			// how the reader delivers the text is not part of the value: from one buffer, one byte per Read, in two reads
			// cut at a place that depends on the text, or with the final data arriving together with io.EOF
			var r io.Reader = bytes.NewReader(first)
			switch (len(first) + ii) % 4 {
			case 3:
				r = iotest.DataErrReader(bytes.NewReader(first)) // the final read returns data together with io.EOF
			case 1:
				r = iotest.OneByteReader(bytes.NewReader(first))
			case 2:
				c := (len(first)*5 + 1) % len(first)
				r = &chunkReader{chunks: [][]byte{first[:c], first[c:]}}
			}
			derr = dagjson.Decode(nb, r)
			if derr == nil {
				n = nb.Build()
			}
		}); p != nil {
			return fail("dagjson.Decode["+impl+"]", "DecJ(EncJ(v))=Sorted(v)", "panic", fmt.Sprintf("%q: %v", first, p)), checks
		}
		checks++
		if derr != nil {
			return fail("dagjson.Decode["+impl+"]", "DecJ(EncJ(v))=Sorted(v)", "error", fmt.Sprintf("%v encoded as %q: %v", cs.V, first, derr)), checks
		}
		if m := conc.CheckObs(n, cs.Sorted, model.ObsOpts{}); m != nil {
			class := "mismatch"
			if m.Field == "kind" && m.Spec == "float" && m.Impl == "int" {
				class = "float-read-back-as-integer"
			}
			return fail("dagjson.Decode["+impl+"]", "DecJ(EncJ(v))=Sorted(v)/"+m.Field, class, fmt.Sprintf("%v encoded as %q: %v", cs.V, first, m)), checks
		}
		checks++
	}
	return nil, checks
}
