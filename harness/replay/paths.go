package replay

import (
	"fmt"

	"github.com/ipld/go-ipld-prime/datamodel"
	"github.com/ipld/go-ipld-prime/linking"
	"github.com/ipld/go-ipld-prime/node/basicnode"
	"github.com/ipld/go-ipld-prime/traversal"

	"verifharness/model"
	"verifharness/run"
)

// PathProbe is one line of specs/PathsGen.tla.
type PathProbe struct {
	Kind   string        `json:"kind"`
	G      []model.Value `json:"g"`
	Path   [][]int       `json:"path"`
	Joined []int         `json:"joined"`
	Split  [][]int       `json:"split"`
	Ok     bool          `json:"ok"`
	Node   model.Value   `json:"node"`
	Q      [][]int       `json:"q"`
	R      [][]int       `json:"r"`
	Alg    *PathAlg      `json:"alg"`
}

// PathAlg: what PathsGen!AlgExpect prescribes for the derived paths of an "alg" probe.
type PathAlg struct {
	Parent [][]int `json:"parent"`
	J1     [][]int `json:"j1"`
	J2     [][]int `json:"j2"`
	A1     [][]int `json:"a1"`
	A2     [][]int `json:"a2"`
	JJ     [][]int `json:"jj"`
	Tail   [][]int `json:"tail"`
	Last   []int   `json:"last"`
}

func ReplayPathProbe(p *PathProbe) (*run.Finding, int) {
	fail := func(target, rule, class, detail string) *run.Finding {
		return &run.Finding{Step: -1, Target: target, Rule: rule, Class: class, Detail: detail}
	}
	switch p.Kind {
	case "alg":
		// Paths are values.  Derive several paths from SHARED parents (the way nested Focus calls and walks do), then
		// look at all of them -- operands included -- once everything has been derived.
		var P, Q, R, parent, j1, j2, a1, a2, jj, tail datamodel.Path
		var last datamodel.PathSegment
		if pn := model.Safe(func() {
			P, Q, R = pathOf(p.Path), pathOf(p.Q), pathOf(p.R)
			parent = P.Parent()
			j1 = parent.Join(Q)
			j2 = parent.Join(R)
			t := P.Truncate(1)
			a1 = t.AppendSegment(Q.Segments()[0])
			a2 = t.AppendSegment(R.Segments()[0])
			jj = j1.Join(R)
			_ = j1.Join(Q) // a second child of j1, derived after jj
			last = P.Last()
			_, tail = P.Shift()
			_ = P.Pop().AppendSegmentString("overwritten?")
		}); pn != nil {
			return fail("datamodel.Path", "PathsAreValues", "panic", fmt.Sprintf("%q, %q, %q: %v", pathSegs(p.Path), pathSegs(p.Q), pathSegs(p.R), pn)), 1
		}
		checks := 0
		for _, c := range []struct {
			name string
			got  datamodel.Path
			want [][]int
		}{{"the operand p", P, p.Path}, {"the operand q", Q, p.Q}, {"the operand r", R, p.R}, {"p.Parent()", parent, p.Alg.Parent},
			{"p.Parent().Join(q)", j1, p.Alg.J1}, {"p.Parent().Join(r)", j2, p.Alg.J2}, {"p.Truncate(1).AppendSegment(q[0])", a1, p.Alg.A1},
			{"p.Truncate(1).AppendSegment(r[0])", a2, p.Alg.A2}, {"p.Parent().Join(q).Join(r)", jj, p.Alg.JJ}, {"tail of p.Shift()", tail, p.Alg.Tail}} {
			checks++
			if fmt.Sprint(segStrings(c.got)) != fmt.Sprint(pathSegs(c.want)) {
				return fail("datamodel.Path", "PathsAreValues", "different-path", fmt.Sprintf("p=%q q=%q r=%q: %s reads %q after all paths were derived, specification %q",
					pathSegs(p.Path), pathSegs(p.Q), pathSegs(p.R), c.name, segStrings(c.got), pathSegs(c.want))), checks
			}
		}
		if last.String() != string(model.Bytes(p.Alg.Last)) {
			return fail("datamodel.Path", "PathsAreValues", "different-segment", fmt.Sprintf("p.Last() = %q, specification %q", last.String(), string(model.Bytes(p.Alg.Last)))), checks
		}
		return nil, checks + 1
	case "parse":
		s := string(model.Bytes(p.Joined))
		var back datamodel.Path
		if pn := model.Safe(func() { back = datamodel.ParsePath(s) }); pn != nil {
			return fail("datamodel.ParsePath", "SplitStr", "panic", fmt.Sprintf("string %q: %v", s, pn)), 1
		}
		if fmt.Sprint(pathSegs(p.Split)) != fmt.Sprint(segStrings(back)) {
			return fail("datamodel.ParsePath", "SplitStr", "different-segments", fmt.Sprintf("string %q: spec %q, implementation %q", s, pathSegs(p.Split), segStrings(back))), 1
		}
		return nil, 1
	case "str":
		path := pathOf(p.Path)
		var s string
		var back datamodel.Path
		if pn := model.Safe(func() { s = path.String(); back = datamodel.ParsePath(s) }); pn != nil {
			return fail("datamodel.Path", "String/ParsePath", "panic", fmt.Sprint(pn)), 1
		}
		if s != string(model.Bytes(p.Joined)) {
			return fail("datamodel.Path.String", "JoinSegs", "different-string", fmt.Sprintf("segments %q: spec %q, implementation %q", pathSegs(p.Path), string(model.Bytes(p.Joined)), s)), 1
		}
		if fmt.Sprint(pathSegs(p.Split)) != fmt.Sprint(segStrings(back)) {
			return fail("datamodel.ParsePath", "SplitStr", "different-segments", fmt.Sprintf("string %q: spec %q, implementation %q", s, pathSegs(p.Split), segStrings(back))), 2
		}
		return nil, 2
	case "get":
		gr, err := BuildGraph(p.G)
		if err != nil {
			return fail("harness", "build-graph", "error", err.Error()), 0
		}
		cfg := &traversal.Config{LinkSystem: gr.LS, LinkTargetNodePrototypeChooser: func(datamodel.Link, linking.LinkContext) (datamodel.NodePrototype, error) {
			return basicnode.Prototype.Any, nil
		}}
		rule := "Resolve:found"
		if !p.Ok {
			rule = "Resolve:fails"
		}
		for _, via := range []string{"Get", "Focus"} {
			var got datamodel.Node
			var gerr error
			if pn := model.Safe(func() {
				if via == "Get" {
					got, gerr = traversal.Progress{Cfg: cfg}.Get(gr.Root, pathOf(p.Path))
				} else {
					gerr = traversal.Progress{Cfg: cfg}.Focus(gr.Root, pathOf(p.Path), func(_ traversal.Progress, n datamodel.Node) error { got = n; return nil })
				}
			}); pn != nil {
				return fail("traversal."+via, rule, "panic", fmt.Sprintf("path %q: %v", pathString(p.Path), pn)), 1
			}
			if p.Ok {
				if gerr != nil {
					return fail("traversal."+via, rule, "error", fmt.Sprintf("path %q: %v", pathString(p.Path), gerr)), 1
				}
				want, _ := resolveLinks(p.Node, gr.Links)
				gv, perr := model.Project(got)
				// the node AT a path whose last step is a link: Get returns the link node itself
				if perr != nil || (!gv.Equal(want) && gv.K != "link") {
					return fail("traversal."+via, rule, "different-node", fmt.Sprintf("path %q: got %v (%v), spec %v", pathString(p.Path), gv, perr, want)), 1
				}
			} else if gerr == nil {
				gv, _ := model.Project(got)
				return fail("traversal."+via, rule, "found", fmt.Sprintf("path %q resolved to %v", pathString(p.Path), gv)), 1
			}
		}
		return nil, 2
	}
	return fail("harness", "probe-kind", "error", p.Kind), 0
}

func pathSegs(p [][]int) []string {
	out := make([]string, len(p))
	for i, s := range p {
		out[i] = string(model.Bytes(s))
	}
	return out
}

func segStrings(p datamodel.Path) []string {
	var out []string
	for _, s := range p.Segments() {
		out = append(out, s.String())
	}
	if out == nil {
		out = []string{}
	}
	return out
}
