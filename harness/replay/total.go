package replay

import (
	"bytes"
	"errors"
	"fmt"
	"github.com/ipld/go-ipld-prime/linking/preload"
	"math/rand"
	"runtime"
	"runtime/debug"
	"time"

	"github.com/ipld/go-ipld-prime/codec/cbor"
	"github.com/ipld/go-ipld-prime/codec/dagcbor"
	"github.com/ipld/go-ipld-prime/codec/dagjson"
	"github.com/ipld/go-ipld-prime/codec/json"
	"github.com/ipld/go-ipld-prime/codec/raw"
	"github.com/ipld/go-ipld-prime/datamodel"
	"github.com/ipld/go-ipld-prime/linking"
	"github.com/ipld/go-ipld-prime/node/basicnode"
	"github.com/ipld/go-ipld-prime/node/bindnode"
	"github.com/ipld/go-ipld-prime/traversal"
	"github.com/ipld/go-ipld-prime/traversal/selector"

	"verifharness/model"
	"verifharness/run"
)

// ---- a counting assembler: wraps any assembler and records the nesting it is driven to and the size hints

type depthStats struct {
	maxDepth int
	maxHint  int64
}

type cntAsm struct {
	datamodel.NodeAssembler
	st    *depthStats
	depth int
}

func (a cntAsm) BeginMap(hint int64) (datamodel.MapAssembler, error) {
	if hint > a.st.maxHint {
		a.st.maxHint = hint
	}
	if a.depth+1 > a.st.maxDepth {
		a.st.maxDepth = a.depth + 1
	}
	ma, err := a.NodeAssembler.BeginMap(hint)
	if err != nil {
		return nil, err
	}
	return cntMap{ma, a.st, a.depth + 1}, nil
}
func (a cntAsm) BeginList(hint int64) (datamodel.ListAssembler, error) {
	if hint > a.st.maxHint {
		a.st.maxHint = hint
	}
	if a.depth+1 > a.st.maxDepth {
		a.st.maxDepth = a.depth + 1
	}
	la, err := a.NodeAssembler.BeginList(hint)
	if err != nil {
		return nil, err
	}
	return cntList{la, a.st, a.depth + 1}, nil
}

type cntMap struct {
	datamodel.MapAssembler
	st    *depthStats
	depth int
}

func (m cntMap) AssembleValue() datamodel.NodeAssembler {
	return cntAsm{m.MapAssembler.AssembleValue(), m.st, m.depth}
}
func (m cntMap) AssembleEntry(k string) (datamodel.NodeAssembler, error) {
	va, err := m.MapAssembler.AssembleEntry(k)
	if err != nil {
		return nil, err
	}
	return cntAsm{va, m.st, m.depth}, nil
}

type cntList struct {
	datamodel.ListAssembler
	st    *depthStats
	depth int
}

func (l cntList) AssembleValue() datamodel.NodeAssembler {
	return cntAsm{l.ListAssembler.AssembleValue(), l.st, l.depth}
}

// CborCfg is one decoder configuration.
type CborCfg struct {
	MaxDepth, Budget, Prealloc         int64
	Relaxed, Links, DontParseBeyondEnd bool
}

func (c CborCfg) String() string {
	return fmt.Sprintf("depth=%d budget=%d prealloc=%d relaxed=%v links=%v stopAtEnd=%v", c.MaxDepth, c.Budget, c.Prealloc, c.Relaxed, c.Links, c.DontParseBeyondEnd)
}

func (c CborCfg) opts() dagcbor.DecodeOptions {
	return dagcbor.DecodeOptions{AllowLinks: c.Links, RelaxedDecode: c.Relaxed, DontParseBeyondEnd: c.DontParseBeyondEnd,
		AllocationBudget: c.Budget, MaxCollectionPrealloc: c.Prealloc, MaxDepth: c.MaxDepth}
}

// CborCfgMatrix: every setting of depth limit, allocation budget, preallocation cap, strict/relaxed, links, stop-at-end.
func CborCfgMatrix() []CborCfg {
	var out []CborCfg
	for _, d := range []int64{1, 2, 3, 0} {
		for _, b := range []int64{1, 16, 64, 65536, 0} {
			for _, p := range []int64{1, 65536, 0} {
				for _, flags := range []int{0, 1, 2, 4, 7} {
					out = append(out, CborCfg{d, b, p, flags&1 != 0, flags&2 == 0, flags&4 != 0})
				}
			}
		}
	}
	return out
}

const defaultBudget = 1048576 * 10
const defaultDepth = 1024
const defaultPrealloc = 1024

// watchdog runs f with a deadline; returns (panic value, timed out).
func watchdog(d time.Duration, f func()) (interface{}, bool) {
	done := make(chan interface{}, 1)
	go func() {
		var p interface{}
		defer func() { done <- p }()
		p = model.Safe(f)
	}()
	select {
	case p := <-done:
		return p, false
	case <-time.After(d):
		return nil, true
	}
}

// CheckCborTotal: one input under one configuration: no panic, terminates, depth and hints bounded,
// and (for inputs that claim large lengths) allocation bounded.
func CheckCborTotal(inp []byte, cfg CborCfg, measureAlloc bool) *run.Finding {
	target := "dagcbor.Decode"
	fail := func(rule, class, detail string) *run.Finding {
		return &run.Finding{Step: -1, Target: target, Rule: rule, Class: class, Detail: fmt.Sprintf("input %x (%d bytes) under %s: %s", clipBytes(inp), len(inp), cfg, detail)}
	}
	st := &depthStats{}
	var before, after runtime.MemStats
	if measureAlloc {
		debug.SetGCPercent(-1)
		runtime.ReadMemStats(&before)
	}
	var err error
	p, timedOut := watchdog(20*time.Second, func() {
		nb := basicnode.Prototype.Any.NewBuilder()
		err = cfg.opts().Decode(cntAsm{nb, st, 0}, bytes.NewReader(inp))
	})
	if measureAlloc {
		runtime.ReadMemStats(&after)
		debug.SetGCPercent(100)
	}
	if timedOut {
		return fail("Terminates", "timeout", "no result after 20s")
	}
	if p != nil {
		return fail("NoPanic", "panic", fmt.Sprint(p))
	}
	maxDepth := cfg.MaxDepth
	if maxDepth == 0 {
		maxDepth = defaultDepth
	}
	if int64(st.maxDepth) > maxDepth {
		return fail("DepthBounded", "too-deep", fmt.Sprintf("assembler driven to nesting %d, MaxDepth %d (err=%v)", st.maxDepth, maxDepth, err))
	}
	prealloc := cfg.Prealloc
	if prealloc == 0 {
		prealloc = defaultPrealloc
	}
	if st.maxHint > prealloc {
		return fail("PreallocCapped", "hint-too-large", fmt.Sprintf("size hint %d, MaxCollectionPrealloc %d", st.maxHint, prealloc))
	}
	if measureAlloc {
		budget := cfg.Budget
		if budget == 0 {
			budget = defaultBudget
		}
		delta := int64(after.TotalAlloc - before.TotalAlloc)
		// the fixed multiple: a preallocated map entry costs on the order of 100 bytes per unit of budget
		bound := 256*budget + 256*int64(len(inp)) + 1024*1024
		if delta > bound {
			return fail("AllocationBounded", "over-allocation", fmt.Sprintf("allocated %d bytes, bound 256*budget + 256*len + 1MiB = %d (err=%v)", delta, bound, err))
		}
	}
	return nil
}

func clipBytes(b []byte) []byte {
	if len(b) > 48 {
		return b[:48]
	}
	return b
}

// HostileCbor: inputs whose heads claim far more than they deliver.
func HostileCbor() [][]byte {
	var out [][]byte
	big := [][]byte{{0x19, 0xff, 0xff}, {0x1a, 0x00, 0x0f, 0xff, 0xff}, {0x1a, 0xff, 0xff, 0xff, 0xff}, {0x1b, 0x7f, 0xff, 0xff, 0xff, 0xff, 0xff, 0xff, 0xff},
		{0x1b, 0x00, 0x00, 0x00, 0x01, 0x00, 0x00, 0x00, 0x00}, {0x19, 0x03, 0xe8}}
	for _, major := range []byte{0x40, 0x60, 0x80, 0xa0} {
		for _, h := range big {
			head := append([]byte{major | (h[0] & 0x1f)}, h[1:]...)
			out = append(out, head) // nothing follows
			out = append(out, append(append([]byte{}, head...), 0x01, 0x61, 0x61, 0x01))
			// nested: many levels each claiming a lot
			for _, levels := range []int{3, 40, 200} {
				var nested []byte
				for i := 0; i < levels; i++ {
					nested = append(nested, head...)
					if major == 0xa0 {
						nested = append(nested, 0x61, byte('a'+i%26)) // a key, then the next level as its value
					}
				}
				out = append(out, nested)
			}
		}
	}
	// nesting around every depth limit
	for _, d := range []int{1, 2, 3, 4, 1023, 1024, 1025, 5000} {
		out = append(out, append(bytes.Repeat([]byte{0x81}, d), 0x01))
		out = append(out, append(bytes.Repeat([]byte{0xa1, 0x61, 0x61}, d), 0x01))
		out = append(out, bytes.Repeat([]byte{0x81}, d)) // truncated
	}
	return out
}

// ---- other decoders: totality on mutants

type namedDecoder struct {
	name string
	dec  func(datamodel.NodeAssembler, []byte) error
}

func otherDecoders() []namedDecoder {
	return []namedDecoder{
		{"dagjson.Decode", func(na datamodel.NodeAssembler, b []byte) error { return dagjson.Decode(na, bytes.NewReader(b)) }},
		{"dagjson.Decode[MaxDepth=2,stopAtEnd]", func(na datamodel.NodeAssembler, b []byte) error {
			return dagjson.DecodeOptions{ParseLinks: true, ParseBytes: true, MaxDepth: 2, DontParseBeyondEnd: true}.Decode(na, bytes.NewReader(b))
		}},
		{"json.Decode", func(na datamodel.NodeAssembler, b []byte) error { return json.Decode(na, bytes.NewReader(b)) }},
		{"cbor.Decode", func(na datamodel.NodeAssembler, b []byte) error { return cbor.Decode(na, bytes.NewReader(b)) }},
		{"raw.Decode", func(na datamodel.NodeAssembler, b []byte) error { return raw.Decode(na, bytes.NewReader(b)) }},
	}
}

// JSON-ish seeds and their mutants
func jsonSeeds() [][]byte {
	return [][]byte{
		[]byte(`{"a":1,"b":[1,2.5,"x",null,true,{"/":{"bytes":"AQID"}}],"c":{"/":"bafkqaa3bmjrq"}}`),
		[]byte(`[[[[[[1]]]]]]`), []byte(`{"/":"x"}`), []byte(`{"/":{"bytes":"!!"}}`), []byte(`1e400`), []byte(`-0`), []byte(`"\ud800"`),
		[]byte(`{"a":{"a":{"a":{"a":1}}}}`), []byte(`123456789012345678901234567890`), []byte(`{"a":1,"a":2}`), []byte(``), []byte(`{`), []byte(`nul`),
		[]byte("\"\\u0000\xff\""), []byte(`{"/":{"bytes":"AQID"},"x":1}`), []byte(`{"/":[1,2]}`),
	}
}

func mutate(b []byte, rng *rand.Rand, n int) [][]byte {
	out := [][]byte{b}
	for i := 0; i <= len(b); i++ { // every truncation
		out = append(out, b[:i])
	}
	for i := 0; i < len(b); i++ { // a bit flip and a substitution at every offset
		m := append([]byte{}, b...)
		m[i] ^= 1 << uint(i%8)
		out = append(out, m)
		m2 := append([]byte{}, b...)
		m2[i] = []byte{'{', '}', '[', ']', '"', ',', ':', 0, 0xff, '9', 'e', '-', '/'}[i%13]
		out = append(out, m2)
	}
	for k := 0; k < n; k++ { // multi-point random mutations
		m := append([]byte{}, b...)
		for j := 0; j < 1+rng.Intn(4) && len(m) > 0; j++ {
			switch rng.Intn(3) {
			case 0:
				m[rng.Intn(len(m))] = byte(rng.Intn(256))
			case 1:
				i := rng.Intn(len(m))
				m = append(m[:i], m[i+1:]...)
			default:
				i := rng.Intn(len(m) + 1)
				m = append(m[:i], append([]byte{byte(rng.Intn(256))}, m[i:]...)...)
			}
		}
		out = append(out, m)
	}
	return out
}

// CheckOtherDecoders: totality (no panic, terminates, depth bound where configured) for dag-json, json, cbor, raw,
// into generic and typed assemblers.
func CheckOtherDecoders(seed int64, col *run.Collector) {
	rng := rand.New(rand.NewSource(seed))
	var inputs [][]byte
	for _, s := range jsonSeeds() {
		inputs = append(inputs, mutate(s, rng, 60)...)
	}
	// deep nesting
	for _, d := range []int{2, 3, 1023, 1024, 1025, 3000} {
		inputs = append(inputs, append(bytes.Repeat([]byte{'['}, d), bytes.Repeat([]byte{']'}, d)...))
		inputs = append(inputs, bytes.Repeat([]byte(`{"a":`), d))
	}
	// CBOR-shaped inputs for the plain cbor decoder
	for _, h := range HostileCbor() {
		inputs = append(inputs, h)
	}
	ts := histTypeSystem()
	typed := []datamodel.NodePrototype{basicnode.Prototype.Any, basicnode.Prototype.Map, basicnode.Prototype.String,
		bindnode.Prototype((*HTeam)(nil), ts.TypeByName("HTeam")).Representation(), bindnode.Prototype((*HPerson)(nil), ts.TypeByName("HPerson"))}
	for _, d := range otherDecoders() {
		for ii, inp := range inputs {
			np := typed[ii%len(typed)]
			st := &depthStats{}
			var err error
			p, timedOut := watchdog(20*time.Second, func() {
				err = d.dec(cntAsm{np.NewBuilder(), st, 0}, inp)
			})
			key := fmt.Sprintf("%s/%x", d.name, inp)
			col.Case(key, 1, nil)
			fail := func(rule, class, detail string) {
				col.Add(run.Finding{Step: -1, Target: d.name, Rule: rule, Class: class, Detail: fmt.Sprintf("input %q (%d bytes) into %T: %s", clipBytes(inp), len(inp), np, detail)})
			}
			switch {
			case timedOut:
				fail("Terminates", "timeout", "no result after 20s")
			case p != nil:
				fail("NoPanic", "panic", fmt.Sprint(p))
			case d.name == "dagjson.Decode[MaxDepth=2,stopAtEnd]" && st.maxDepth > 2:
				fail("DepthBounded", "too-deep", fmt.Sprintf("nesting %d with MaxDepth 2 (err=%v)", st.maxDepth, err))
			case st.maxDepth > 1024:
				fail("DepthBounded", "too-deep", fmt.Sprintf("nesting %d with the default MaxDepth (err=%v)", st.maxDepth, err))
			}
		}
	}
}

// ---- selectors

// SelDmtCase is one line of specs/SelectorDmt.tla.
type SelDmtCase struct {
	Kind     string      `json:"kind"`
	Dmt      model.Value `json:"dmt"`
	Compiles bool        `json:"compiles"`
}

var selGraphs []*Graph

func selectorGraphs() []*Graph {
	if selGraphs != nil {
		return selGraphs
	}
	I := func(n int) model.Value {
		return model.Value{K: "int", A: []int{0, n}, Ks: [][]int{}, Vs: []model.Value{}}
	}
	S := func(s string) model.Value {
		return model.Value{K: "string", A: model.Ints([]byte(s)), Ks: [][]int{}, Vs: []model.Value{}}
	}
	L := func(b int) model.Value {
		return model.Value{K: "link", A: []int{b}, Ks: [][]int{}, Vs: []model.Value{}}
	}
	M := func(ks string, vs ...model.Value) model.Value {
		m := model.Value{K: "map", A: []int{}, Ks: [][]int{}, Vs: vs}
		for _, ch := range ks {
			m.Ks = append(m.Ks, []int{int(ch)})
		}
		return m
	}
	Li := func(vs ...model.Value) model.Value { return model.Value{K: "list", A: []int{}, Ks: [][]int{}, Vs: vs} }
	for _, g := range [][]model.Value{
		{M("abc", I(1), Li(I(10), S("hello"), Li(I(7))), M("a0", S("xyz"), I(2)))},
		{M("ab", L(2), Li(L(2), I(5))), M("ab", S("str"), Li(I(1), I(2), I(3)))},
		{S("root")},
		{Li()},
	} {
		gr, err := BuildGraph(g)
		if err == nil {
			selGraphs = append(selGraphs, gr)
		}
	}
	return selGraphs
}

// CheckSelectorDmt: compile (verdict compared for well-formed small selectors), then walk every graph; never panic, always end.
func CheckSelectorDmt(cs *SelDmtCase) *run.Finding {
	fail := func(target, rule, class, detail string) *run.Finding {
		return &run.Finding{Step: -1, Target: target, Rule: rule, Class: class, Detail: fmt.Sprintf("%s selector tree %v: %s", cs.Kind, cs.Dmt, detail)}
	}
	dmt, err := (model.Conc{}).BuildImpl("basic", cs.Dmt)
	if err != nil {
		return nil // a mutant that is not a data-model value at all (a repeated key): nothing to offer the compiler
	}
	var sel selector.Selector
	var cerr error
	p, timedOut := watchdog(15*time.Second, func() { sel, cerr = selector.CompileSelector(dmt) })
	if timedOut {
		return fail("selector.CompileSelector", "Terminates", "timeout", "no result after 15s")
	}
	if p != nil {
		return fail("selector.CompileSelector", "NoPanic", "panic", fmt.Sprint(p))
	}
	if cs.Kind == "wellformed" && cs.Compiles != (cerr == nil) {
		return fail("selector.CompileSelector", fmt.Sprintf("Compiles:%v", cs.Compiles), fmt.Sprintf("compiled:%v", cerr == nil), fmt.Sprint(cerr))
	}
	if cerr != nil || sel == nil {
		return nil
	}
	for gi, gr := range selectorGraphs() {
		var werr error
		p, timedOut := watchdog(15*time.Second, func() {
			werr = traversal.Progress{Cfg: &traversal.Config{LinkSystem: gr.LS, LinkTargetNodePrototypeChooser: func(datamodel.Link, linking.LinkContext) (datamodel.NodePrototype, error) {
				return basicnode.Prototype.Any, nil
			}}}.WalkAdv(gr.Root, sel, func(traversal.Progress, datamodel.Node, traversal.VisitReason) error { return nil })
		})
		if timedOut {
			return fail("traversal.WalkAdv", "Terminates", "timeout", fmt.Sprintf("graph #%d: no result after 15s", gi))
		}
		if p != nil {
			return fail("traversal.WalkAdv", "NoPanic", "panic", fmt.Sprintf("graph #%d: %v", gi, p))
		}
		_ = werr
		// the same walk under the non-default options of traversal.Config: a start path (every kind of node the walk
		// visited may be named: the root, an inner map or list, a leaf), visit-once, budgets, a preloader
		var paths []datamodel.Path
		seen := map[string]bool{}
		traversal.Progress{Cfg: &traversal.Config{LinkSystem: gr.LS, LinkTargetNodePrototypeChooser: func(datamodel.Link, linking.LinkContext) (datamodel.NodePrototype, error) {
			return basicnode.Prototype.Any, nil
		}}}.WalkAdv(gr.Root, sel, func(pr traversal.Progress, n datamodel.Node, _ traversal.VisitReason) error {
			k := fmt.Sprint(n.Kind()) // one start path per kind of node
			if !seen[k] || len(paths) < 3 {
				seen[k] = true
				paths = append(paths, pr.Path)
			}
			return nil
		})
		if len(paths) > 6 {
			paths = paths[:6]
		}
		type variant struct {
			name string
			set  func(c *traversal.Config, pr *traversal.Progress)
		}
		variants := []variant{
			{"LinkVisitOnlyOnce", func(c *traversal.Config, _ *traversal.Progress) { c.LinkVisitOnlyOnce = true }},
			{"budgets 3 / 1", func(_ *traversal.Config, pr *traversal.Progress) {
				pr.Budget = &traversal.Budget{NodeBudget: 3, LinkBudget: 1}
			}},
			{"a preloader", func(c *traversal.Config, _ *traversal.Progress) {
				c.Preloader = func(preload.PreloadContext, preload.Link) {}
			}},
		}
		for _, sp := range paths {
			sp := sp
			variants = append(variants, variant{fmt.Sprintf("StartAtPath %q", sp.String()), func(c *traversal.Config, _ *traversal.Progress) { c.StartAtPath = sp }})
			variants = append(variants, variant{fmt.Sprintf("StartAtPath %q with a preloader", sp.String()), func(c *traversal.Config, _ *traversal.Progress) {
				c.StartAtPath = sp
				c.Preloader = func(preload.PreloadContext, preload.Link) {}
			}})
		}
		for _, v := range variants {
			cfg := &traversal.Config{LinkSystem: gr.LS, LinkTargetNodePrototypeChooser: func(datamodel.Link, linking.LinkContext) (datamodel.NodePrototype, error) {
				return basicnode.Prototype.Any, nil
			}}
			prog := traversal.Progress{Cfg: cfg}
			v.set(cfg, &prog)
			p, timedOut := watchdog(15*time.Second, func() {
				prog.WalkAdv(gr.Root, sel, func(traversal.Progress, datamodel.Node, traversal.VisitReason) error { return nil })
			})
			if timedOut {
				return fail("traversal.WalkAdv["+v.name+"]", "Terminates", "timeout", fmt.Sprintf("graph #%d: no result after 15s", gi))
			}
			if p != nil {
				return fail("traversal.WalkAdv["+v.name+"]", "NoPanic", "panic", fmt.Sprintf("graph #%d: %v", gi, p))
			}
		}
	}
	return nil
}

var _ = errors.New
