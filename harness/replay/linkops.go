package replay

import (
	"bytes"
	"crypto/md5"
	"crypto/sha1"
	"crypto/sha256"
	"crypto/sha512"
	"fmt"
	"os"
	"path/filepath"

	"github.com/ipfs/go-cid"
	"github.com/ipld/go-ipld-prime/codec/dagcbor"
	"github.com/ipld/go-ipld-prime/datamodel"
	"github.com/ipld/go-ipld-prime/linking"
	cidlink "github.com/ipld/go-ipld-prime/linking/cid"
	"github.com/ipld/go-ipld-prime/multicodec"
	"github.com/ipld/go-ipld-prime/node/basicnode"
	"github.com/ipld/go-ipld-prime/node/bindnode"
	"github.com/ipld/go-ipld-prime/schema"
	"github.com/ipld/go-ipld-prime/storage/fsstore"
	"github.com/ipld/go-ipld-prime/storage/memstore"

	"verifharness/model"
	"verifharness/run"
)

func init() {
	// CIDv0 links carry the dag-pb codec, for which this module bundles no implementation: register
	// the dag-cbor functions under 0x70 in the harness process so that v0 prototypes can be exercised.
	multicodec.RegisterEncoder(0x70, dagcbor.Encode)
	multicodec.RegisterDecoder(0x70, dagcbor.Decode)
}

type LoStep struct {
	A   string `json:"a"`
	P   int    `json:"p"`
	V   int    `json:"v"`
	Var string `json:"var"`
	R   string `json:"r"`
}
type LoCase struct {
	Steps []LoStep `json:"steps"`
	// set on a witness so that the isolated reproduction uses the same concretisation
	Profile *int   `json:"profile,omitempty"`
	Backend string `json:"backend,omitempty"`
}

type protoSpec struct {
	name    string
	prefix  cid.Prefix
	sorting bool // the codec sorts map keys (insertion-order independence is promised)
	rawOnly bool
	noBytes bool // json / cbor-without-links value domain
}

var linkProtoCatalog = []protoSpec{
	{"dag-cbor/sha2-256", cid.Prefix{Version: 1, Codec: 0x71, MhType: 0x12, MhLength: -1}, true, false, false},
	{"dag-json/sha2-512", cid.Prefix{Version: 1, Codec: 0x0129, MhType: 0x13, MhLength: -1}, true, false, false},
	{"dag-cbor/identity", cid.Prefix{Version: 1, Codec: 0x71, MhType: 0x00, MhLength: -1}, true, false, false},
	{"dag-json/sha2-256-20", cid.Prefix{Version: 1, Codec: 0x0129, MhType: 0x12, MhLength: 20}, true, false, false},
	{"v0/dag-pb-as-dag-cbor/sha2-256", cid.Prefix{Version: 0, Codec: 0x70, MhType: 0x12, MhLength: -1}, true, false, false},
	{"dag-cbor/sha2-256-4", cid.Prefix{Version: 1, Codec: 0x71, MhType: 0x12, MhLength: 4}, true, false, false},
	{"cbor/sha1", cid.Prefix{Version: 1, Codec: 0x51, MhType: 0x11, MhLength: -1}, false, false, true},
	{"json/md5", cid.Prefix{Version: 1, Codec: 0x0200, MhType: 0xd5, MhLength: -1}, false, false, true},
	{"raw/sha2-256", cid.Prefix{Version: 1, Codec: 0x55, MhType: 0x12, MhLength: -1}, false, true, false},
	{"raw/identity", cid.Prefix{Version: 1, Codec: 0x55, MhType: 0x00, MhLength: -1}, false, true, false},
	{"dag-cbor/dbl-sha2-256", cid.Prefix{Version: 1, Codec: 0x71, MhType: 0x56, MhLength: -1}, true, false, false},
	{"dag-json/sha2-256", cid.Prefix{Version: 1, Codec: 0x0129, MhType: 0x12, MhLength: -1}, true, false, false},
	// an identity prototype carrying an explicit length, as Link.Prototype() of an earlier (shorter) identity link does
	{"dag-cbor/identity-len4", cid.Prefix{Version: 1, Codec: 0x71, MhType: 0x00, MhLength: 4}, true, false, false},
	{"raw/identity-len2", cid.Prefix{Version: 1, Codec: 0x55, MhType: 0x00, MhLength: 2}, false, true, false},
}

// NLinkProfiles is the number of (prototype pair, value pair) profiles.
const NLinkProfiles = 14

func loValue(profile, v int, ps protoSpec) model.Value {
	sv := func(k string, n int) model.Value {
		return model.Value{K: k, A: []int{n}, Ks: [][]int{}, Vs: []model.Value{}}
	}
	if ps.rawOnly {
		return sv("bytes", v+(profile%2)*2)
	}
	third := sv("bytes", 1)
	if ps.noBytes {
		third = sv("float", 1)
	}
	inner := model.Value{K: "map", A: []int{}, Ks: [][]int{{4}, {1}}, Vs: []model.Value{sv("bool", v), {K: "list", A: []int{}, Ks: [][]int{}, Vs: []model.Value{sv("int", v), sv("string", 3)}}}}
	switch (profile + v) % 3 {
	case 0:
		return model.Value{K: "map", A: []int{}, Ks: [][]int{{3}, {1}, {2}}, Vs: []model.Value{sv("int", v), sv("string", v), third}}
	case 1:
		return model.Value{K: "map", A: []int{}, Ks: [][]int{{2}, {5}, {1}}, Vs: []model.Value{inner, sv("int", v+2), sv("string", v)}}
	}
	link := sv("link", v)
	if ps.noBytes {
		link = sv("string", 4)
	}
	return model.Value{K: "list", A: []int{}, Ks: [][]int{}, Vs: []model.Value{inner, link, sv("int", v)}}
}

// independentHash computes the multihash digest with the standard library only.
func independentHash(code uint64, length int, data []byte) ([]byte, error) {
	var sum []byte
	switch code {
	case 0x00:
		sum = data
	case 0x11:
		s := sha1.Sum(data)
		sum = s[:]
	case 0x12:
		s := sha256.Sum256(data)
		sum = s[:]
	case 0x13:
		s := sha512.Sum512(data)
		sum = s[:]
	case 0x56:
		s := sha256.Sum256(data)
		s = sha256.Sum256(s[:])
		sum = s[:]
	case 0xd5:
		s := md5.Sum(data)
		sum = s[:]
	default:
		return nil, fmt.Errorf("harness: no independent hash for 0x%x", code)
	}
	if length >= 0 && code != 0 && length < len(sum) {
		sum = sum[:length]
	}
	return sum, nil
}

func uvarint(x uint64) []byte {
	var b []byte
	for x >= 0x80 {
		b = append(b, byte(x)|0x80)
		x >>= 7
	}
	return append(b, byte(x))
}

// independentCid assembles the binary CID from its parts without go-cid / go-multihash.
func independentCid(p cid.Prefix, data []byte) ([]byte, error) {
	digest, err := independentHash(p.MhType, p.MhLength, data)
	if err != nil {
		return nil, err
	}
	mh := append(append(uvarint(p.MhType), uvarint(uint64(len(digest)))...), digest...)
	if p.Version == 0 {
		return mh, nil
	}
	return append(append(uvarint(1), uvarint(p.Codec)...), mh...), nil
}

// ReplayLinkOps replays one history of LinkOps.tla.
func ReplayLinkOps(cs *LoCase, profile int, backend string, scratch string) (*run.Finding, int) {
	conc := model.Conc{Sym: true, Profile: profile % model.NProfiles}
	protos := []protoSpec{linkProtoCatalog[profile%len(linkProtoCatalog)], linkProtoCatalog[(profile*5+3)%len(linkProtoCatalog)]}
	if protos[0].name == protos[1].name {
		protos[1] = linkProtoCatalog[(profile+1)%len(linkProtoCatalog)]
	}
	checks := 0
	for _, ps := range protos {
		// the JSON codecs are only specified for valid UTF-8 strings and keys: keep profile 2 (invalid UTF-8) away
		if (ps.prefix.Codec == 0x0129 || ps.prefix.Codec == 0x0200) && conc.Profile == 2 {
			conc.Profile = 3
		}
		// identity links embed the whole block: such keys exceed file-name limits, which a filesystem
		// store may refuse (outside the property); use the in-memory store for them
		if ps.prefix.MhType == 0 && backend == "fsstore" {
			backend = "memstore"
		}
	}
	fail := func(i int, target, rule, class, detail string) *run.Finding {
		return &run.Finding{Step: i, Target: target, Rule: rule, Class: class,
			Detail: fmt.Sprintf("profile %d (prototypes %s, %s; storage %s): %s", profile, protos[0].name, protos[1].name, backend, detail)}
	}
	ls := cidlink.DefaultLinkSystem()
	switch backend {
	case "memstore":
		st := &memstore.Store{}
		ls.SetReadStorage(st)
		ls.SetWriteStorage(st)
	case "cidlink.Memory":
		m := &cidlink.Memory{}
		ls.StorageReadOpener = m.OpenRead
		ls.StorageWriteOpener = m.OpenWrite
	case "fsstore":
		dir, err := os.MkdirTemp(scratch, "lo-")
		if err != nil {
			return fail(-1, "harness", "mkdir", "error", err.Error()), 0
		}
		defer os.RemoveAll(dir)
		st := &fsstore.Store{}
		if err := st.InitDefaults(filepath.Join(dir)); err != nil {
			return fail(-1, "harness", "fsstore-init", "error", err.Error()), 0
		}
		ls.SetReadStorage(st)
		ls.SetWriteStorage(st)
	}
	// the one value whose block is EMPTY (the raw codec with the empty byte string): stored, linked and loaded back by every
	// load operation before the history starts (LinkOps!LoadAfterStore holds for every value, the empty block included)
	for _, ps := range protos {
		if !ps.rawOnly {
			continue
		}
		lp := cidlink.LinkPrototype{Prefix: ps.prefix}
		target := "LinkSystem[" + ps.name + "]"
		var stage string
		var err error
		if p := model.Safe(func() {
			empty := basicnode.NewBytes([]byte{})
			var lnk datamodel.Link
			stage = "Store"
			if lnk, err = ls.Store(linking.LinkContext{}, lp, empty); err != nil {
				return
			}
			want, werr := independentCid(ps.prefix, []byte{})
			if werr == nil && lnk.Binary() != string(want) {
				err = fmt.Errorf("link %x, independently computed %x", lnk.Binary(), want)
				return
			}
			stage = "LoadRaw"
			var raw []byte
			if raw, err = ls.LoadRaw(linking.LinkContext{}, lnk); err != nil {
				return
			}
			if len(raw) != 0 {
				err = fmt.Errorf("%d raw bytes", len(raw))
				return
			}
			stage = "LoadPlusRaw"
			var n datamodel.Node
			if n, raw, err = ls.LoadPlusRaw(linking.LinkContext{}, lnk, basicnode.Prototype.Any); err != nil {
				return
			}
			if b, berr := n.AsBytes(); berr != nil || len(b) != 0 || len(raw) != 0 {
				err = fmt.Errorf("node %v (%v), %d raw bytes", b, berr, len(raw))
				return
			}
			stage = "Load"
			if n, err = ls.Load(linking.LinkContext{}, lnk, basicnode.Prototype.Any); err != nil {
				return
			}
			if b, berr := n.AsBytes(); berr != nil || len(b) != 0 {
				err = fmt.Errorf("node %v (%v)", b, berr)
			}
		}); p != nil {
			return fail(-1, target, "LoadAfterStore(empty block)/"+stage, "panic", fmt.Sprint(p)), checks
		}
		checks += 4
		if err != nil {
			return fail(-1, target, "LoadAfterStore(empty block)/"+stage, "error", err.Error()), checks
		}
	}
	build := func(ps protoSpec, v int, variant string) (datamodel.Node, error) {
		val := loValue(profile, v, ps)
		switch variant {
		case "a":
			return conc.BuildImpl("basic", val)
		case "b":
			if ps.sorting {
				return conc.BuildImpl("basic-typed", reverseOrder(val))
			}
			return conc.BuildImpl("basic-typed", val)
		default:
			if ps.sorting && val.K == "map" && allScalar(val) {
				// a schema-typed node (struct with tuple representation), handed over at type level:
				// its data-model value is the same map, so its link must be the same
				// (only where the keys are usable as inferred Go field names)
				if n, err := typedStruct(conc, val); err == nil {
					return n, nil
				}
			}
			if ps.sorting {
				return conc.BuildImpl("foreign", reverseOrder(val))
			}
			if ps.rawOnly {
				return conc.BuildImpl("bind", val)
			}
			return conc.BuildImpl("foreign", val)
		}
	}
	type seen struct {
		p, v int
		link string
	}
	var links []seen
	expected := map[[2]int][]byte{} // independent CID per (p, v)
	refused := refusedMidDocument()
	for i, s := range cs.Steps {
		ps := protos[s.P-1]
		lp := cidlink.LinkPrototype{Prefix: ps.prefix}
		target := "LinkSystem." + s.A + "[" + ps.name + "]"
		// Every other step is preceded by operations that FAIL part way through a block (a node the codec must refuse
		// after it has written something): a failed ComputeLink / Store leaves nothing behind -- the link of the next
		// value is the function of (prototype, value) it always is.
		if (i+profile)%2 == 0 {
			r := refused[(i+profile/2)%len(refused)]
			model.Safe(func() {
				ls.ComputeLink(lp, r)
				ls.Store(linking.LinkContext{}, lp, r)
			})
		}
		// the independently computed link for (p, v)
		key := [2]int{s.P, s.V}
		if _, ok := expected[key]; !ok {
			n, err := build(ps, s.V, "a")
			if err != nil {
				return fail(i, "harness", "build", "error", err.Error()), checks
			}
			enc, err := multicodec.LookupEncoder(ps.prefix.Codec)
			if err != nil {
				return fail(i, "harness", "encoder", "error", err.Error()), checks
			}
			var buf bytes.Buffer
			if err := enc(n, &buf); err != nil {
				return fail(i, "harness", "encode", "error", err.Error()), checks
			}
			c, err := independentCid(ps.prefix, buf.Bytes())
			if err != nil {
				return fail(i, "harness", "independent-cid", "error", err.Error()), checks
			}
			expected[key] = c
		}
		var got datamodel.Link
		switch s.A {
		case "Store", "ComputeLink":
			n, err := build(ps, s.V, s.Var)
			if err != nil {
				return fail(i, "harness", "build", "error", err.Error()), checks
			}
			var lerr error
			if p := model.Safe(func() {
				if s.A == "Store" {
					got, lerr = ls.Store(linking.LinkContext{}, lp, n)
				} else {
					got, lerr = ls.ComputeLink(lp, n)
				}
			}); p != nil {
				return fail(i, target, s.A+":ok", "panic", fmt.Sprint(p)), checks
			}
			if lerr != nil {
				return fail(i, target, s.A+":ok", "error", lerr.Error()), checks
			}
			checks++
			// (a) relational: equal links iff same (prototype, value)
			for _, prev := range links {
				same := prev.p == s.P && prev.v == s.V
				if same != (prev.link == got.Binary()) {
					rule := "LinkIsFunctionOfValueAndPrototype"
					class := "same-input-different-link"
					if !same {
						class = "different-input-same-link"
					}
					return fail(i, target, rule, class, fmt.Sprintf("variant %q of value %d: link %s vs earlier link for (p%d,v%d)", s.Var, s.V, got, prev.p, prev.v)), checks
				}
				checks++
			}
			links = append(links, seen{s.P, s.V, got.Binary()})
			// (b) against the independently assembled CID
			if got.Binary() != string(expected[key]) {
				return fail(i, target, "link = prefix + multihash(hash(canonical bytes))", "different-cid",
					fmt.Sprintf("variant %q: library %x, independent %x", s.Var, got.Binary(), expected[key])), checks
			}
			checks++
		default: // loads
			c, err := cid.Cast(expected[key])
			if err != nil {
				return fail(i, "harness", "cast", "error", err.Error()), checks
			}
			lnk := cidlink.Link{Cid: c}
			var node datamodel.Node
			var raw []byte
			var lerr error
			if p := model.Safe(func() {
				switch s.A {
				case "Load":
					node, lerr = ls.Load(linking.LinkContext{}, lnk, basicnode.Prototype.Any)
				case "LoadRaw":
					raw, lerr = ls.LoadRaw(linking.LinkContext{}, lnk)
				case "LoadPlusRaw":
					node, raw, lerr = ls.LoadPlusRaw(linking.LinkContext{}, lnk, basicnode.Prototype.Any)
				case "Fill":
					nb := basicnode.Prototype.Any.NewBuilder()
					lerr = ls.Fill(linking.LinkContext{}, lnk, nb)
					if lerr == nil {
						node = nb.Build()
					}
				}
			}); p != nil {
				return fail(i, target, s.A+":"+s.R, "panic", fmt.Sprint(p)), checks
			}
			checks++
			if s.R == "notfound" {
				// cidlink.Memory keys blocks by multihash only: a block stored under another prototype
				// with the same multihash is legitimately found (documented); only assert when unambiguous
				if lerr == nil && backend != "cidlink.Memory" {
					return fail(i, target, s.A+":notfound", "found", "a block never stored was loaded"), checks
				}
				continue
			}
			if lerr != nil {
				return fail(i, target, s.A+":ok", "error", lerr.Error()), checks
			}
			if node != nil {
				l2, err := ls.ComputeLink(lp, node)
				if err != nil || l2.Binary() != lnk.Binary() {
					return fail(i, target, "LoadAfterStore", "different-node", fmt.Sprintf("the loaded node re-links to %v (%v), stored under %v", l2, err, lnk)), checks
				}
				want, _ := conc.Concretise(loValue(profile, s.V, ps))
				gotv, perr := model.Project(node)
				if perr != nil {
					return fail(i, target, "LoadAfterStore", "unreadable-node", perr.Error()), checks
				}
				if !sortedEqual(gotv, want) {
					return fail(i, target, "LoadAfterStore", "different-value", fmt.Sprintf("loaded %v, stored %v", gotv, want)), checks
				}
				checks += 2
			}
			if raw != nil || s.A == "LoadRaw" || s.A == "LoadPlusRaw" {
				c2, err := independentCid(ps.prefix, raw)
				if err != nil || !bytes.Equal(c2, expected[key]) {
					return fail(i, target, "raw bytes hash to the link", "different-bytes", fmt.Sprintf("raw %x", raw)), checks
				}
				checks++
			}
		}
	}
	return nil, checks
}

// sortedEqual compares two concrete values up to the entry order of maps.
func sortedEqual(a, b model.Value) bool {
	if a.K != b.K || len(a.Vs) != len(b.Vs) {
		return false
	}
	switch a.K {
	case "map":
		for i := range a.Ks {
			found := false
			for j := range b.Ks {
				if bytes.Equal(model.Bytes(a.Ks[i]), model.Bytes(b.Ks[j])) {
					if !sortedEqual(a.Vs[i], b.Vs[j]) {
						return false
					}
					found = true
				}
			}
			if !found {
				return false
			}
		}
		return true
	case "list":
		for i := range a.Vs {
			if !sortedEqual(a.Vs[i], b.Vs[i]) {
				return false
			}
		}
		return true
	}
	return bytes.Equal(model.Bytes(a.A), model.Bytes(b.A))
}

func allScalar(v model.Value) bool {
	for _, c := range v.Vs {
		if c.K == "map" || c.K == "list" || c.K == "null" {
			return false
		}
	}
	return len(v.Vs) > 0
}

// typedStruct builds v (a map of scalars) as a bindnode struct whose representation is a tuple.
func typedStruct(c model.Conc, v model.Value) (datamodel.Node, error) {
	ts := new(schema.TypeSystem)
	ts.Init()
	ts.Accumulate(schema.SpawnBool("Bool"))
	ts.Accumulate(schema.SpawnInt("Int"))
	ts.Accumulate(schema.SpawnFloat("Float"))
	ts.Accumulate(schema.SpawnString("String"))
	ts.Accumulate(schema.SpawnBytes("Bytes"))
	ts.Accumulate(schema.SpawnLink("Link"))
	tn := map[string]string{"bool": "Bool", "int": "Int", "float": "Float", "string": "String", "bytes": "Bytes", "link": "Link"}
	var fields []schema.StructField
	for i := range v.Vs {
		fields = append(fields, schema.SpawnStructField(c.Key(v.Ks[i]), tn[v.Vs[i].K], false, false))
	}
	ts.Accumulate(schema.SpawnStruct("T", fields, schema.SpawnStructRepresentationTuple()))
	if errs := ts.ValidateGraph(); len(errs) > 0 {
		return nil, fmt.Errorf("typedStruct: %v", errs)
	}
	var n datamodel.Node
	var err error
	if p := model.Safe(func() {
		nb := bindnode.Prototype(nil, ts.TypeByName("T")).NewBuilder()
		err = c.BuildInto(nb, v)
		if err == nil {
			n = nb.Build()
		}
	}); p != nil {
		return nil, fmt.Errorf("typedStruct: panic %v", p)
	}
	return n, err
}
