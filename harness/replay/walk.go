package replay

import (
	"encoding/json"
	"errors"
	"fmt"
	"github.com/ipld/go-ipld-prime/linking/preload"
	"io"
	"strings"
	"sync"
	"sync/atomic"

	"github.com/ipld/go-ipld-prime/datamodel"
	"github.com/ipld/go-ipld-prime/linking"
	cidlink "github.com/ipld/go-ipld-prime/linking/cid"
	"github.com/ipld/go-ipld-prime/node/basicnode"
	"github.com/ipld/go-ipld-prime/storage/memstore"
	"github.com/ipld/go-ipld-prime/traversal"
	"github.com/ipld/go-ipld-prime/traversal/selector"

	"github.com/ipfs/go-cid"

	"verifharness/model"
	"verifharness/run"
)

// SelAST mirrors the selector records of specs/Selector.tla.
type SelAST struct {
	T  string   `json:"t"`
	A  []int    `json:"a"`
	Ks [][]int  `json:"ks"`
	Ss []SelAST `json:"ss"`
}

type WalkCfg struct {
	Nb    int     `json:"nb"`
	Lb    int     `json:"lb"`
	Start [][]int `json:"start"`
	Once  bool    `json:"once"`
	Skip  []bool  `json:"skip"` // per block id (1-based index i -> Skip[i-1])
	// Preload: configure a Preloader (set by the harness for the second run of uncontrolled walks; not part of a case)
	Preload bool `json:"-"`
}

type WalkVisit struct {
	Path   [][]int     `json:"path"`
	Reason string      `json:"reason"`
	Node   model.Value `json:"node"`
}

type WalkCase struct {
	G      []model.Value `json:"g"`
	Sel    SelAST        `json:"sel"`
	Cfg    WalkCfg       `json:"cfg"`
	Visits []WalkVisit   `json:"visits"`
	Loads  []int         `json:"loads"`
	Err    []interface{} `json:"err"`
	// Compiles: Selector!Compiles of the selector (absent in old case files: true)
	Compiles *bool `json:"compiles,omitempty"`
}

// Graph is a concretised graph: real blocks in a real store.
type Graph struct {
	Root     datamodel.Node
	Store    *memstore.Store
	LS       linking.LinkSystem
	Links    []datamodel.Link // per block (index b-1); Links[0] is the root block's own link
	BlockOf  map[string]int   // link binary -> block id
	Concrete []model.Value    // the blocks with links resolved to CID bytes
}

var linkProto = cidlink.LinkPrototype{Prefix: cid.Prefix{Version: 1, Codec: 0x71, MhType: 0x12, MhLength: -1}}

// resolveLinks rewrites link payloads <<b>> into the CID bytes of block b.
func resolveLinks(v model.Value, links []datamodel.Link) (model.Value, error) {
	out := model.Value{K: v.K, A: v.A, Ks: v.Ks, Vs: make([]model.Value, len(v.Vs))}
	if v.K == "link" {
		b := v.A[0]
		if b < 1 || b > len(links) || links[b-1] == nil {
			return out, fmt.Errorf("link to block %d which is not built yet (graphs must link to higher-numbered blocks)", b)
		}
		out.A = model.Ints(links[b-1].(cidlink.Link).Cid.Bytes())
	}
	for i, c := range v.Vs {
		r, err := resolveLinks(c, links)
		if err != nil {
			return out, err
		}
		out.Vs[i] = r
	}
	return out, nil
}

// reifyRev is the ADL "rev" of Selector!Reify: a list with its elements, a map with its entries, in reverse order (the
// children themselves are kept as they are); every other node is itself.
func reifyRev(_ linking.LinkContext, n datamodel.Node, _ *linking.LinkSystem) (datamodel.Node, error) {
	switch n.Kind() {
	case datamodel.Kind_List:
		var items []datamodel.Node
		for itr := n.ListIterator(); !itr.Done(); {
			_, v, err := itr.Next()
			if err != nil {
				return nil, err
			}
			items = append(items, v)
		}
		nb := basicnode.Prototype.List.NewBuilder()
		la, _ := nb.BeginList(int64(len(items)))
		for i := len(items) - 1; i >= 0; i-- {
			if err := la.AssembleValue().AssignNode(items[i]); err != nil {
				return nil, err
			}
		}
		la.Finish()
		return nb.Build(), nil
	case datamodel.Kind_Map:
		var ks, vs []datamodel.Node
		for itr := n.MapIterator(); !itr.Done(); {
			k, v, err := itr.Next()
			if err != nil {
				return nil, err
			}
			ks, vs = append(ks, k), append(vs, v)
		}
		nb := basicnode.Prototype.Map.NewBuilder()
		ma, _ := nb.BeginMap(int64(len(ks)))
		for i := len(ks) - 1; i >= 0; i-- {
			if err := ma.AssembleKey().AssignNode(ks[i]); err != nil {
				return nil, err
			}
			if err := ma.AssembleValue().AssignNode(vs[i]); err != nil {
				return nil, err
			}
		}
		ma.Finish()
		return nb.Build(), nil
	}
	return n, nil
}

// BuildGraph stores the blocks bottom-up and returns the concretised graph.
// The root block is handed to the walk as built (insertion order kept); linked blocks are loaded
// through dag-cbor, so their maps must be given in canonical order by the specification's catalogue.
func BuildGraph(g []model.Value) (*Graph, error) {
	gr := &Graph{Store: &memstore.Store{}, Links: make([]datamodel.Link, len(g)), BlockOf: map[string]int{}, Concrete: make([]model.Value, len(g))}
	gr.LS = cidlink.DefaultLinkSystem()
	gr.LS.SetReadStorage(gr.Store)
	gr.LS.SetWriteStorage(gr.Store)
	gr.LS.KnownReifiers = map[string]linking.NodeReifier{"rev": reifyRev}
	conc := model.Conc{}
	for b := len(g); b >= 1; b-- {
		cv, err := resolveLinks(g[b-1], gr.Links)
		if err != nil {
			return nil, err
		}
		gr.Concrete[b-1] = cv
		n, err := conc.BuildImpl("basic", cv)
		if err != nil {
			return nil, err
		}
		lnk, err := gr.LS.Store(linking.LinkContext{}, linkProto, n)
		if err != nil {
			return nil, err
		}
		gr.Links[b-1] = lnk
		gr.BlockOf[lnk.Binary()] = b
		if b == 1 {
			gr.Root = n
		}
	}
	return gr, nil
}

func mapNode(kv ...interface{}) datamodel.Node {
	nb := basicnode.Prototype.Map.NewBuilder()
	ma, _ := nb.BeginMap(int64(len(kv) / 2))
	for i := 0; i < len(kv); i += 2 {
		va, _ := ma.AssembleEntry(kv[i].(string))
		switch x := kv[i+1].(type) {
		case datamodel.Node:
			va.AssignNode(x)
		case int:
			va.AssignInt(int64(x))
		case int64:
			va.AssignInt(x)
		case string:
			va.AssignString(x)
		}
	}
	ma.Finish()
	return nb.Build()
}

// SelectorDMT renders the AST as the data-model tree of the selector specification.
func SelectorDMT(s SelAST, links []datamodel.Link) datamodel.Node {
	switch s.T {
	case "match":
		return mapNode(".", mapNode())
	case "subset":
		return mapNode(".", mapNode("subset", mapNode("[", s.A[0], "]", s.A[1])))
	case "all":
		return mapNode("a", mapNode(">", SelectorDMT(s.Ss[0], links)))
	case "fields":
		var kv []interface{}
		for i := range s.Ks {
			kv = append(kv, string(model.Bytes(s.Ks[i])), SelectorDMT(s.Ss[i], links))
		}
		return mapNode("f", mapNode("f>", mapNode(kv...)))
	case "index":
		return mapNode("i", mapNode("i", s.A[0], ">", SelectorDMT(s.Ss[0], links)))
	case "range":
		return mapNode("r", mapNode("^", s.A[0], "$", s.A[1], ">", SelectorDMT(s.Ss[0], links)))
	case "union":
		nb := basicnode.Prototype.List.NewBuilder()
		la, _ := nb.BeginList(int64(len(s.Ss)))
		for _, m := range s.Ss {
			la.AssembleValue().AssignNode(SelectorDMT(m, links))
		}
		la.Finish()
		return mapNode("|", nb.Build())
	case "rec":
		var limit datamodel.Node
		if s.A[0] < 0 {
			limit = mapNode("none", mapNode())
		} else {
			limit = mapNode("depth", s.A[0])
		}
		kv := []interface{}{"l", limit, ":>", SelectorDMT(s.Ss[0], links)}
		if s.A[1] >= 1 && s.A[1] <= len(links) {
			kv = append(kv, "!", mapNode("/", basicnode.NewLink(links[s.A[1]-1])))
		}
		return mapNode("R", mapNode(kv...))
	case "edge":
		return mapNode("@", mapNode())
	case "as":
		return mapNode("~", mapNode("as", "rev", ">", SelectorDMT(s.Ss[0], links)))
	}
	panic("harness: selector type " + s.T)
}

// pathString renders a specification path unambiguously (empty segments stay visible).
func pathString(p [][]int) string {
	segs := make([]string, len(p))
	for i, s := range p {
		segs[i] = string(model.Bytes(s))
	}
	return canonPath(segs)
}

func canonPath(segs []string) string {
	for _, s := range segs {
		if s == "" || strings.Contains(s, "/") {
			q := make([]string, len(segs))
			for i, x := range segs {
				q[i] = fmt.Sprintf("%q", x)
			}
			return strings.Join(q, "/")
		}
	}
	return strings.Join(segs, "/")
}

func canonOf(p datamodel.Path) string {
	var segs []string
	for _, s := range p.Segments() {
		segs = append(segs, s.String())
	}
	return canonPath(segs)
}

func pathOf(p [][]int) datamodel.Path {
	segs := make([]datamodel.PathSegment, len(p))
	for i, s := range p {
		segs[i] = datamodel.PathSegmentOfString(string(model.Bytes(s)))
	}
	return datamodel.NewPath(segs)
}

type observedVisit struct {
	path   string
	reason string
	node   datamodel.Node
	prog   traversal.Progress
	pstr   string // Path.String() as it read during the visit
}

// WalkRun is one real walk.
type WalkRun struct {
	preloaded []int // blocks announced to the Preloader (when one is configured)
	visits    []observedVisit
	loads     []int
	err       error
	panic     interface{}
}

func (gr *Graph) run(sel selector.Selector, cfg WalkCfg, matchingOnly bool) (r WalkRun) {
	ls := gr.LS
	nested := false
	inner := ls.StorageReadOpener
	ls.StorageReadOpener = func(lc linking.LinkContext, l datamodel.Link) (io.Reader, error) {
		b := gr.BlockOf[l.Binary()]
		if nested {
			return inner(lc, l) // a look-ahead walk started inside a visit: not part of the walk under test
		}
		r.loads = append(r.loads, b)
		if b >= 1 && b <= len(cfg.Skip) && cfg.Skip[b-1] {
			return nil, traversal.SkipMe{}
		}
		return inner(lc, l)
	}
	var preloaded []int
	prog := traversal.Progress{Cfg: &traversal.Config{
		LinkSystem: ls,
		LinkTargetNodePrototypeChooser: func(datamodel.Link, linking.LinkContext) (datamodel.NodePrototype, error) {
			return basicnode.Prototype.Any, nil
		},
		LinkVisitOnlyOnce: cfg.Once,
		StartAtPath:       pathOf(cfg.Start),
	}}
	if cfg.Preload {
		prog.Cfg.Preloader = func(_ preload.PreloadContext, l preload.Link) {
			preloaded = append(preloaded, gr.BlockOf[l.Link.Binary()])
		}
		defer func() { r.preloaded = preloaded }()
	}
	// The Config object has been USED BEFORE: an earlier walk with the same *Config, other settings (another start path
	// of the same length, the opposite link-revisit option, its own budget) and the same selector.  A Config carries
	// settings, not state: the walk below must not be able to tell.
	if len(cfg.Start) > 0 || cfg.Once {
		alt := append([][]int{}, cfg.Start...)
		if n := len(alt); n > 0 {
			if len(alt[n-1]) == 1 && alt[n-1][0] == '0' {
				alt[n-1] = []int{'1'}
			} else {
				alt[n-1] = []int{'0'}
			}
		}
		prog.Cfg.StartAtPath = pathOf(alt)
		prog.Cfg.LinkVisitOnlyOnce = !cfg.Once
		warm := traversal.Progress{Cfg: prog.Cfg, Budget: &traversal.Budget{NodeBudget: 1 << 40, LinkBudget: 1 << 40}}
		model.Safe(func() {
			warm.WalkAdv(gr.Root, sel, func(traversal.Progress, datamodel.Node, traversal.VisitReason) error { return nil })
		})
		prog.Cfg.StartAtPath = pathOf(cfg.Start)
		prog.Cfg.LinkVisitOnlyOnce = cfg.Once
		r.loads = nil
	}
	if cfg.Nb >= 0 || cfg.Lb >= 0 {
		b := &traversal.Budget{NodeBudget: 1 << 40, LinkBudget: 1 << 40}
		if cfg.Nb >= 0 {
			b.NodeBudget = int64(cfg.Nb)
		}
		if cfg.Lb >= 0 {
			b.LinkBudget = int64(cfg.Lb)
		}
		prog.Budget = b
	}
	r.panic = model.Safe(func() {
		if matchingOnly {
			r.err = prog.WalkMatching(gr.Root, sel, func(p traversal.Progress, n datamodel.Node) error {
				r.visits = append(r.visits, observedVisit{canonOf(p.Path), "m", n, p, p.Path.String()})
				return nil
			})
		} else {
			lookedAhead := false
			r.err = prog.WalkAdv(gr.Root, sel, func(p traversal.Progress, n datamodel.Node, vr traversal.VisitReason) error {
				// Visit-once walks without budgets: at the first visit the callback starts a walk OF ITS OWN with the
				// Progress it was handed (a look-ahead).  A walk keeps its own record of the links it has seen: the walk
				// under test goes on as if nothing had happened.
				if cfg.Once && cfg.Nb < 0 && cfg.Lb < 0 && !lookedAhead {
					lookedAhead = true
					nested = true
					model.Safe(func() {
						p.WalkAdv(n, sel, func(traversal.Progress, datamodel.Node, traversal.VisitReason) error { return nil })
					})
					nested = false
				}
				reason := "c"
				if vr == traversal.VisitReason_SelectionMatch {
					reason = "m"
				}
				r.visits = append(r.visits, observedVisit{canonOf(p.Path), reason, n, p, p.Path.String()})
				return nil
			})
		}
	})
	return r
}

func fmtVisits(vs []observedVisit) string {
	var sb strings.Builder
	for i, v := range vs {
		if i > 0 {
			sb.WriteString(" ")
		}
		fmt.Fprintf(&sb, "%s:%q", v.reason, v.path)
	}
	return sb.String()
}

func fmtSpecVisits(vs []WalkVisit) string {
	var sb strings.Builder
	for i, v := range vs {
		if i > 0 {
			sb.WriteString(" ")
		}
		fmt.Fprintf(&sb, "%s:%q", v.Reason, pathString(v.Path))
	}
	return sb.String()
}

// WalkOpts selects which property's comparisons are made.
type WalkOpts struct {
	Paths    bool // C14: resolve every visited path again (Get, Focus, stepwise), after the walk
	Controls bool // C15: also check the metamorphic relations against the real unrestricted walk
}

// ReplayWalk compares the real walk with the specification's for one (graph, selector, controls) case.
func ReplayWalk(cs *WalkCase, o WalkOpts) (*run.Finding, int) {
	checks := 0
	fail := func(target, rule, class, detail string) *run.Finding {
		return &run.Finding{Step: -1, Target: target, Rule: rule, Class: class, Detail: detail}
	}
	gr, err := BuildGraph(cs.G)
	if err != nil {
		return fail("harness", "build-graph", "error", err.Error()), 0
	}
	// resolve link payloads in the expected visit nodes
	dmt := SelectorDMT(cs.Sel, gr.Links)
	var sel selector.Selector
	var cerr error
	if p := model.Safe(func() { sel, cerr = selector.CompileSelector(dmt) }); p != nil {
		return fail("selector.CompileSelector", "Compiles:ok", "panic", fmt.Sprint(p)), 1
	}
	if cs.Compiles != nil && !*cs.Compiles {
		if cerr == nil {
			return fail("selector.CompileSelector", "Compiles:rejected", "accepted", fmt.Sprintf("selector %v", cs.Sel)), 1
		}
		return nil, 1
	}
	if cerr != nil {
		return fail("selector.CompileSelector", "Compiles:ok", "rejected", cerr.Error()), 1
	}
	checks++
	r := gr.run(sel, cs.Cfg, false)
	target := "traversal.WalkAdv"
	ctl := controlName(cs.Cfg)
	if ctl != "" {
		target += "[" + ctl + "]"
	}
	if r.panic != nil {
		return fail(target, "walk", "panic", fmt.Sprint(r.panic)), checks
	}
	// ---- error
	wantErr := ""
	if len(cs.Err) == 2 {
		wantErr = fmt.Sprint(cs.Err[0])
	}
	var be *traversal.ErrBudgetExceeded
	gotErr := ""
	if r.err != nil {
		gotErr = "other"
		if errors.As(r.err, &be) {
			gotErr = be.BudgetKind
		}
	}
	if wantErr != gotErr {
		return fail(target, "error:"+orNone(wantErr), orNone(gotErr), fmt.Sprintf("walk returned %v; visits so far: %s", r.err, fmtVisits(r.visits))), checks
	}
	checks++
	// ---- visits
	if len(r.visits) != len(cs.Visits) {
		return fail(target, "visit-sequence", "different-length", fmt.Sprintf("spec %d visits [%s], implementation %d visits [%s]", len(cs.Visits), fmtSpecVisits(cs.Visits), len(r.visits), fmtVisits(r.visits))), checks
	}
	conc := model.Conc{}
	for i, v := range cs.Visits {
		got := r.visits[i]
		if got.path != pathString(v.Path) || got.reason != v.Reason {
			return fail(target, "visit-sequence", "different-visit", fmt.Sprintf("visit #%d: spec %s:%q, implementation %s:%q; spec [%s] implementation [%s]", i, v.Reason, pathString(v.Path), got.reason, got.path, fmtSpecVisits(cs.Visits), fmtVisits(r.visits))), checks
		}
		want, err := resolveLinks(v.Node, gr.Links)
		if err != nil {
			return fail("harness", "resolve", "error", err.Error()), checks
		}
		if m := conc.Same(got.node, want); m != nil {
			return fail(target, "visit-node", "different-node", fmt.Sprintf("visit #%d at %q (%s): %v", i, got.path, got.reason, m)), checks
		}
		checks += 2
	}
	// ---- loads
	if fmt.Sprint(r.loads) != fmt.Sprint(cs.Loads) && !(len(r.loads) == 0 && len(cs.Loads) == 0) {
		return fail(target, "load-sequence", "different-loads", fmt.Sprintf("spec %v, implementation %v", cs.Loads, r.loads)), checks
	}
	checks++
	// ---- another configuration: a Preloader.  Its lateral scan of every block before the walk proper changes nothing the
	// walk does (same visits, same loads), and no block is loaded that was not announced to it first.
	if ctl == "" && wantErr == "" {
		pc := cs.Cfg
		pc.Preload = true
		rp := gr.run(sel, pc, false)
		ptarget := "traversal.WalkAdv[preloader]"
		if rp.panic != nil {
			return fail(ptarget, "walk", "panic", fmt.Sprint(rp.panic)), checks
		}
		if rp.err != nil {
			return fail(ptarget, "error:none", "other", rp.err.Error()), checks
		}
		if fmtVisits(rp.visits) != fmtVisits(r.visits) {
			return fail(ptarget, "visit-sequence", "different-visits", fmt.Sprintf("without a preloader [%s], with one [%s]", fmtVisits(r.visits), fmtVisits(rp.visits))), checks
		}
		if fmt.Sprint(rp.loads) != fmt.Sprint(r.loads) {
			return fail(ptarget, "load-sequence", "different-loads", fmt.Sprintf("without a preloader %v, with one %v", r.loads, rp.loads)), checks
		}
		announced := map[int]bool{}
		for _, b := range rp.preloaded {
			announced[b] = true
		}
		for _, b := range rp.loads {
			if !announced[b] {
				return fail(ptarget, "loaded-was-announced", "not-announced", fmt.Sprintf("block %d was loaded but never announced to the preloader (announced %v, loaded %v)", b, rp.preloaded, rp.loads)), checks
			}
		}
		checks += 3
	}
	if wantErr != "" {
		wantPath := ""
		if ps, ok := cs.Err[1].([]interface{}); ok {
			var segs []string
			for _, s := range ps {
				var b []byte
				for _, x := range s.([]interface{}) {
					b = append(b, byte(x.(float64)))
				}
				segs = append(segs, string(b))
			}
			wantPath = canonPath(segs)
		}
		if canonOf(be.Path) != wantPath {
			return fail(target, "budget-error-path", "different-path", fmt.Sprintf("spec %q, implementation %q", wantPath, canonOf(be.Path))), checks
		}
		checks++
	}
	// ---- the matching-only walk sees exactly the matched subset
	if ctl == "" {
		rm := gr.run(sel, cs.Cfg, true)
		if rm.panic != nil {
			return fail("traversal.WalkMatching", "walk", "panic", fmt.Sprint(rm.panic)), checks
		}
		var want []observedVisit
		for _, v := range r.visits {
			if v.reason == "m" {
				want = append(want, v)
			}
		}
		if fmtVisits(rm.visits) != fmtVisits(want) {
			return fail("traversal.WalkMatching", "matched-subset", "different-visits", fmt.Sprintf("WalkAdv matches [%s], WalkMatching [%s]", fmtVisits(want), fmtVisits(rm.visits))), checks
		}
		for i := range want {
			a, _ := model.Project(want[i].node)
			b, _ := model.Project(rm.visits[i].node)
			if !a.Equal(b) {
				return fail("traversal.WalkMatching", "matched-subset", "different-node", fmt.Sprintf("at %q", want[i].path)), checks
			}
		}
		checks++
	}
	if o.Paths {
		if f := checkPathsUnderReifier(gr, cs, &checks); f != nil {
			return f, checks
		}
	}
	if o.Paths && !hasAs(cs.Sel) { // below a reified node paths are relative to the reified view (Traversal!VisitedPathsResolve)
		if f := checkPaths(gr, cs, r, &checks); f != nil {
			return f, checks
		}
	}
	if o.Controls && ctl != "" {
		if f := checkControlRelation(gr, sel, cs, r, &checks); f != nil {
			return f, checks
		}
	}
	return nil, checks
}

func orNone(s string) string {
	if s == "" {
		return "none"
	}
	return s
}

func controlName(c WalkCfg) string {
	var parts []string
	if c.Nb >= 0 {
		parts = append(parts, "node-budget")
	}
	if c.Lb >= 0 {
		parts = append(parts, "link-budget")
	}
	if len(c.Start) > 0 {
		parts = append(parts, "start-at")
	}
	if c.Once {
		parts = append(parts, "visit-once")
	}
	for _, s := range c.Skip {
		if s {
			parts = append(parts, "skip")
			break
		}
	}
	return strings.Join(parts, "+")
}

func hasAs(s SelAST) bool {
	if s.T == "as" {
		return true
	}
	for _, c := range s.Ss {
		if hasAs(c) {
			return true
		}
	}
	return false
}

var reifierGraphsDone sync.Map

// addMarkEntry is a NodeReifier that changes the VIEW of every loaded map block: the same entries plus one more
// ("~reified": 1) -- what an ADL or a migration shim does.
func addMarkEntry(_ linking.LinkContext, n datamodel.Node, _ *linking.LinkSystem) (datamodel.Node, error) {
	if n.Kind() != datamodel.Kind_Map {
		return n, nil
	}
	nb := basicnode.Prototype.Map.NewBuilder()
	ma, err := nb.BeginMap(n.Length() + 1)
	if err != nil {
		return nil, err
	}
	for it := n.MapIterator(); !it.Done(); {
		k, v, err := it.Next()
		if err != nil {
			return nil, err
		}
		if err := ma.AssembleKey().AssignNode(k); err != nil {
			return nil, err
		}
		if err := ma.AssembleValue().AssignNode(v); err != nil {
			return nil, err
		}
	}
	va, err := ma.AssembleEntry("~reified")
	if err != nil {
		return nil, err
	}
	va.AssignInt(1)
	if err := ma.Finish(); err != nil {
		return nil, err
	}
	return nb.Build(), nil
}

// checkPathsUnderReifier: C14 under another configuration of the link system -- a NodeReifier that changes what loaded
// blocks look like.  Whatever the walk visits at a path, Get, Focus and a stepwise lookup (all loading through the same
// link system) find at that path.  Once per graph; no expectation about WHAT is visited is needed.
func checkPathsUnderReifier(gr *Graph, cs *WalkCase, checks *int) *run.Finding {
	key, _ := json.Marshal(cs.G)
	if _, done := reifierGraphsDone.LoadOrStore(string(key), true); done {
		return nil
	}
	fail := func(target, rule, class, detail string) *run.Finding {
		return &run.Finding{Step: -1, Target: target, Rule: rule, Class: class, Detail: "link system with a NodeReifier that adds an entry to every loaded map: " + detail}
	}
	ls := gr.LS
	ls.NodeReifier = addMarkEntry
	cfg := &traversal.Config{LinkSystem: ls, LinkTargetNodePrototypeChooser: func(datamodel.Link, linking.LinkContext) (datamodel.NodePrototype, error) {
		return basicnode.Prototype.Any, nil
	}}
	sel, err := selector.CompileSelector(SelectorDMT(SelAST{T: "rec", A: []int{-1, -1}, Ss: []SelAST{{T: "union", Ss: []SelAST{{T: "match"}, {T: "all", Ss: []SelAST{{T: "edge"}}}}}}}, gr.Links))
	if err != nil {
		return fail("harness", "compile", "error", err.Error())
	}
	type seen struct {
		path datamodel.Path
		node datamodel.Node
	}
	var visits []seen
	if p := model.Safe(func() {
		err = traversal.Progress{Cfg: cfg}.WalkMatching(gr.Root, sel, func(pr traversal.Progress, n datamodel.Node) error {
			visits = append(visits, seen{pr.Path, n})
			return nil
		})
	}); p != nil {
		return fail("traversal.WalkMatching", "walk", "panic", fmt.Sprint(p))
	}
	if err != nil {
		return fail("traversal.WalkMatching", "walk", "error", err.Error())
	}
	marked := 0
	for _, v := range visits {
		want, perr := model.Project(v.node)
		if perr != nil {
			continue
		}
		if l := v.path.Len(); l > 0 && v.path.Last().String() == "~reified" {
			marked++
		}
		var got datamodel.Node
		var gerr error
		if p := model.Safe(func() { got, gerr = traversal.Progress{Cfg: cfg}.Get(gr.Root, v.path) }); p != nil {
			return fail("traversal.Get", "Resolve(path)=visited", "panic", fmt.Sprintf("path %q: %v", v.path.String(), p))
		}
		if gerr != nil {
			return fail("traversal.Get", "Resolve(path)=visited", "error", fmt.Sprintf("path %q (visited by the walk): %v", v.path.String(), gerr))
		}
		if gv, e := model.Project(got); e != nil || !gv.Equal(want) {
			return fail("traversal.Get", "Resolve(path)=visited", "different-node", fmt.Sprintf("path %q: Get returned %v (%v), the walk visited %v", v.path.String(), gv, e, want))
		}
		var fn datamodel.Node
		var ferr error
		if p := model.Safe(func() {
			ferr = traversal.Progress{Cfg: cfg}.Focus(gr.Root, v.path, func(_ traversal.Progress, n datamodel.Node) error { fn = n; return nil })
		}); p != nil {
			return fail("traversal.Focus", "Resolve(path)=visited", "panic", fmt.Sprintf("path %q: %v", v.path.String(), p))
		}
		if ferr != nil {
			return fail("traversal.Focus", "Resolve(path)=visited", "error", fmt.Sprintf("path %q (visited by the walk): %v", v.path.String(), ferr))
		}
		if fv, e := model.Project(fn); e != nil || !fv.Equal(want) {
			return fail("traversal.Focus", "Resolve(path)=visited", "different-node", fmt.Sprintf("path %q: Focus reached %v (%v), the walk visited %v", v.path.String(), fv, e, want))
		}
		*checks += 2
	}
	atomic.AddInt64(&ReifierMarkedVisits, int64(marked))
	return nil
}

// ReifierMarkedVisits: how many visited paths end in the entry only the reifier adds (non-vacuity of checkPathsUnderReifier)
var ReifierMarkedVisits int64

// checkPaths: C14 -- the Path objects handed to the callbacks are resolved again AFTER the walk.
func checkPaths(gr *Graph, cs *WalkCase, r WalkRun, checks *int) *run.Finding {
	fail := func(target, rule, class, detail string) *run.Finding {
		return &run.Finding{Step: -1, Target: target, Rule: rule, Class: class, Detail: detail}
	}
	cfg := &traversal.Config{LinkSystem: gr.LS, LinkTargetNodePrototypeChooser: func(datamodel.Link, linking.LinkContext) (datamodel.NodePrototype, error) {
		return basicnode.Prototype.Any, nil
	}}
	for i, v := range r.visits {
		// the retained Path object must still say what it said during the visit
		if v.prog.Path.String() != v.pstr {
			return fail("Progress.Path", "path-retained", "changed-after-visit", fmt.Sprintf("visit #%d: path was %q during the visit, reads %q after the walk", i, v.pstr, v.prog.Path.String()))
		}
		if v.path != pathString(cs.Visits[i].Path) {
			continue
		}
		var got datamodel.Node
		var err error
		if p := model.Safe(func() { got, err = traversal.Progress{Cfg: cfg}.Get(gr.Root, v.prog.Path) }); p != nil {
			return fail("traversal.Get", "Resolve(path)=visited", "panic", fmt.Sprintf("path %q: %v", v.path, p))
		}
		if err != nil {
			return fail("traversal.Get", "Resolve(path)=visited", "error", fmt.Sprintf("path %q: %v", v.path, err))
		}
		want, _ := model.Project(v.node)
		if v.reason == "m" && (want.K == "string" || want.K == "bytes") {
			// a subset matcher hands out a slice; the path addresses the whole node
			want, _ = resolveLinks(resolveAt(cs, cs.Visits[i].Path), gr.Links)
		}
		gv, perr := model.Project(got)
		if perr != nil || !gv.Equal(want) {
			return fail("traversal.Get", "Resolve(path)=visited", "different-node", fmt.Sprintf("path %q: Get returned %v (%v), visited %v", v.path, gv, perr, want))
		}
		// Focus must agree with Get
		var fn datamodel.Node
		ferr := traversal.Progress{Cfg: cfg}.Focus(gr.Root, v.prog.Path, func(_ traversal.Progress, n datamodel.Node) error { fn = n; return nil })
		if ferr != nil {
			return fail("traversal.Focus", "Resolve(path)=visited", "error", fmt.Sprintf("path %q: %v", v.path, ferr))
		}
		if fv, _ := model.Project(fn); !fv.Equal(want) {
			return fail("traversal.Focus", "Resolve(path)=visited", "different-node", fmt.Sprintf("path %q", v.path))
		}
		// one segment at a time, loading links explicitly
		cur := gr.Root
		for _, seg := range v.prog.Path.Segments() {
			next, err := cur.LookupBySegment(seg)
			if err != nil {
				return fail("LookupBySegment", "stepwise=visited", "error", fmt.Sprintf("path %q at segment %q: %v", v.path, seg.String(), err))
			}
			if next.Kind() == datamodel.Kind_Link {
				l, _ := next.AsLink()
				next, err = gr.LS.Load(linking.LinkContext{}, l, basicnode.Prototype.Any)
				if err != nil {
					return fail("LookupBySegment", "stepwise=visited", "error", fmt.Sprintf("path %q: load: %v", v.path, err))
				}
			}
			cur = next
		}
		if sv, _ := model.Project(cur); !sv.Equal(want) {
			return fail("LookupBySegment", "stepwise=visited", "different-node", fmt.Sprintf("path %q: stepwise lookup gives %v, visited %v", v.path, sv, want))
		}
		// string round trip
		if !strings.Contains(v.path, "\"") { // no segment is empty or contains a slash
			if rp := datamodel.ParsePath(v.prog.Path.String()); canonOf(rp) != v.path {
				return fail("datamodel.ParsePath", "ParsePath(String(p))=p", "different-path", fmt.Sprintf("%q -> %q", v.path, canonOf(rp)))
			}
		}
		*checks += 5
	}
	return nil
}

// resolveAt is Traversal!Resolve on the abstract graph.
func resolveAt(cs *WalkCase, path [][]int) model.Value {
	n := cs.G[0]
	deref := func(v model.Value) model.Value {
		for v.K == "link" {
			v = cs.G[v.A[0]-1]
		}
		return v
	}
	n = deref(n)
	for _, seg := range path {
		found := false
		switch n.K {
		case "map":
			for i, k := range n.Ks {
				if string(model.Bytes(k)) == string(model.Bytes(seg)) {
					n, found = n.Vs[i], true
					break
				}
			}
		case "list":
			idx := int(seg[0] - 48)
			if idx >= 0 && idx < len(n.Vs) {
				n, found = n.Vs[idx], true
			}
		}
		if !found {
			return model.Value{K: "nil"}
		}
		n = deref(n)
	}
	return n
}

// checkControlRelation: C15 -- the restricted walk against the REAL unrestricted walk, so that a common
// error of specification and code on the unrestricted walk cannot hide a broken relation.
func checkControlRelation(gr *Graph, sel selector.Selector, cs *WalkCase, r WalkRun, checks *int) *run.Finding {
	fail := func(rule, class, detail string) *run.Finding {
		return &run.Finding{Step: -1, Target: "traversal.WalkAdv[" + controlName(cs.Cfg) + "]", Rule: rule, Class: class, Detail: detail}
	}
	free := gr.run(sel, WalkCfg{Nb: -1, Lb: -1}, false)
	if free.panic != nil || free.err != nil {
		return fail("unrestricted-walk", "error", fmt.Sprintf("%v %v", free.panic, free.err))
	}
	all := fmtVisits(free.visits)
	got := fmtVisits(r.visits)
	c := cs.Cfg
	switch {
	case c.Nb >= 0:
		n := c.Nb
		if n > len(free.visits) {
			n = len(free.visits)
		}
		if got != fmtVisits(free.visits[:n]) {
			return fail("node-budget:first-N-visits", "different-visits", fmt.Sprintf("budget %d: got [%s], unrestricted [%s]", c.Nb, got, all))
		}
		if (r.err != nil) != (c.Nb < len(free.visits)) {
			return fail("node-budget:error-iff-insufficient", fmt.Sprint(r.err != nil), fmt.Sprintf("budget %d, unrestricted walk makes %d visits, error %v", c.Nb, len(free.visits), r.err))
		}
	case c.Lb >= 0:
		n := c.Lb
		if n > len(free.loads) {
			n = len(free.loads)
		}
		if fmt.Sprint(r.loads) != fmt.Sprint(free.loads[:n]) && n+len(r.loads) > 0 {
			return fail("link-budget:first-N-loads", "different-loads", fmt.Sprintf("budget %d: got %v, unrestricted %v", c.Lb, r.loads, free.loads))
		}
		if (r.err != nil) != (c.Lb < len(free.loads)) {
			return fail("link-budget:error-iff-insufficient", fmt.Sprint(r.err != nil), fmt.Sprintf("budget %d, unrestricted walk loads %d blocks, error %v", c.Lb, len(free.loads), r.err))
		}
		if !strings.HasPrefix(all, got) {
			return fail("link-budget:visits-are-a-prefix", "different-visits", fmt.Sprintf("got [%s], unrestricted [%s]", got, all))
		}
	case len(c.Start) > 0:
		start := pathString(c.Start)
		idx := -1
		for i, v := range free.visits {
			if v.path == start {
				idx = i
				break
			}
		}
		if idx >= 0 { // a start path taken from the unrestricted visit sequence
			if got != fmtVisits(free.visits[idx:]) {
				return fail("start-at:tail-of-unrestricted", "different-visits", fmt.Sprintf("start %q: got [%s], unrestricted [%s]", start, got, all))
			}
		}
	case c.Once:
		seen := map[int]bool{}
		for _, b := range r.loads {
			if seen[b] {
				return fail("visit-once:each-link-once", "loaded-twice", fmt.Sprintf("block %d loaded twice: %v", b, r.loads))
			}
			seen[b] = true
		}
		// visits are a subsequence of the unrestricted walk
		j := 0
		for _, v := range r.visits {
			for j < len(free.visits) && !(free.visits[j].path == v.path && free.visits[j].reason == v.reason) {
				j++
			}
			if j == len(free.visits) {
				return fail("visit-once:subsequence", "not-a-subsequence", fmt.Sprintf("got [%s], unrestricted [%s]", got, all))
			}
			j++
		}
	}
	*checks += 2
	return nil
}
