package replay

import (
	"encoding/json"
	"fmt"

	"github.com/ipld/go-ipld-prime/datamodel"
	"github.com/ipld/go-ipld-prime/schema"

	"verifharness/model"
	"verifharness/run"
)

// TypedAsmCase is one behaviour of specs/TypedAssembler.tla: the assembler protocol on the typed builder
// of a catalogue type, at type level or at representation level.
type TypedAsmCase struct {
	Ty    json.RawMessage `json:"ty"`
	Level string          `json:"level"`
	Steps []AsmStep       `json:"steps"`
	Ft    []string        `json:"ft"`
	Pc    string          `json:"pc"`
	Ok    bool            `json:"ok"`
	Tv    model.Value     `json:"tv"`
	Repr  model.Value     `json:"repr"`
	// which style of refusing a repeated key in a typed-map frame the behaviour contains (Assembler!DeferredDupNext):
	// at the key (bindnode), or through the assembler handed out for the value (generated code)
	Early bool `json:"early"`
	Late  bool `json:"late"`
}

// ForEngine says whether an engine is replayed on the behaviour: each engine is held to its own style of
// refusing a repeated key in a typed map.
func (cs *TypedAsmCase) ForEngine(eng Engine) bool {
	if eng.Name == "gengo" {
		return !cs.Early
	}
	return !cs.Late
}

// typedViews compares both views of a typed node with the specified typed value and its representation.
// Primary observations (what the node contains) decide; a disagreement that is only in the secondary
// family (questions that do not apply) is returned separately.
func typedViews(n datamodel.Node, tv, repr model.Value, fail func(via, rule, class, detail string) *run.Finding, via string) (primary *run.Finding, secondary []*run.Finding) {
	conc := model.Conc{}
	typedOpts := model.ObsOpts{Typed: true}
	obs2 := func(n datamodel.Node, want model.Value, rule string) *run.Finding {
		m := conc.CheckObs(n, want, typedOpts)
		if m == nil {
			return nil
		}
		prim := typedOpts
		prim.PrimaryOnly = true
		if pm := conc.CheckObs(n, want, prim); pm != nil {
			return fail(via, rule+"/"+pm.Field, obsClass(pm), pm.Error())
		}
		secondary = append(secondary, fail(via, rule+"/"+m.Field, obsClass(m), m.Error()))
		return nil
	}
	tn, ok := n.(schema.TypedNode)
	if !ok {
		return fail(via, "typed-node", "not-typed", fmt.Sprintf("%T", n)), secondary
	}
	if f := obs2(tn, tv, "TypeView"); f != nil {
		return f, secondary
	}
	var rn datamodel.Node
	if p := model.Safe(func() { rn = tn.Representation() }); p != nil {
		return fail(via, "ReprView", "panic", fmt.Sprint(p)), secondary
	}
	if f := obs2(rn, repr, "ReprView"); f != nil {
		return f, secondary
	}
	return nil, secondary
}

// ReplayTypedAsm steps one behaviour through the typed builder of one engine.
func ReplayTypedAsm(cs *TypedAsmCase, eng Engine, secondary bool) ([]*run.Finding, int) {
	ts, root, err := BuildTypeSystem(cs.Ty)
	if err != nil {
		return []*run.Finding{{Step: -1, Target: "harness", Rule: "build-type-system", Class: "error", Detail: err.Error()}}, 0
	}
	tname := root.Name()
	kindTag := root.K
	if root.Repr != nil {
		kindTag += "/" + root.Repr.R
	}
	target := eng.Name + "." + cs.Level + "-builder"
	where := fmt.Sprintf("type %s (%s)", tname, kindTag)
	proto, err := eng.Proto(ts, tname)
	if err != nil {
		return []*run.Finding{{Step: -1, Target: target, Rule: "prototype", Class: "error", Detail: where + ": " + err.Error()}}, 0
	}
	np := datamodel.NodePrototype(proto)
	if cs.Level == "repr" {
		np = proto.Representation()
	}
	var nb datamodel.NodeBuilder
	if p := model.Safe(func() { nb = np.NewBuilder() }); p != nil {
		return []*run.Finding{{Step: -1, Target: target, Rule: "NewBuilder", Class: "panic", Detail: fmt.Sprintf("%s: %v", where, p)}}, 0
	}
	var extra []*run.Finding
	onBuild := func(i int, built datamodel.Node, st AsmStep) (*run.Finding, int) {
		fail := func(via, rule, class, detail string) *run.Finding {
			return &run.Finding{Step: i, Target: target, Rule: "Build:" + rule, Class: class, Detail: fmt.Sprintf("%s, fed %v: %s", where, st.V, detail)}
		}
		// C12 is about WHAT the built node contains (the accepted entries, in order); how a typed node answers
		// questions that do not apply to it (the secondary family) is judged under C01 / C08 / C13.
		f, sec := typedViews(built, cs.Tv, cs.Repr, fail, "Build")
		if secondary {
			extra = append(extra, sec...)
		}
		return f, 2
	}
	f, checks := replayAsmSteps(cs.Steps, nb, target, model.Conc{}, onBuild, nil)
	if f != nil {
		if f.Step >= 0 && f.Step < len(cs.Ft) {
			f.Detail = fmt.Sprintf("call made in a %s frame: %s", cs.Ft[f.Step], f.Detail)
		}
		f.Detail = where + ": " + f.Detail
		extra = append(extra, f)
	}
	return extra, checks
}
