package replay

import (
	"bytes"
	"context"
	"crypto/sha256"
	"encoding/hex"
	"fmt"
	"github.com/ipld/go-ipld-prime/datamodel"
	"io"
	"os"
	"path/filepath"
	"strings"

	"github.com/ipfs/go-cid"
	"github.com/ipld/go-ipld-prime/linking"
	cidlink "github.com/ipld/go-ipld-prime/linking/cid"
	"github.com/ipld/go-ipld-prime/storage"
	"github.com/ipld/go-ipld-prime/storage/fsstore"
	"github.com/ipld/go-ipld-prime/storage/memstore"
	"github.com/ipld/go-ipld-prime/storage/sharding"
	mh "github.com/multiformats/go-multihash"

	"verifharness/model"
	"verifharness/run"
)

// StStep is one call of a behaviour of specs/Storage.tla.
type StStep struct {
	A   string `json:"a"`
	K   int    `json:"k"`
	Via string `json:"via"`
	R   string `json:"r"`
	St  []int  `json:"st"`
}

type StCase struct {
	Steps []StStep `json:"steps"`
}

// key profiles: sets of keys designed to collide after sharding / escaping / path cleaning
var StorageKeyProfiles = [][]string{
	{"ab", "a/b", "a\x00b"},
	{"../../escaped", "..", "x/../../../y"},
	{"plainkey-1", "plainkey-2", "PLAINKEY-1"},
	{"\xff\xfe\xfd", strings.Repeat("L", 300), "k."},
	{"/abs/key", "abs/key", "./abs/key"},
	{"", "0", "00"},
}

// stContent is the one content of key k; under odd profiles key 2 holds the empty block.
func stContent(k int, profile int) []byte {
	if k == 2 && profile%2 == 1 {
		return []byte{}
	}
	return bytes.Repeat([]byte(fmt.Sprintf("<content of key #%d>", k)), 3+k)
}

// basicOnly hides every feature-detection interface of a store.
type basicOnly struct{ s *memstore.Store }

func (b basicOnly) Has(ctx context.Context, k string) (bool, error) { return b.s.Has(ctx, k) }
func (b basicOnly) Get(ctx context.Context, k string) ([]byte, error) {
	return b.s.Get(ctx, k)
}
func (b basicOnly) Put(ctx context.Context, k string, c []byte) error { return b.s.Put(ctx, k, c) }

type kvStore interface {
	storage.ReadableStorage
	storage.WritableStorage
}

// linkStore adapts the link-keyed cidlink.Memory (open-read / open-write) to the key-value shape.
type linkStore struct {
	m *cidlink.Memory
}

func linkForContent(content []byte, variant int) cidlink.Link {
	sum := sha256.Sum256(content)
	digest, _ := mh.Encode(sum[:], mh.SHA2_256)
	switch variant % 3 {
	case 1:
		return cidlink.Link{Cid: cid.NewCidV1(0x55, digest)}
	case 2:
		return cidlink.Link{Cid: cid.NewCidV0(digest)}
	}
	return cidlink.Link{Cid: cid.NewCidV1(0x71, digest)}
}

func hexKey(s string) string { return hex.EncodeToString([]byte(s)) }

var stHookMu = &fsHookMu

// ReplayStorage replays one history on one store implementation with one key profile.
// Returns finding, comparisons, skipped (the history's put outcome branch does not apply to this store/key).
func ReplayStorage(cs *StCase, target string, profile int, scratch string) (f *run.Finding, checks int, skipped bool) {
	keys := StorageKeyProfiles[profile%len(StorageKeyProfiles)]
	ctx := context.Background()
	fail := func(i int, rule, class, detail string) *run.Finding {
		return &run.Finding{Step: i, Target: target, Rule: rule, Class: class, Detail: fmt.Sprintf("key profile %d %q: %s", profile, keys, detail)}
	}
	var st kvStore
	var ls *linkStore
	var sandbox, base string
	var outside []string
	isFs := strings.HasPrefix(target, "fsstore")
	if isFs {
		stHookMu.Lock()
		defer stHookMu.Unlock()
		var err error
		sandbox, err = os.MkdirTemp(scratch, "st-")
		if err != nil {
			return fail(-1, "harness", "error", err.Error()), 0, false
		}
		defer os.RemoveAll(sandbox)
		inner := filepath.Join(sandbox, "d1", "d2", "d3")
		os.MkdirAll(inner, 0777)
		base = filepath.Join(inner, "base")
		os.Mkdir(base, 0777)
		os.WriteFile(filepath.Join(inner, "canary"), []byte("canary"), 0666)
		fsstore.VerifHook = func(point, path string) error {
			if path != "" && path != base && !strings.HasPrefix(path, base+string(os.PathSeparator)) {
				outside = append(outside, point+":"+path)
			} else if path != "" {
				// lexically inside: is it still inside once ".." and symlinks are resolved?
				if c := filepath.Clean(path); c != base && !strings.HasPrefix(c, base+string(os.PathSeparator)) {
					outside = append(outside, point+":"+path)
				}
			}
			return nil
		}
		defer func() { fsstore.VerifHook = nil }()
		s := &fsstore.Store{}
		switch target {
		case "fsstore[default]":
			err = s.InitDefaults(base)
		case "fsstore[r122,hex]":
			err = s.Init(base, hexKey, sharding.Shard_r122)
		case "fsstore[r133,hex]":
			err = s.Init(base, hexKey, sharding.Shard_r133)
		}
		if err != nil {
			return fail(-1, "harness", "error", "init: "+err.Error()), 0, false
		}
		st = s
	} else {
		switch target {
		case "memstore":
			st = &memstore.Store{}
		case "memstore[basic-only]":
			st = basicOnly{&memstore.Store{}}
		case "cidlink.Memory":
			ls = &linkStore{&cidlink.Memory{}}
		}
	}

	vecClobbered := false
	put := func(k int, via string) error {
		key := keys[k-1]
		content := append([]byte{}, stContent(k, profile)...)
		var err error
		if ls != nil {
			wr, commit, e := ls.m.OpenWrite(linking.LinkContext{Ctx: ctx})
			if e != nil {
				return e
			}
			if _, e := wr.Write(content); e != nil {
				return e
			}
			err = commit(linkForContent(stContent(k, profile), k))
		} else {
			switch via {
			case "put":
				err = storage.Put(ctx, st, key, content)
			case "stream":
				if (k+profile)%2 == 1 {
					// Every other streamed put goes the way a LinkSystem writes blocks: through the opener that
					// LinkSystem.SetWriteStorage builds for this store, with ANOTHER block write opened, written and
					// left pending on the same link system before this one is committed (two stores in flight).
					var lsys linking.LinkSystem
					lsys.SetWriteStorage(st)
					w1, c1, e := lsys.StorageWriteOpener(linking.LinkContext{Ctx: ctx})
					if e != nil {
						return e
					}
					half := len(content) / 2
					if _, e := w1.Write(content[:half]); e != nil {
						return e
					}
					w2, _, e := lsys.StorageWriteOpener(linking.LinkContext{Ctx: ctx})
					if e != nil {
						return e
					}
					if _, e := w2.Write([]byte("<another block, still being written when the first one is committed>")); e != nil {
						return e
					}
					if _, e := w1.Write(content[half:]); e != nil {
						return e
					}
					err = c1(keyLink(key))
					break
				}
				wr, commit, e := storage.PutStream(ctx, st)
				if e != nil {
					return e
				}
				half := len(content) / 2
				if _, e := wr.Write(content[:half]); e != nil {
					commit("")
					return e
				}
				if _, e := wr.Write(content[half:]); e != nil {
					commit("")
					return e
				}
				err = commit(key)
			case "vec":
				third := len(content) / 3
				switch (k + profile) % 4 {
				case 0: // the whole content as ONE blob (a store may be tempted to keep it as it is)
					err = storage.PutVec(ctx, st, key, [][]byte{content})
				case 1:
					err = storage.PutVec(ctx, st, key, [][]byte{content[:third], content[third : 2*third], content[2*third:]})
				case 2: // empty blobs in front, in the middle and at the end
					err = storage.PutVec(ctx, st, key, [][]byte{{}, content[:third], nil, content[third:], {}})
				default:
					// the blobs share one backing array but do not lie in it in the order they are given: A | C | B in
					// memory, handed over as A, B, C (a store that joins them in place must not clobber what it has not read)
					a, bb, c := content[:third], content[third:2*third], content[2*third:]
					base := make([]byte, 0, len(content)+8)
					base = append(append(append(base, a...), c...), bb...)
					blobs := [][]byte{base[:len(a)], base[len(a)+len(c):], base[len(a) : len(a)+len(c)]}
					before := append([]byte{}, base...)
					err = storage.PutVec(ctx, st, key, blobs)
					if err == nil && !bytes.Equal(before, base) {
						err = fmt.Errorf("verif: PutVec modified the caller's buffers")
						vecClobbered = true
					}
				}
			}
		}
		// the caller now reuses its buffer: stored bytes must be insulated from this
		for i := range content {
			content[i] = 0xEE
		}
		return err
	}
	get := func(k int, via string) ([]byte, error) {
		key := keys[k-1]
		if ls != nil {
			// any link sharing the multihash addresses the block (documented keying by multihash)
			variant := k
			if via == "stream" {
				variant = k + 1
			}
			if via == "peek" {
				variant = k + 2
			}
			r, err := ls.m.OpenRead(linking.LinkContext{Ctx: ctx}, linkForContent(stContent(k, profile), variant))
			if err != nil {
				return nil, err
			}
			return io.ReadAll(r)
		}
		switch via {
		case "get":
			return storage.Get(ctx, st, key)
		case "stream":
			rc, err := storage.GetStream(ctx, st, key)
			if err != nil {
				return nil, err
			}
			defer rc.Close()
			return io.ReadAll(rc)
		case "peek":
			b, closer, err := storage.Peek(ctx, st, key)
			if err != nil {
				return nil, err
			}
			cp := append([]byte{}, b...)
			if closer != nil {
				closer.Close()
			}
			return cp, nil
		}
		return nil, fmt.Errorf("harness: unknown via %q", via)
	}

	for _, s := range cs.Steps {
		// storage.StreamingWritableStorage: committing with the zero string means "abandon": not a put at all
		if s.A == "put" && keys[s.K-1] == "" && s.Via != "put" && ls == nil {
			return nil, 0, true
		}
	}
	for i, s := range cs.Steps {
		rule := s.A + "/" + s.Via + ":" + s.R
		var perr interface{}
		switch s.A {
		case "put":
			var err error
			perr = model.Safe(func() { err = put(s.K, s.Via) })
			if perr != nil {
				break
			}
			if vecClobbered {
				return fail(i, "put/"+s.Via+":caller-buffers-untouched", "modified", fmt.Sprintf("key %q: storage.PutVec wrote into the byte slices it was given", keys[s.K-1])), checks, false
			}
			got := "ok"
			if err != nil {
				got = "refused"
			}
			if got != s.R {
				// Whether a store accepts a key is the store's business (the property speaks about
				// successful puts): the sibling history with the other outcome applies instead.
				return nil, checks, true
			}
		case "get":
			var b []byte
			var err error
			perr = model.Safe(func() { b, err = get(s.K, s.Via) })
			if perr != nil {
				break
			}
			if s.R == "found" {
				if err != nil {
					return fail(i, rule, "notfound", fmt.Sprintf("key %q: %v", keys[s.K-1], err)), checks, false
				}
				if !bytes.Equal(b, stContent(s.K, profile)) {
					return fail(i, rule, "different-content", fmt.Sprintf("key %q returned %d bytes starting %q, stored %d bytes starting %q",
						keys[s.K-1], len(b), clip(b), len(stContent(s.K, profile)), clip(stContent(s.K, profile)))), checks, false
				}
			} else if err == nil {
				return fail(i, rule, "found", fmt.Sprintf("key %q never stored but read returned %d bytes starting %q", keys[s.K-1], len(b), clip(b))), checks, false
			}
		case "has":
			if ls != nil {
				continue
			}
			var has bool
			var err error
			perr = model.Safe(func() { has, err = storage.Has(ctx, st, keys[s.K-1]) })
			if perr != nil {
				break
			}
			if err != nil {
				if s.R == "true" {
					return fail(i, rule, "error", fmt.Sprintf("key %q: %v", keys[s.K-1], err)), checks, false
				}
			} else if fmt.Sprint(has) != s.R {
				return fail(i, rule, fmt.Sprint(has), fmt.Sprintf("key %q", keys[s.K-1])), checks, false
			}
		}
		if perr != nil {
			return fail(i, rule, "panic", fmt.Sprint(perr)), checks, false
		}
		checks++
		if isFs {
			if len(outside) > 0 {
				return fail(i, "NothingOutsideBase", "outside-access", strings.Join(outside, ", ")), checks, false
			}
			checks++
		}
	}
	if isFs {
		if esc := escaped(sandbox, base); esc != "" {
			return fail(len(cs.Steps), "NothingOutsideBase", "outside-effect", esc), checks, false
		}
		checks++
	}
	return nil, checks, false
}

func clip(b []byte) string {
	if len(b) > 24 {
		b = b[:24]
	}
	return string(b)
}

// escaped lists anything in the sandbox that is not the base directory, its ancestors or the canary.
func escaped(sandbox, base string) string {
	var bad []string
	filepath.Walk(sandbox, func(p string, fi os.FileInfo, err error) error {
		if err != nil {
			return nil
		}
		if p == base {
			return filepath.SkipDir
		}
		if strings.HasPrefix(base, p+string(os.PathSeparator)) || p == sandbox {
			return nil // ancestor of base
		}
		if filepath.Base(p) == "canary" {
			if b, _ := os.ReadFile(p); string(b) != "canary" {
				bad = append(bad, "canary modified")
			}
			return nil
		}
		rel, _ := filepath.Rel(sandbox, p)
		bad = append(bad, rel)
		return nil
	})
	return strings.Join(bad, ", ")
}

// keyLink is a datamodel.Link whose binary form is a storage key of the history (the committer built by
// LinkSystem.SetWriteStorage stores a block under link.Binary()).
type keyLink string

func (l keyLink) Prototype() datamodel.LinkPrototype { return nil }
func (l keyLink) String() string                     { return "keyLink:" + string(l) }
func (l keyLink) Binary() string                     { return string(l) }
