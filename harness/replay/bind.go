package replay

import (
	"bytes"
	"fmt"
	"reflect"
	"sort"
	"strings"

	ipld "github.com/ipld/go-ipld-prime"
	"github.com/ipld/go-ipld-prime/codec/dagcbor"
	"github.com/ipld/go-ipld-prime/codec/dagjson"
	"github.com/ipld/go-ipld-prime/datamodel"
	"github.com/ipld/go-ipld-prime/node/bindnode"
	"github.com/ipld/go-ipld-prime/schema"

	"verifharness/model"
	"verifharness/run"
)

// ---- the library of user-declared Go types, one per catalogue type name (bindnode's shape vocabulary:
// struct fields, slices, ordered-map structs (Keys/Values), pointers for optional and nullable, double
// pointers for both, union structs, several integer widths)

type GS1 struct {
	A int64
	B string
}
type GS2 struct {
	A int32
	B *string
	C *int64
	D **string
}
type GS3 struct {
	A uint16
	B *string
	C *int64
}
type GS4 struct {
	A string
	B string
}
type GS6 struct {
	A int
	B uint8
	C *string
}
type GS7 struct {
	A int64
	B int64
}
type GW1 struct {
	A int8
	B uint8
	C *uint64
}
type GL4 []*uint64
type GW2 struct {
	A *uint8
	B *int8
	C GL4
}
type GS8 struct {
	A int64
	B GL1            // optional, bound to a slice: nil means absent
	C datamodel.Link // optional, bound to an interface: nil means absent
}
type GM3 struct {
	Keys   []string
	Values map[string]uint64
}
type GU5 struct {
	U64    *uint64
	String *string
}
type GL1 []int64
type GL2 []*string
type GM1 struct {
	Keys   []string
	Values map[string]int64
}
type GM2 struct {
	Keys   []string
	Values map[string]*GS1
}
type GU1 struct {
	Int    *int64
	String *string
}
type GU2 struct {
	Int    *int64
	String *string
	S1     *GS1
	L1     *GL1
}
type GR10 struct {
	F GS6
	G *GU1
	H *GL2
}
type GR11 struct {
	S2 *GS2
	U2 *GU2
	L1 *GL1
}
type GR13 struct {
	Keys   []string
	Values map[string]*GS3
}
type GR5 []*GU1
type GR7 []GS4
type GR2 struct {
	F GS3
	G GL2
	H *GM1
}

// ---- the same shapes with a CUSTOM CONVERTER in play: wherever the schema says Int, the Go side holds a GCInt (a struct
// counting hundredths), bound with bindnode.TypedIntConverter.  The converted type occurs as a struct field, a list
// element, a map value, a union member, and inside a struct that is a union member / a field of a struct in a list.
type GCInt struct{ Hundredths int64 }

type GCS1 struct {
	A GCInt
	B string
}
type GCL1 []GCInt
type GCM1 struct {
	Keys   []string
	Values map[string]GCInt
}
type GCM2 struct {
	Keys   []string
	Values map[string]*GCS1
}
type GCU1 struct {
	Int    *GCInt
	String *string
}
type GCU2 struct {
	Int    *GCInt
	String *string
	S1     *GCS1
	L1     *GCL1
}
type GCR5 []*GCU1

var gcIntOption = bindnode.TypedIntConverter(&GCInt{},
	func(i int64) (interface{}, error) { return &GCInt{Hundredths: i * 100}, nil },
	func(v interface{}) (int64, error) {
		c, ok := v.(*GCInt)
		if !ok {
			return 0, fmt.Errorf("GCInt converter: got %T", v)
		}
		return c.Hundredths / 100, nil
	})

// BindLibConv: catalogue type name -> Go type of the converter library.
var BindLibConv = map[string]func() interface{}{
	"S1": func() interface{} { return new(GCS1) }, "L1": func() interface{} { return new(GCL1) },
	"M1": func() interface{} { return new(GCM1) }, "M2": func() interface{} { return new(GCM2) },
	"U1": func() interface{} { return new(GCU1) }, "U2": func() interface{} { return new(GCU2) },
	"R5": func() interface{} { return new(GCR5) },
}

// BindLib maps a catalogue type name to a pointer to the zero value of its Go type.
var BindLib = map[string]func() interface{}{
	"S1": func() interface{} { return new(GS1) }, "S2": func() interface{} { return new(GS2) },
	"S3": func() interface{} { return new(GS3) }, "S4": func() interface{} { return new(GS4) },
	"S6": func() interface{} { return new(GS6) }, "S7": func() interface{} { return new(GS7) },
	"L1": func() interface{} { return new(GL1) }, "L2": func() interface{} { return new(GL2) },
	"M1": func() interface{} { return new(GM1) }, "M2": func() interface{} { return new(GM2) },
	"U1": func() interface{} { return new(GU1) }, "U2": func() interface{} { return new(GU2) },
	"T0": func() interface{} { return new(GR10) }, "T1": func() interface{} { return new(GR11) },
	"T3": func() interface{} { return new(GR13) }, "R5": func() interface{} { return new(GR5) },
	"R7": func() interface{} { return new(GR7) }, "R2": func() interface{} { return new(GR2) },
	"W1": func() interface{} { return new(GW1) }, "S8": func() interface{} { return new(GS8) },
	"M3": func() interface{} { return new(GM3) }, "U5": func() interface{} { return new(GU5) },
	"L4": func() interface{} { return new(GL4) }, "W2": func() interface{} { return new(GW2) },
}

func goFieldName(s string) string { return strings.ToUpper(s[:1]) + s[1:] }

// setTyped fills the Go value dst (settable) from the typed value tv of type T -- a reflection walker
// that knows bindnode's documented shape conventions but shares no code with it.
func setTyped(dst reflect.Value, T *TyAST, tv model.Value) error {
	switch T.K {
	case "int":
		g, err := (model.Conc{}).Scalar(tv)
		if err != nil {
			return err
		}
		if dst.Type() == reflect.TypeOf(GCInt{}) {
			dst.Field(0).SetInt(g.I * 100)
			break
		}
		switch dst.Kind() {
		case reflect.Int, reflect.Int8, reflect.Int16, reflect.Int32, reflect.Int64:
			dst.SetInt(g.I)
		case reflect.Uint, reflect.Uint8, reflect.Uint16, reflect.Uint32, reflect.Uint64:
			if g.IsUint {
				dst.SetUint(g.U)
			} else {
				dst.SetUint(uint64(g.I))
			}
		default:
			return fmt.Errorf("int into %v", dst.Kind())
		}
	case "string":
		dst.SetString(string(model.Bytes(tv.A)))
	case "bool":
		dst.SetBool(len(tv.A) > 0 && tv.A[0] != 0)
	case "link":
		g, err := (model.Conc{}).Scalar(tv)
		if err != nil {
			return err
		}
		dst.Set(reflect.ValueOf(g.L))
	case "list":
		sl := reflect.MakeSlice(dst.Type(), len(tv.Vs), len(tv.Vs))
		for i, ev := range tv.Vs {
			if err := setMaybe(sl.Index(i), T.El, false, T.Nul, ev); err != nil {
				return err
			}
		}
		dst.Set(sl)
	case "map":
		keys := dst.FieldByName("Keys")
		vals := dst.FieldByName("Values")
		ks := reflect.MakeSlice(keys.Type(), 0, len(tv.Ks))
		m := reflect.MakeMapWithSize(vals.Type(), len(tv.Ks))
		for i := range tv.Ks {
			k := reflect.ValueOf(string(model.Bytes(tv.Ks[i])))
			ks = reflect.Append(ks, k)
			ev := reflect.New(vals.Type().Elem()).Elem()
			if err := setMaybe(ev, T.Val, false, T.Nul, tv.Vs[i]); err != nil {
				return err
			}
			m.SetMapIndex(k, ev)
		}
		keys.Set(ks)
		vals.Set(m)
	case "struct":
		for i, f := range T.Fs {
			fv := dst.FieldByName(goFieldName(string(model.Bytes(f.Name))))
			if !fv.IsValid() {
				return fmt.Errorf("no Go field for %q", string(model.Bytes(f.Name)))
			}
			ty := f.Ty
			if err := setMaybe(fv, &ty, f.Opt, f.Nul, tv.Vs[i]); err != nil {
				return err
			}
		}
	case "union":
		member := string(model.Bytes(tv.Ks[0]))
		for i := range T.Ms {
			if T.Ms[i].Name() == member {
				fv := dst.FieldByName(member)
				if !fv.IsValid() {
					return fmt.Errorf("no Go union field %q", member)
				}
				p := reflect.New(fv.Type().Elem())
				if err := setTyped(p.Elem(), &T.Ms[i], tv.Vs[0]); err != nil {
					return err
				}
				fv.Set(p)
			}
		}
	default:
		return fmt.Errorf("bind library: kind %s not covered", T.K)
	}
	return nil
}

// setMaybe handles optional / nullable / both: pointer, pointer, pointer to pointer.
func setMaybe(dst reflect.Value, T *TyAST, opt, nul bool, tv model.Value) error {
	switch {
	case opt && nul:
		if tv.K == "absent" {
			return nil // nil outer pointer
		}
		outer := reflect.New(dst.Type().Elem())
		if tv.K != "null" {
			inner := reflect.New(dst.Type().Elem().Elem())
			if err := setTyped(inner.Elem(), T, tv); err != nil {
				return err
			}
			outer.Elem().Set(inner)
		}
		dst.Set(outer)
		return nil
	case opt || nul:
		if tv.K == "absent" || tv.K == "null" {
			return nil
		}
		if dst.Kind() != reflect.Ptr {
			return setTyped(dst, T, tv)
		}
		p := reflect.New(dst.Type().Elem())
		if err := setTyped(p.Elem(), T, tv); err != nil {
			return err
		}
		dst.Set(p)
		return nil
	}
	return setTyped(dst, T, tv)
}

// sortKeys canonicalises ordered-map structs (Keys order) so that values can be compared after a sorting codec.
func sortKeys(v reflect.Value) {
	switch v.Kind() {
	case reflect.Ptr:
		if !v.IsNil() {
			sortKeys(v.Elem())
		}
	case reflect.Struct:
		if k := v.FieldByName("Keys"); k.IsValid() && v.FieldByName("Values").IsValid() && k.Kind() == reflect.Slice && k.CanSet() {
			ss := make([]string, k.Len())
			for i := range ss {
				ss[i] = k.Index(i).String()
			}
			sort.Strings(ss)
			for i := range ss {
				k.Index(i).SetString(ss[i])
			}
			vals := v.FieldByName("Values")
			for _, mk := range vals.MapKeys() {
				ev := vals.MapIndex(mk)
				if ev.Kind() == reflect.Ptr && !ev.IsNil() {
					sortKeys(ev)
				}
			}
			return
		}
		for i := 0; i < v.NumField(); i++ {
			if v.Field(i).CanSet() {
				sortKeys(v.Field(i))
			}
		}
	case reflect.Slice:
		for i := 0; i < v.Len(); i++ {
			sortKeys(v.Index(i))
		}
	}
}

// normalise: an empty slice / map and a nil one hold the same data
func normEmpty(v reflect.Value) {
	switch v.Kind() {
	case reflect.Ptr:
		if !v.IsNil() {
			normEmpty(v.Elem())
		}
	case reflect.Struct:
		for i := 0; i < v.NumField(); i++ {
			if v.Field(i).CanSet() {
				normEmpty(v.Field(i))
			}
		}
	case reflect.Slice:
		if v.Len() == 0 && v.CanSet() {
			v.Set(reflect.Zero(v.Type()))
		}
		for i := 0; i < v.Len(); i++ {
			normEmpty(v.Index(i))
		}
	case reflect.Map:
		if v.Len() == 0 && v.CanSet() {
			v.Set(reflect.Zero(v.Type()))
			return
		}
		for _, k := range v.MapKeys() {
			ev := v.MapIndex(k)
			if ev.Kind() == reflect.Ptr {
				normEmpty(ev)
			}
		}
	}
}

func sameData(a, b interface{}) bool {
	av, bv := reflect.ValueOf(a), reflect.ValueOf(b)
	normEmpty(av)
	normEmpty(bv)
	return reflect.DeepEqual(a, b)
}

// ReplayBindValue checks Wrap / build+Unwrap / Marshal+Unmarshal for one inhabitant of a library type (C19).
func ReplayBindValue(cs *SchemaCase) (*run.Finding, int, bool) {
	f, n, skipped := replayBindValue(cs, BindLib, nil)
	if f != nil || skipped {
		return f, n, skipped
	}
	// the same value once more through the library whose Ints are held by a custom-converted Go type
	f2, n2, skipped2 := replayBindValue(cs, BindLibConv, []bindnode.Option{gcIntOption})
	if skipped2 {
		return nil, n, false
	}
	if f2 != nil {
		f2.Detail = "binding with a custom Int converter: " + f2.Detail
	}
	return f2, n + n2, false
}

func replayBindValue(cs *SchemaCase, lib map[string]func() interface{}, bopts []bindnode.Option) (*run.Finding, int, bool) {
	checks := 0
	ts, root, err := BuildTypeSystem(cs.Ty)
	if err != nil {
		return &run.Finding{Step: -1, Target: "harness", Rule: "build-type-system", Class: "error", Detail: err.Error()}, 0, false
	}
	mk, ok := lib[root.Name()]
	if !ok || !cs.Ok {
		return nil, 0, true
	}
	typ := ts.TypeByName(root.Name())
	fail := func(op, rule, class, detail string) *run.Finding {
		return &run.Finding{Step: -1, Target: "bindnode." + op, Rule: rule, Class: class,
			Detail: fmt.Sprintf("Go type %T bound to schema type %s, value %v: %s", mk(), root.Name(), cs.Tv, detail)}
	}
	// the Go value holding tv, constructed independently
	want := mk()
	if err := setTyped(reflect.ValueOf(want).Elem(), root, cs.Tv); err != nil {
		return fail("harness", "construct-go-value", "error", err.Error()), checks, false
	}
	conc := model.Conc{}
	opts := model.ObsOpts{Typed: true, PrimaryOnly: true}
	// (1) Wrap exposes exactly the data held
	var wrapped schema.TypedNode
	if p := model.Safe(func() { wrapped = bindnode.Wrap(want, typ, bopts...) }); p != nil {
		return fail("Wrap", "Wrap:ok", "panic", fmt.Sprint(p)), checks, false
	}
	if m := conc.CheckObs(wrapped, cs.Tv, opts); m != nil {
		return fail("Wrap", "Wrap:TypeView/"+m.Field, obsClass(m), m.Error()), checks, false
	}
	if m := conc.CheckObs(wrapped.Representation(), cs.Repr, opts); m != nil {
		return fail("Wrap", "Wrap:ReprView/"+m.Field, obsClass(m), m.Error()), checks, false
	}
	checks += 2
	// (2) building through the builder and unwrapping returns the Go value that was assembled
	var built datamodel.Node
	var berr error
	if p := model.Safe(func() {
		nb := bindnode.Prototype(mk(), typ, bopts...).NewBuilder()
		berr = conc.BuildInto(nb, cs.Input)
		if berr == nil {
			built = nb.Build()
		}
	}); p != nil {
		return fail("Prototype", "build:ok", "panic", fmt.Sprint(p)), checks, false
	}
	if berr != nil {
		return fail("Prototype", "build:ok", "error", berr.Error()), checks, false
	}
	got := bindnode.Unwrap(built)
	if got == nil || !sameData(got, want) {
		return fail("Unwrap", "Unwrap=assembled", "different-go-value", fmt.Sprintf("unwrapped %+v, assembled %+v", deref(got), deref(want))), checks, false
	}
	checks++
	// (3) Marshal then Unmarshal into a fresh value reproduces the data (Keys order canonicalised)
	for _, codec := range []string{"dag-cbor", "dag-json"} {
		enc, dec := dagcbor.Encode, dagcbor.Decode
		if codec == "dag-json" {
			enc, dec = dagjson.Encode, dagjson.Decode
		}
		var data []byte
		var merr error
		if p := model.Safe(func() { data, merr = ipld.Marshal(enc, want, typ, bopts...) }); p != nil {
			return fail("Marshal("+codec+")", "Marshal:ok", "panic", fmt.Sprint(p)), checks, false
		}
		if merr != nil {
			return fail("Marshal("+codec+")", "Marshal:ok", "error", merr.Error()), checks, false
		}
		fresh := mk()
		var uerr error
		if p := model.Safe(func() { _, uerr = ipld.Unmarshal(data, dec, fresh, typ, bopts...) }); p != nil {
			return fail("Unmarshal("+codec+")", "Unmarshal:ok", "panic", fmt.Sprintf("%q: %v", data, p)), checks, false
		}
		if uerr != nil {
			return fail("Unmarshal("+codec+")", "Unmarshal:ok", "error", fmt.Sprintf("%q: %v", data, uerr)), checks, false
		}
		w2 := mk()
		setTyped(reflect.ValueOf(w2).Elem(), root, cs.Tv)
		sortKeys(reflect.ValueOf(w2))
		sortKeys(reflect.ValueOf(fresh))
		if !sameData(fresh, w2) {
			return fail("Unmarshal("+codec+")", "Unmarshal(Marshal(v))=v", "different-go-value", fmt.Sprintf("%q: got %+v, want %+v", data, deref(fresh), deref(w2))), checks, false
		}
		// and the bytes are the encoding of the representation view
		var b2 bytes.Buffer
		if err := enc(wrapped.Representation(), &b2); err != nil || !bytes.Equal(b2.Bytes(), data) {
			return fail("Marshal("+codec+")", "Marshal=Encode(Representation)", "different-bytes", fmt.Sprintf("%q vs %q", data, b2.Bytes())), checks, false
		}
		checks += 2
	}
	return nil, checks, false
}

func deref(x interface{}) interface{} {
	v := reflect.ValueOf(x)
	if v.Kind() == reflect.Ptr && !v.IsNil() {
		return v.Elem().Interface()
	}
	return x
}

// ---- histories (purity)

type BindStep struct {
	Op   string `json:"op"`
	T    int    `json:"t"`
	Mode string `json:"mode"`
}
type BindHist struct {
	Steps []BindStep `json:"steps"`
}

// three named Go types; the third contains the first
type HPerson struct {
	Name string
	Age  int64
}
type HTags []string
type HTeam struct {
	Lead    HPerson
	Members []HPerson
	Tags    HTags
}

func histTypeSystem() *schema.TypeSystem {
	ts := new(schema.TypeSystem)
	ts.Init()
	ts.Accumulate(schema.SpawnString("String"))
	ts.Accumulate(schema.SpawnInt("Int"))
	ts.Accumulate(schema.SpawnStruct("HPerson", []schema.StructField{
		schema.SpawnStructField("Name", "String", false, false), schema.SpawnStructField("Age", "Int", false, false)},
		schema.SpawnStructRepresentationMap(nil)))
	ts.Accumulate(schema.SpawnList("HTags", "String", false))
	ts.Accumulate(schema.SpawnList("List__HPerson", "HPerson", false))
	ts.Accumulate(schema.SpawnStruct("HTeam", []schema.StructField{
		schema.SpawnStructField("Lead", "HPerson", false, false), schema.SpawnStructField("Members", "List__HPerson", false, false),
		schema.SpawnStructField("Tags", "HTags", false, false)}, schema.SpawnStructRepresentationMap(nil)))
	return ts
}

// explicitTypeSystem: the schemas used for the EXPLICIT binds of a history.  They describe the same Go types as
// histTypeSystem (which mirrors what inference produces) but differ from it observably -- a tuple representation, a
// renamed field, other type names -- so that an explicit schema leaking into a later inferred bind of the same Go type
// (or the other way round) changes a result.
func explicitTypeSystem() *schema.TypeSystem {
	ts := new(schema.TypeSystem)
	ts.Init()
	ts.Accumulate(schema.SpawnString("String"))
	ts.Accumulate(schema.SpawnInt("Int"))
	ts.Accumulate(schema.SpawnStruct("XPerson", []schema.StructField{
		schema.SpawnStructField("Name", "String", false, false), schema.SpawnStructField("Age", "Int", false, false)},
		schema.SpawnStructRepresentationTuple()))
	ts.Accumulate(schema.SpawnList("XTags", "String", false))
	ts.Accumulate(schema.SpawnList("XPeople", "XPerson", false))
	ts.Accumulate(schema.SpawnStruct("XTeam", []schema.StructField{
		schema.SpawnStructField("Lead", "XPerson", false, false), schema.SpawnStructField("Members", "XPeople", false, false),
		schema.SpawnStructField("Tags", "XTags", false, false)}, schema.SpawnStructRepresentationMap(map[string]string{"Lead": "boss"})))
	return ts
}

// RunBindHistory runs one history in THIS process (the caller gives every history a fresh process,
// because the state the histories are about is process-global).
func RunBindHistory(h *BindHist) *run.Finding {
	ts := histTypeSystem()
	values := []func() interface{}{
		func() interface{} { return &HPerson{"ada", 36} },
		func() interface{} { v := HTags{"a", "b"}; return &v },
		func() interface{} {
			return &HTeam{Lead: HPerson{"ada", 36}, Members: []HPerson{{"bob", 1}, {"eve", 2}}, Tags: HTags{"x", "y"}}
		},
	}
	names := []string{"HPerson", "HTags", "HTeam"}
	tsX := explicitTypeSystem()
	namesX := []string{"XPerson", "XTags", "XTeam"}
	expect := make([]model.Value, 3)  // what an INFERRED bind gives alone (computed through the mirror type system)
	expectX := make([]model.Value, 3) // what an EXPLICIT bind gives alone
	for i := range values {
		nx := bindnode.Wrap(values[i](), tsX.TypeByName(namesX[i]))
		expectX[i], _ = model.Project(nx.Representation())
	}
	for i := range values {
		// reference observation: the explicit-schema wrap in a state nobody has touched yet is computed
		// by the parent and passed in the case?  Simpler: data-model projection of an explicit wrap
		// compared with the projection obtained in this history step.
		n := bindnode.Wrap(values[i](), ts.TypeByName(names[i]))
		expect[i], _ = model.Project(n.Representation())
	}
	for si, st := range h.Steps {
		i := st.T - 1
		var typ schema.Type
		expect := expect
		if st.Mode == "explicit" {
			typ = tsX.TypeByName(namesX[i])
			expect = expectX
		}
		target := "bindnode." + st.Op + "[" + st.Mode + "]"
		fail := func(class, detail string) *run.Finding {
			var hs []string
			for _, s := range h.Steps[:si+1] {
				hs = append(hs, fmt.Sprintf("%s(%s,%s)", s.Op, names[s.T-1], s.Mode))
			}
			return &run.Finding{Step: si, Target: target, Rule: "AlwaysSucceeds/SameResult", Class: class,
				Detail: fmt.Sprintf("history %s: %s", strings.Join(hs, "; "), detail)}
		}
		var got model.Value
		var perr error
		p := model.Safe(func() {
			switch st.Op {
			case "Prototype":
				proto := bindnode.Prototype(values[i](), typ)
				nb := proto.Representation().NewBuilder()
				if perr = (model.Conc{}).BuildInto(nb, expect[i]); perr == nil {
					got, perr = model.Project(nb.Build().(schema.TypedNode).Representation())
				}
			case "Wrap":
				got, perr = model.Project(bindnode.Wrap(values[i](), typ).Representation())
			case "WrapBuildUnwrap":
				proto := bindnode.Prototype(values[i](), typ)
				nb := proto.Representation().NewBuilder()
				if perr = (model.Conc{}).BuildInto(nb, expect[i]); perr == nil {
					u := bindnode.Unwrap(nb.Build())
					if !sameData(u, values[i]()) {
						perr = fmt.Errorf("unwrapped %+v", deref(u))
					} else {
						got = expect[i]
					}
				}
			case "MarshalUnmarshal":
				var data []byte
				data, perr = ipld.Marshal(dagcbor.Encode, values[i](), typ)
				if perr == nil {
					fresh := reflect.New(reflect.TypeOf(values[i]()).Elem()).Interface()
					if _, perr = ipld.Unmarshal(data, dagcbor.Decode, fresh, typ); perr == nil {
						if !sameData(fresh, values[i]()) {
							perr = fmt.Errorf("round trip gave %+v", deref(fresh))
						} else {
							got = expect[i]
						}
					}
				}
			}
		})
		if p != nil {
			return fail("panic", fmt.Sprint(p))
		}
		if perr != nil {
			return fail("error", perr.Error())
		}
		if !got.Equal(expect[i]) {
			return fail("different-result", fmt.Sprintf("got %v, alone it gives %v", got, expect[i]))
		}
	}
	return nil
}
