package replay

import (
	"bytes"
	"context"
	"crypto/sha256"
	"fmt"
	cidlink "github.com/ipld/go-ipld-prime/linking/cid"
	"github.com/ipld/go-ipld-prime/storage/fsstore"
	"os"
	"runtime"
	"strings"
	"sync"
	"sync/atomic"

	"github.com/ipld/go-ipld-prime/codec/dagcbor"
	"github.com/ipld/go-ipld-prime/codec/dagjson"
	"github.com/ipld/go-ipld-prime/datamodel"
	"github.com/ipld/go-ipld-prime/linking"
	"github.com/ipld/go-ipld-prime/node/basicnode"
	"github.com/ipld/go-ipld-prime/node/bindnode"
	"github.com/ipld/go-ipld-prime/schema"
	"github.com/ipld/go-ipld-prime/traversal"
	"github.com/ipld/go-ipld-prime/traversal/selector"

	"verifharness/model"
	"verifharness/run"
)

// ConcMix is one operation mix of specs/Concurrency.tla: per goroutine, the operations it performs.
type ConcMix struct {
	Mix [][]string `json:"mix"`
}

// ConcWorld holds the shared immutable objects.
type ConcWorld struct {
	basic, basic2 datamodel.Node
	bind          schema.TypedNode
	bindProto     schema.TypedPrototype
	ts            *schema.TypeSystem
	gr            *Graph
	sel           selector.Selector
	selDMT        datamodel.Node
	fsLS          linking.LinkSystem
	fsDir         string // the directory of the shared filesystem store (removed by Close)
	cfg           *traversal.Config
	baseline      map[string]string
	gen           schema.TypedNode // a node of freshly generated code (only in the runner built with the generated package)
	genProto      datamodel.NodePrototype
	genVal        model.Value
	// BaselineFinding: set when the sequential reference run itself misbehaved
	BaselineFinding *run.Finding
}

func sv(k string, n int) model.Value {
	return model.Value{K: k, A: []int{n}, Ks: [][]int{}, Vs: []model.Value{}}
}

func NewConcWorld() (*ConcWorld, error) {
	w := &ConcWorld{baseline: map[string]string{}}
	c := model.Conc{Sym: true}
	val := model.Value{K: "map", A: []int{}, Ks: [][]int{{1}, {2}, {3}}, Vs: []model.Value{sv("int", 1), sv("string", 2),
		{K: "list", A: []int{}, Ks: [][]int{}, Vs: []model.Value{sv("bool", 1), sv("bytes", 2), sv("float", 1), sv("link", 1)}}}}
	var err error
	if w.basic, err = c.BuildImpl("basic", val); err != nil {
		return nil, err
	}
	w.basic2, _ = c.BuildImpl("basic", val)
	w.ts = histTypeSystem()
	w.ts.Accumulate(schema.SpawnStruct("HConv", []schema.StructField{schema.SpawnStructField("F", "String", false, false)},
		schema.SpawnStructRepresentationMap(nil)))
	w.bindProto = bindnode.Prototype((*HTeam)(nil), w.ts.TypeByName("HTeam"))
	w.bind = bindnode.Wrap(&HTeam{Lead: HPerson{"ada", 36}, Members: []HPerson{{"bob", 1}, {"eve", 2}}, Tags: HTags{"x"}}, w.ts.TypeByName("HTeam"))
	// a graph of linked blocks in a read-only store
	I := func(n int) model.Value {
		return model.Value{K: "int", A: []int{0, n}, Ks: [][]int{}, Vs: []model.Value{}}
	}
	L := func(b int) model.Value {
		return model.Value{K: "link", A: []int{b}, Ks: [][]int{}, Vs: []model.Value{}}
	}
	M := func(ks string, vs ...model.Value) model.Value {
		m := model.Value{K: "map", A: []int{}, Ks: [][]int{}, Vs: vs}
		for _, ch := range ks {
			m.Ks = append(m.Ks, []int{int(ch)})
		}
		return m
	}
	g := []model.Value{M("abc", L(2), L(3), M("a", I(1))), M("ab", I(2), L(3)), M("a", I(3)), M("z", I(9))}
	if w.gr, err = BuildGraph(g); err != nil {
		return nil, err
	}
	w.selDMT = SelectorDMT(SelAST{T: "rec", A: []int{-1, -1}, Ss: []SelAST{{T: "union", Ss: []SelAST{{T: "match"}, {T: "all", Ss: []SelAST{{T: "edge"}}}}}}}, w.gr.Links)
	w.sel, err = selector.CompileSelector(SelectorDMT(SelAST{T: "rec", A: []int{-1, -1}, Ss: []SelAST{{T: "union", Ss: []SelAST{{T: "match"}, {T: "all", Ss: []SelAST{{T: "edge"}}}}}}}, w.gr.Links))
	if err != nil {
		return nil, err
	}
	// the graph's blocks once more in a filesystem store (read-only from here on)
	fsdir, err := os.MkdirTemp("", "verif-conc-fsstore-")
	if err != nil {
		return nil, err
	}
	w.fsDir = fsdir
	fst := &fsstore.Store{}
	if err := fst.InitDefaults(fsdir); err != nil {
		return nil, err
	}
	for k, v := range w.gr.Store.Bag {
		if err := fst.Put(context.Background(), k, v); err != nil {
			return nil, err
		}
	}
	w.fsLS = cidlink.DefaultLinkSystem()
	w.fsLS.SetReadStorage(fst)
	w.cfg = &traversal.Config{LinkSystem: w.gr.LS, LinkTargetNodePrototypeChooser: func(datamodel.Link, linking.LinkContext) (datamodel.NodePrototype, error) {
		return basicnode.Prototype.Any, nil
	}}
	if GenProtos != nil {
		// type T0 of the catalogue (SchemaCat!R10): struct {f S6 {a Int, b Int, c optional String}, g optional U1 (keyed union),
		// h nullable [nullable String]} with renames
		pp, ok := GenProtos["T0"]
		if !ok {
			return nil, fmt.Errorf("the generated package has no type T0")
		}
		bs := func(s string) []int { return model.Ints([]byte(s)) }
		str := func(s string) model.Value {
			return model.Value{K: "string", A: bs(s), Ks: [][]int{}, Vs: []model.Value{}}
		}
		I := func(n int) model.Value {
			return model.Value{K: "int", A: []int{0, n}, Ks: [][]int{}, Vs: []model.Value{}}
		}
		null := model.Value{K: "null", A: []int{}, Ks: [][]int{}, Vs: []model.Value{}}
		w.genVal = model.Value{K: "map", A: []int{}, Ks: [][]int{bs("f"), bs("g"), bs("h")}, Vs: []model.Value{
			{K: "map", A: []int{}, Ks: [][]int{bs("a"), bs("b"), bs("c")}, Vs: []model.Value{I(1), I(2), str("x")}},
			{K: "map", A: []int{}, Ks: [][]int{bs("String")}, Vs: []model.Value{str("s")}},
			{K: "list", A: []int{}, Ks: [][]int{}, Vs: []model.Value{str("a"), null}}}}
		w.genProto = pp[0]
		nb := w.genProto.NewBuilder()
		if err := (model.Conc{}).BuildInto(nb, w.genVal); err != nil {
			return nil, fmt.Errorf("building the shared generated node: %w", err)
		}
		tn, ok := nb.Build().(schema.TypedNode)
		if !ok {
			return nil, fmt.Errorf("the generated node is not a typed node")
		}
		w.gen = tn
		ConcOps = append(ConcOps, "read-gen", "read-gen-repr", "encode-gen", "copy-gen", "build-gen")
	}
	// The sequential reference: every operation alone, twice over the whole list.  An operation that fails
	// here, or whose result differs the second time round (some EARLIER operation changed a shared object),
	// already breaks "each obtains the same results as it would running alone": it is reported as a finding
	// (BaselineFinding), not as a machinery error.
	for pass := 0; pass < 2 && w.BaselineFinding == nil; pass++ {
		for _, op := range ConcOps {
			var r string
			var err error
			if p := model.Safe(func() { r, err = w.Do(op, 0, nil) }); p != nil {
				err = fmt.Errorf("panic: %v", p)
			}
			if err == nil && pass == 1 && r != w.baseline[op] {
				err = fmt.Errorf("result changed between two sequential runs: %q then %q", w.baseline[op], r)
			}
			if err != nil {
				w.BaselineFinding = &run.Finding{Step: -1, Target: "concurrent", Rule: "SameResultAsAlone[sequential]", Class: "different-result",
					Detail: fmt.Sprintf("operation %s, run sequentially after %v (pass %d): %v", op, ConcOps, pass+1, err)}
				break
			}
			w.baseline[op] = r
		}
	}
	return w, nil
}

// HConv: a Go struct field bound to a schema String through a custom converter ("x|y")
type HConvInner struct{ A, B string }
type HConv struct{ F HConvInner }

var hconvOption = bindnode.TypedStringConverter(&HConvInner{},
	func(s string) (interface{}, error) {
		parts := strings.SplitN(s, "|", 2)
		if len(parts) != 2 {
			return nil, fmt.Errorf("HConvInner: no separator in %q", s)
		}
		return &HConvInner{parts[0], parts[1]}, nil
	},
	func(v interface{}) (string, error) {
		in, ok := v.(*HConvInner)
		if !ok {
			return "", fmt.Errorf("HConvInner: got %T", v)
		}
		return in.A + "|" + in.B, nil
	})

// (bind-plain comes before bind-converter: the sequential reference runs the list twice, so the refusal is seen both
// before and after the same pair was bound with the converter)
// Close removes what the world keeps on disk.
func (w *ConcWorld) Close() {
	if w.fsDir != "" {
		os.RemoveAll(w.fsDir)
	}
}

var freshNext int64

var ConcOps = []string{"bind-plain", "bind-converter", "focus-get", "transform", "compile-selector", "load-fs", "infer-first", "read-basic", "read-bind", "read-bind-repr", "deep-equal", "copy", "encode-cbor", "encode-json", "walk", "load",
	"loadraw", "build-basic", "build-bind", "wrap-explicit", "proto-inferred", "struct-lookup", "ts-clone", "ts-merge"}

func projStr(n datamodel.Node) (string, error) {
	v, err := model.Project(n)
	return v.String(), err
}

// readAll: a full read through EVERY read form (iteration, length, lookups by string / segment / node / index),
// recursively; the digest is the projection plus the number of lookups that answered.
func readAll(n datamodel.Node) (string, error) {
	v, err := model.Project(n)
	if err != nil {
		return "", err
	}
	lookups := 0
	var walk func(n datamodel.Node) error
	walk = func(n datamodel.Node) error {
		switch n.Kind() {
		case datamodel.Kind_Map:
			_ = n.Length()
			for itr := n.MapIterator(); !itr.Done(); {
				k, c, err := itr.Next()
				if err != nil {
					return err
				}
				ks, err := k.AsString()
				if err != nil {
					return err
				}
				for _, look := range []func() (datamodel.Node, error){
					func() (datamodel.Node, error) { return n.LookupByString(ks) },
					func() (datamodel.Node, error) { return n.LookupBySegment(datamodel.PathSegmentOfString(ks)) },
					func() (datamodel.Node, error) { return n.LookupByNode(basicnode.NewString(ks)) },
				} {
					if _, err := look(); err != nil {
						return fmt.Errorf("lookup of the iterated key %q: %w", ks, err)
					}
					lookups++
				}
				if !c.IsAbsent() {
					if err := walk(c); err != nil {
						return err
					}
				}
			}
			n.LookupByString("no-such-key-\x00")
		case datamodel.Kind_List:
			l := n.Length()
			for i := int64(0); i < l; i++ {
				c, err := n.LookupByIndex(i)
				if err != nil {
					return err
				}
				if _, err := n.LookupBySegment(datamodel.PathSegmentOfInt(i)); err != nil {
					return err
				}
				lookups += 2
				if err := walk(c); err != nil {
					return err
				}
			}
			n.LookupByIndex(l)
		}
		return nil
	}
	if err := walk(n); err != nil {
		return "", err
	}
	return fmt.Sprintf("%s lookups=%d", v.String(), lookups), nil
}

// freshStruct: a struct type nobody has looked a field up on yet, and a node of it (per mix).
type freshStruct struct {
	node  datamodel.Node
	mu    sync.Mutex
	infer map[int]int // goroutine -> index of the fresh Go type it binds first in this mix
}

func newFreshStruct() *freshStruct {
	ts := new(schema.TypeSystem)
	ts.Init()
	ts.Accumulate(schema.SpawnString("String"))
	ts.Accumulate(schema.SpawnInt("Int"))
	ts.Accumulate(schema.SpawnStruct("HPerson", []schema.StructField{
		schema.SpawnStructField("Name", "String", false, false), schema.SpawnStructField("Age", "Int", false, false)},
		schema.SpawnStructRepresentationMap(nil)))
	return &freshStruct{node: bindnode.Wrap(&HPerson{"ada", 36}, ts.TypeByName("HPerson"))}
}

// Do performs one operation and returns a digest of its result.
func (w *ConcWorld) Do(op string, g int, fresh *freshStruct) (string, error) {
	switch op {
	case "read-basic":
		return readAll(w.basic)
	case "read-bind":
		return readAll(w.bind)
	case "read-bind-repr":
		return readAll(w.bind.Representation())
	case "deep-equal":
		return fmt.Sprint(datamodel.DeepEqual(w.basic, w.basic2), datamodel.DeepEqual(w.bind, w.bind)), nil
	case "copy":
		nb := basicnode.Prototype.Any.NewBuilder()
		if err := datamodel.Copy(w.basic, nb); err != nil {
			return "", err
		}
		return projStr(nb.Build())
	case "encode-cbor":
		var b1, b2 bytes.Buffer
		if err := dagcbor.Encode(w.basic, &b1); err != nil {
			return "", err
		}
		if err := dagcbor.Encode(w.bind.Representation(), &b2); err != nil {
			return "", err
		}
		return fmt.Sprintf("%x %x", b1.Bytes(), b2.Bytes()), nil
	case "encode-json":
		var b1 bytes.Buffer
		if err := dagjson.Encode(w.basic, &b1); err != nil {
			return "", err
		}
		return b1.String(), nil
	case "walk":
		var visits []string
		err := traversal.Progress{Cfg: w.cfg}.WalkAdv(w.gr.Root, w.sel, func(p traversal.Progress, n datamodel.Node, r traversal.VisitReason) error {
			visits = append(visits, p.Path.String())
			return nil
		})
		return fmt.Sprint(visits), err
	case "load":
		n, err := w.gr.LS.Load(linking.LinkContext{}, w.gr.Links[1+g%3], basicnode.Prototype.Any)
		if err != nil {
			return "", err
		}
		s, err := projStr(n)
		return fmt.Sprintf("block%d:%s", 1+g%3, s), err
	case "loadraw":
		b, err := w.gr.LS.LoadRaw(linking.LinkContext{}, w.gr.Links[1+g%3])
		if err != nil {
			return "", err
		}
		runtime.Gosched() // keep using the bytes for a while
		sum := sha256.Sum256(b)
		return fmt.Sprintf("block%d:%x", 1+g%3, sum[:8]), nil
	case "load-fs":
		// the same blocks through a link system over a shared, read-only FILESYSTEM store: each goroutine its own link
		n, err := w.fsLS.Load(linking.LinkContext{}, w.gr.Links[1+g%3], basicnode.Prototype.Any)
		if err != nil {
			return "", err
		}
		s, err := projStr(n)
		return fmt.Sprintf("block%d:%s", 1+g%3, s), err
	case "build-basic":
		nb := basicnode.Prototype.Map.NewBuilder()
		ma, _ := nb.BeginMap(2)
		va, _ := ma.AssembleEntry("x")
		va.AssignInt(int64(7))
		va, _ = ma.AssembleEntry("y")
		va.AssignString("s")
		ma.Finish()
		return projStr(nb.Build())
	case "build-bind":
		nb := w.bindProto.NewBuilder()
		if err := datamodel.Copy(w.bind, nb); err != nil {
			return "", err
		}
		return projStr(nb.Build())
	case "wrap-explicit":
		return projStr(bindnode.Wrap(&HPerson{"ada", 36}, w.ts.TypeByName("HPerson")))
	case "proto-inferred":
		p := bindnode.Prototype((*HTeam)(nil), nil)
		nb := p.NewBuilder()
		if err := datamodel.Copy(w.bind, nb); err != nil {
			return "", err
		}
		return projStr(nb.Build())
	case "focus-get":
		n, err := traversal.Progress{Cfg: w.cfg}.Get(w.gr.Root, datamodel.ParsePath("a/a"))
		if err != nil {
			return "", err
		}
		return projStr(n)
	case "transform":
		// a focused transform of a SHARED tree: the result is a new tree, the shared one is only read
		n, err := traversal.Progress{Cfg: w.cfg}.FocusedTransform(w.gr.Root, datamodel.ParsePath("c/a"),
			func(_ traversal.Progress, _ datamodel.Node) (datamodel.Node, error) { return basicnode.NewInt(99), nil }, false)
		if err != nil {
			return "", err
		}
		a, err := projStr(n)
		if err != nil {
			return "", err
		}
		b, err := projStr(w.gr.Root)
		return a + " / shared tree still " + b, err
	case "compile-selector":
		// compiling from a SHARED selector document, then a matching walk with the private result
		sel, err := selector.CompileSelector(w.selDMT)
		if err != nil {
			return "", err
		}
		count := 0
		err = traversal.Progress{Cfg: w.cfg}.WalkMatching(w.gr.Root, sel, func(traversal.Progress, datamodel.Node) error { count++; return nil })
		return fmt.Sprintf("%d matches", count), err
	case "infer-first":
		// the FIRST inferred bind of a Go type nobody has bound before (a pool of fresh named types; once it is used up
		// the operation is an ordinary inferred bind), followed by a build through the prototype
		// (one fresh type per goroutine and mix: its first iteration is the first bind, the later ones are ordinary)
		claim := func() int {
			i := int(atomic.AddInt64(&freshNext, 1)-1)*3 + 240 // (the first 240 belong to vh bindrace; every third type nests another one: the plain ones only)
			if i >= len(FreshTypes) {
				return 0
			}
			return i
		}
		i := 0
		if fresh == nil {
			i = claim()
		} else {
			fresh.mu.Lock()
			if fresh.infer == nil {
				fresh.infer = map[int]int{}
			}
			var ok bool
			if i, ok = fresh.infer[g]; !ok {
				i = claim()
				fresh.infer[g] = i
			}
			fresh.mu.Unlock()
		}
		p := bindnode.Prototype(FreshTypes[i], nil)
		st, ok := p.Type().(*schema.TypeStruct)
		if !ok {
			return "", fmt.Errorf("inferred type is %T", p.Type())
		}
		d := ""
		for _, f := range st.Fields() {
			d += f.Name() + "=" + f.Type().Name() + " "
		}
		nb := p.NewBuilder()
		ma, err := nb.BeginMap(2)
		if err != nil {
			return "", err
		}
		va, err := ma.AssembleEntry("A")
		if err != nil {
			return "", err
		}
		va.AssignInt(7)
		va, err = ma.AssembleEntry("B")
		if err != nil {
			return "", err
		}
		va.AssignString("x")
		if err := ma.Finish(); err != nil {
			return "", err
		}
		r, err := projStr(nb.Build())
		return d + r, err
	case "bind-plain":
		// The Go type HConv holds a Go STRUCT where the schema type HConv has a String: without a converter the pair is
		// incompatible and the binding must be refused -- whoever else bound the same pair before, and however.
		var n datamodel.Node
		if p := model.Safe(func() { n = bindnode.Wrap(&HConv{F: HConvInner{"x", "y"}}, w.ts.TypeByName("HConv")) }); p != nil {
			return "refused", nil
		}
		r, err := readAll(n)
		return "accepted: " + r, err
	case "bind-converter":
		// the same pair WITH the converter that makes it compatible
		n := bindnode.Wrap(&HConv{F: HConvInner{"x", "y"}}, w.ts.TypeByName("HConv"), hconvOption)
		return readAll(n)
	case "struct-lookup":
		n := w.bind.(datamodel.Node)
		if fresh != nil {
			n = fresh.node
			a, err := n.LookupByString("Age")
			if err != nil {
				return "", err
			}
			b, err := n.LookupByString("Name")
			if err != nil {
				return "", err
			}
			x, _ := a.AsInt()
			y, _ := b.AsString()
			return fmt.Sprintf("%d %s", x, y), nil
		}
		return "36 ada", nil
	case "read-gen":
		return readAll(w.gen)
	case "read-gen-repr":
		return readAll(w.gen.Representation())
	case "encode-gen":
		var b1 bytes.Buffer
		if err := dagcbor.Encode(w.gen.Representation(), &b1); err != nil {
			return "", err
		}
		return fmt.Sprintf("%x", b1.Bytes()), nil
	case "copy-gen":
		nb := basicnode.Prototype.Any.NewBuilder()
		if err := datamodel.Copy(w.gen, nb); err != nil {
			return "", err
		}
		return projStr(nb.Build())
	case "build-gen":
		nb := w.genProto.NewBuilder()
		if err := (model.Conc{}).BuildInto(nb, w.genVal); err != nil {
			return "", err
		}
		return projStr(nb.Build())
	case "ts-clone":
		// copy a type out of the shared, finished type system and look at both the copy and the original
		orig := w.ts.TypeByName("HTeam").(*schema.TypeStruct)
		cl := schema.Clone(orig).(*schema.TypeStruct)
		out := ""
		for _, f := range orig.Fields() {
			out += f.Name() + ":" + f.Type().Name() + ":" + f.Parent().Name() + " "
		}
		return fmt.Sprintf("%s| %d fields cloned", out, len(cl.Fields())), nil
	case "ts-merge":
		// merge the shared type system into a fresh one; the shared one must stay as it is
		var ts2 schema.TypeSystem
		ts2.Init()
		schema.MergeTypeSystem(&ts2, w.ts, true)
		orig := w.ts.TypeByName("HTeam").(*schema.TypeStruct)
		out := ""
		for _, f := range orig.Fields() {
			out += f.Name() + ":" + f.Type().Name() + " "
		}
		return fmt.Sprintf("%s| %d types merged", out, len(ts2.Names())), nil
	}
	return "", fmt.Errorf("unknown op %s", op)
}

// baselineFor: load / loadraw depend on the goroutine's block
func (w *ConcWorld) expected(op string, g int) string {
	if op == "load" || op == "loadraw" || op == "load-fs" {
		r, _ := w.Do(op, g, nil)
		return r
	}
	return w.baseline[op]
}

// RunMix runs the goroutines of one mix free-running and compares every result with the sequential one.
func (w *ConcWorld) RunMix(mix *ConcMix, iters int) (*run.Finding, int) {
	fresh := newFreshStruct()
	exp := make([][]string, len(mix.Mix))
	for g, ops := range mix.Mix {
		for _, op := range ops {
			exp[g] = append(exp[g], w.expected(op, g))
		}
	}
	var wg sync.WaitGroup
	var mu sync.Mutex
	var finding *run.Finding
	start := make(chan struct{})
	checks := 0
	for g, ops := range mix.Mix {
		wg.Add(1)
		go func(g int, ops []string) {
			defer wg.Done()
			<-start
			for it := 0; it < iters; it++ {
				for oi, op := range ops {
					var got string
					var err error
					p := model.Safe(func() { got, err = w.Do(op, g, fresh) })
					mu.Lock()
					checks++
					if finding == nil {
						switch {
						case p != nil:
							finding = &run.Finding{Step: -1, Target: "concurrent:" + op, Rule: "SameResultAsAlone", Class: "panic", Detail: fmt.Sprintf("mix %v: %v", mix.Mix, p)}
						case err != nil:
							finding = &run.Finding{Step: -1, Target: "concurrent:" + op, Rule: "SameResultAsAlone", Class: "error", Detail: fmt.Sprintf("mix %v: %v", mix.Mix, err)}
						case got != exp[g][oi]:
							finding = &run.Finding{Step: -1, Target: "concurrent:" + op, Rule: "SameResultAsAlone", Class: "different-result", Detail: fmt.Sprintf("mix %v: goroutine %d got %.200s, alone %.200s", mix.Mix, g, got, exp[g][oi])}
						}
					}
					mu.Unlock()
				}
			}
		}(g, ops)
	}
	close(start)
	wg.Wait()
	return finding, checks
}
