package replay

import (
	"bytes"
	"fmt"
	"github.com/ipfs/go-cid"

	"github.com/ipld/go-ipld-prime/codec/dagcbor"
	"github.com/ipld/go-ipld-prime/codec/dagjson"
	"github.com/ipld/go-ipld-prime/datamodel"
	"github.com/ipld/go-ipld-prime/linking"
	cidlink "github.com/ipld/go-ipld-prime/linking/cid"
	"github.com/ipld/go-ipld-prime/node/basicnode"
	"github.com/ipld/go-ipld-prime/node/bindnode"
	"github.com/ipld/go-ipld-prime/schema"
	"github.com/ipld/go-ipld-prime/storage/memstore"
	"github.com/ipld/go-ipld-prime/traversal"
	"github.com/ipld/go-ipld-prime/traversal/selector"

	"verifharness/model"
	"verifharness/run"
)

type ImNode struct {
	V   model.Value `json:"v"`
	By  string      `json:"by"`
	Src int         `json:"src"`
}
type ImStep struct {
	Op   string `json:"op"`
	I    int    `json:"i"`
	Made bool   `json:"made"`
}
type ImCase struct {
	First ImNode   `json:"first"`
	Steps []ImStep `json:"steps"`
	Nodes []ImNode `json:"nodes"`
}

type liveNode struct {
	n           datamodel.Node
	v           model.Value
	nb          datamodel.NodeBuilder // the builder that produced it, if the history still holds it
	typed       bool                  // a schema-typed node of generated code: read with the typed observation rules
	gen         bool                  // built by the generated builder (which can only build values of its type)
	typedInside bool                  // derived from a typed node: may hold typed nodes as children
}

func protoForProducer(by string, v model.Value) datamodel.NodePrototype {
	switch by {
	case "basic-typed":
		np, _ := model.ProtoFor("basic-typed", v.K)
		return np
	case "bind":
		np, _ := model.ProtoFor("bind", v.K)
		return np
	}
	return basicnode.Prototype.Any
}

// ReplayImmutable runs one history; after EVERY step every finished node is read twice in full.
func ReplayImmutable(cs *ImCase) (*run.Finding, int) {
	conc := model.Conc{}
	checks := 0
	fail := func(i int, target, rule, class, detail string) *run.Finding {
		return &run.Finding{Step: i, Target: target, Rule: rule, Class: class, Detail: detail}
	}
	var live []liveNode
	// ---- the first node
	v0 := cs.First.V
	switch cs.First.By {
	case "decode-cbor", "decode-json":
		src, err := conc.BuildImpl("basic", v0)
		if err != nil {
			return fail(-1, "harness", "producer", "error", err.Error()), 0
		}
		var buf bytes.Buffer
		nb := basicnode.Prototype.Any.NewBuilder()
		if cs.First.By == "decode-cbor" {
			dagcbor.Encode(src, &buf)
			err = dagcbor.Decode(nb, bytes.NewReader(buf.Bytes()))
		} else {
			dagjson.Encode(src, &buf)
			err = dagjson.Decode(nb, bytes.NewReader(buf.Bytes()))
		}
		if err != nil {
			return fail(-1, "harness", "producer", "error", err.Error()), 0
		}
		live = append(live, liveNode{n: nb.Build(), v: v0, nb: nb})
	case "gen":
		pp, ok := GenProtos["T0"]
		if !ok {
			return fail(-1, "harness", "producer", "error", "this binary has no generated type T0"), 0
		}
		nb := pp[0].NewBuilder()
		if err := conc.BuildInto(nb, v0); err != nil {
			return fail(-1, "gengo", "producer", "error", err.Error()), 0
		}
		live = append(live, liveNode{n: nb.Build(), v: v0, nb: nb, typed: true, gen: true})
	default:
		nb := protoForProducer(cs.First.By, v0).NewBuilder()
		if err := conc.BuildInto(nb, v0); err != nil {
			return fail(-1, "harness", "producer", "error", err.Error()), 0
		}
		live = append(live, liveNode{n: nb.Build(), v: v0, nb: nb})
	}
	recheck := func(step int, after string) *run.Finding {
		for j, ln := range live {
			if ln.n == nil {
				continue // placeholder: the implementation documents that it cannot perform that operation
			}
			for pass := 1; pass <= 2; pass++ { // two reads of every accessor return equal results
				// a node with schema-typed nodes inside (embedded as they are by AssignNode) answers lookups of unknown keys
				// with the typed implementation's own error type
				if m := conc.CheckObs(ln.n, ln.v, model.ObsOpts{Typed: ln.typed || ln.typedInside, PrimaryOnly: ln.typed}); m != nil {
					return fail(step, "node:"+cs.producerOf(j), "FinishedNeverChanges/"+m.Field, obsClass(m),
						fmt.Sprintf("node #%d (%s) after %s, read pass %d: %v", j+1, cs.producerOf(j), after, pass, m))
				}
				checks++
			}
		}
		return nil
	}
	if f := recheck(-1, "creation"); f != nil {
		return f, checks
	}
	ls := cidlink.DefaultLinkSystem()
	st := &memstore.Store{}
	ls.SetReadStorage(st)
	ls.SetWriteStorage(st)
	matchAll, _ := selector.CompileSelector(SelectorDMT(SelAST{T: "rec", A: []int{-1, -1}, Ss: []SelAST{{T: "union", Ss: []SelAST{{T: "match"}, {T: "all", Ss: []SelAST{{T: "edge"}}}}}}}, nil))
	subset, _ := selector.CompileSelector(SelectorDMT(SelAST{T: "all", Ss: []SelAST{{T: "subset", A: []int{1, 3}}}}, nil))
	for si, s := range cs.Steps {
		if s.I < 1 || s.I > len(live) {
			continue // the specification allowed an index that no node occupies yet: nothing happens
		}
		src := live[s.I-1]
		if src.n == nil {
			if s.Made && len(live) < len(cs.Nodes) {
				live = append(live, liveNode{})
			}
			continue
		}
		var made datamodel.Node
		var madeNb datamodel.NodeBuilder
		var operr error
		p := model.Safe(func() {
			switch s.Op {
			case "read":
				model.Project(src.n)
			case "iter-partial":
				if it := src.n.MapIterator(); it != nil && !it.Done() {
					it.Next()
				}
				if it := src.n.ListIterator(); it != nil && !it.Done() {
					it.Next()
				}
				if src.n.Kind() == datamodel.Kind_Bytes {
					if lb, ok := src.n.(datamodel.LargeBytesNode); ok {
						if r, err := lb.AsLargeBytes(); err == nil {
							var one [1]byte
							r.Read(one[:])
						}
					}
				}
			case "encode-cbor":
				var b bytes.Buffer
				operr = dagcbor.Encode(src.n, &b)
			case "encode-json":
				var b bytes.Buffer
				operr = dagjson.Encode(src.n, &b)
			case "copy-extend-basic", "copy-extend-bind", "embed-extend":
				np := datamodel.NodePrototype(basicnode.Prototype.Map)
				if s.Op == "copy-extend-bind" {
					np, _ = model.ProtoFor("bind", "map")
				}
				if s.Op == "embed-extend" {
					np = basicnode.Prototype.Any
				}
				nb := np.NewBuilder()
				ma, err := nb.BeginMap(2)
				if err != nil {
					operr = err
					return
				}
				va, err := ma.AssembleEntry("orig")
				if err != nil {
					operr = err
					return
				}
				if s.Op == "embed-extend" {
					operr = va.AssignNode(src.n) // shares structure where the implementation takes a shortcut
				} else {
					operr = datamodel.Copy(src.n, va)
				}
				if operr != nil {
					return
				}
				va, _ = ma.AssembleEntry("more")
				va.AssignInt(1)
				if operr = ma.Finish(); operr == nil {
					made, madeNb = nb.Build(), nb
				}
			case "assign-top-then-reset":
				nb := src.n.Prototype().NewBuilder()
				if operr = nb.AssignNode(src.n); operr != nil {
					return
				}
				made = nb.Build()
				// the same builder is reset and used for something else
				if pr := model.Safe(func() { nb.Reset() }); pr == nil {
					rv := reuseValue(src.v)
					if src.typed {
						rv = src.v // a typed builder can only build values of its type
					}
					model.Safe(func() {
						if conc.BuildInto(nb, rv) == nil {
							nb.Build()
						}
					})
				}
			case "reset-reuse":
				if src.nb == nil {
					return
				}
				nb := src.nb
				if pr := model.Safe(func() { nb.Reset() }); pr != nil {
					operr = fmt.Errorf("Reset panicked: %v", pr)
					return
				}
				rv := reuseValue(src.v)
				if src.gen && len(live) < len(cs.Nodes) {
					rv = cs.Nodes[len(live)].V // the value the specification gives the reused generated builder
				}
				if operr = conc.BuildInto(nb, rv); operr == nil {
					made, madeNb = nb.Build(), nb
				}
			case "walk":
				operr = traversal.WalkMatching(src.n, matchAll, func(traversal.Progress, datamodel.Node) error { return nil })
			case "walk-subset":
				var first datamodel.Node
				operr = traversal.WalkMatching(src.n, subset, func(_ traversal.Progress, n datamodel.Node) error {
					if first == nil {
						first = n
					}
					return nil
				})
				made = first
			case "transform":
				if (src.v.K == "map" || src.v.K == "list") && len(src.v.Vs) > 0 {
					seg := "0"
					if src.v.K == "map" {
						seg = string(model.Bytes(src.v.Ks[0]))
					}
					made, operr = traversal.FocusedTransform(src.n, datamodel.ParsePath(seg), func(traversal.Progress, datamodel.Node) (datamodel.Node, error) {
						return basicnode.NewString("new"), nil
					}, false)
				} else {
					made = src.n
				}
			case "stale-assembler":
				// a new map {a:1, b:[2]} built by hand on a builder of the source's implementation family, keeping
				// the value-assembler handle of the last entry; after Build the stale handle is called (under
				// recover: it may panic) -- the finished node must not change
				np := datamodel.NodePrototype(basicnode.Prototype.Map)
				if s.I%2 == 0 {
					np = basicnode.Prototype.Any
				}
				nb := np.NewBuilder()
				ma, err := nb.BeginMap(2)
				if err != nil {
					operr = err
					return
				}
				va, _ := ma.AssembleEntry("a")
				va.AssignInt(1)
				stale, _ := ma.AssembleEntry("b")
				la, err := stale.BeginList(1)
				if err != nil {
					operr = err
					return
				}
				la.AssembleValue().AssignInt(2)
				la.Finish()
				ma.Finish()
				made, madeNb = nb.Build(), nb
				model.Safe(func() { stale.AssignString("clobbered") })
				model.Safe(func() {
					if e, err := ma.AssembleEntry("c"); err == nil {
						e.AssignInt(3)
					}
				})
			case "wrap-assign-mutate":
				// {x: [1, 2]} as a Go value of the caller, wrapped; the wrapped node assigned into a builder of the
				// same schema type and Go type; then the caller changes ITS OWN Go value (map, slice elements, slice
				// header).  The node the builder returned is a copy and must not follow.
				ts := new(schema.TypeSystem)
				ts.Init()
				ts.Accumulate(schema.SpawnInt("Int"))
				ts.Accumulate(schema.SpawnString("String"))
				ts.Accumulate(schema.SpawnList("Ints", "Int", false))
				ts.Accumulate(schema.SpawnMap("MapOfInts", "String", "Ints", false))
				type mapOfInts struct {
					Keys   []string
					Values map[string][]int64
				}
				g := &mapOfInts{Keys: []string{"x"}, Values: map[string][]int64{"x": append(make([]int64, 0, 8), 1, 2)}}
				typ := ts.TypeByName("MapOfInts")
				wrapped := bindnode.Wrap(g, typ)
				nb := bindnode.Prototype((*mapOfInts)(nil), typ).NewBuilder()
				if err := nb.AssignNode(wrapped); err != nil {
					operr = err
					return
				}
				made = nb.Build()
				g.Values["x"][0] = 99
				g.Values["x"] = append(g.Values["x"], 3)
				g.Values["y"] = []int64{7}
				g.Keys[0] = "q"
				g.Keys = append(g.Keys, "y")
			case "store-load":
				lp := linkProto
				if src.n.Kind() == datamodel.Kind_Bytes {
					// bytes travel as a RAW block (codec 0x55), whose decoder hands out what it was given
					lp = cidlink.LinkPrototype{Prefix: cid.Prefix{Version: 1, Codec: 0x55, MhType: 0x12, MhLength: -1}}
				}
				lnk, err := ls.Store(linking.LinkContext{}, lp, src.n)
				if err != nil {
					operr = err
					return
				}
				made, operr = ls.Load(linking.LinkContext{}, lnk, basicnode.Prototype.Any)
			}
		})
		checks++
		if p != nil {
			return fail(si, "op:"+s.Op, "operation-completes", "panic", fmt.Sprintf("on node #%d (%s): %v", s.I, cs.producerOf(s.I-1), p)), checks
		}
		if operr != nil {
			// bindnode builders cannot Reset (documented TODO): not what this property is about
			if s.Op == "reset-reuse" || s.Op == "assign-top-then-reset" {
				if s.Made && len(live) < len(cs.Nodes) {
					live = append(live, liveNode{})
				}
				continue
			}
			return fail(si, "op:"+s.Op, "operation-completes", "error", fmt.Sprintf("on node #%d (%s): %v", s.I, cs.producerOf(s.I-1), operr)), checks
		}
		if s.Made && len(live) < len(cs.Nodes) {
			if made != nil {
				_, isTyped := made.(schema.TypedNode)
				live = append(live, liveNode{n: made, v: cs.Nodes[len(live)].V, nb: madeNb,
					typed:       isTyped && src.typed && (s.Op == "reset-reuse" || s.Op == "assign-top-then-reset"),
					gen:         src.gen && s.Op == "reset-reuse",
					typedInside: src.typed || src.typedInside})
			} else {
				live = append(live, liveNode{})
			}
		}
		if f := recheck(si, fmt.Sprintf("step %d %s(node #%d)", si+1, s.Op, s.I)); f != nil {
			return f, checks
		}
	}
	return nil, checks
}

func (cs *ImCase) producerOf(j int) string {
	if j < len(cs.Nodes) {
		return cs.Nodes[j].By
	}
	return "?"
}

func reuseValue(v model.Value) model.Value {
	I := func(n int) model.Value {
		return model.Value{K: "int", A: []int{0, n}, Ks: [][]int{}, Vs: []model.Value{}}
	}
	switch v.K {
	case "map":
		return model.Value{K: "map", A: []int{}, Ks: [][]int{{122}}, Vs: []model.Value{I(9)}}
	case "list":
		return model.Value{K: "list", A: []int{}, Ks: [][]int{}, Vs: []model.Value{I(9), I(8)}}
	}
	return I(9)
}

// sortValue re-orders maps the way the key-sorting codecs do.
func sortValue(v model.Value, lenFirst bool) model.Value {
	out := model.Value{K: v.K, A: v.A, Ks: v.Ks, Vs: make([]model.Value, len(v.Vs))}
	for i, c := range v.Vs {
		out.Vs[i] = sortValue(c, lenFirst)
	}
	if v.K == "map" {
		idx := make([]int, len(v.Ks))
		for i := range idx {
			idx[i] = i
		}
		less := func(a, b []int) bool {
			if lenFirst && len(a) != len(b) {
				return len(a) < len(b)
			}
			return bytes.Compare(model.Bytes(a), model.Bytes(b)) < 0
		}
		for i := 1; i < len(idx); i++ {
			for j := i; j > 0 && less(v.Ks[idx[j]], v.Ks[idx[j-1]]); j-- {
				idx[j], idx[j-1] = idx[j-1], idx[j]
			}
		}
		ks := make([][]int, len(idx))
		vs := make([]model.Value, len(idx))
		for i, j := range idx {
			ks[i], vs[i] = v.Ks[j], out.Vs[j]
		}
		out.Ks, out.Vs = ks, vs
	}
	return out
}
