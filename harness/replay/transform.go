package replay

import (
	"fmt"

	"github.com/ipld/go-ipld-prime/datamodel"
	"github.com/ipld/go-ipld-prime/linking"
	cidlink "github.com/ipld/go-ipld-prime/linking/cid"
	"github.com/ipld/go-ipld-prime/node/basicnode"
	"github.com/ipld/go-ipld-prime/traversal"
	"github.com/ipld/go-ipld-prime/traversal/selector"

	"verifharness/model"
	"verifharness/run"
)

type TfOp struct {
	T string      `json:"t"`
	V model.Value `json:"v"`
}

// TfCase is one line of specs/TransformGen.tla.
type TfCase struct {
	Kind    string        `json:"kind"`
	G       []model.Value `json:"g"`
	Sel     SelAST        `json:"sel"`
	Path    [][]int       `json:"path"`
	Op      TfOp          `json:"op"`
	Cp      bool          `json:"cp"`
	Path2   [][]int       `json:"path2"`
	Op2     TfOp          `json:"op2"`
	Ok      bool          `json:"ok"`
	Result  model.Value   `json:"result"`  // expanded tree
	Result2 model.Value   `json:"result2"` // walk cases: what Transform!WT2 prescribes for the copy callback
	Seen    model.Value   `json:"seen"`    // what the callback must be shown (expanded)
}

// expandReal reads a real node into an expanded tree: link nodes get the loaded target as child.
func expandReal(ls *linking.LinkSystem, n datamodel.Node, blockOf map[string]int) (model.Value, error) {
	if n == nil {
		return model.Value{K: "nil"}, fmt.Errorf("a nil datamodel.Node sits inside the tree")
	}
	v := model.Value{K: model.KindName(n.Kind()), A: []int{}, Ks: [][]int{}, Vs: []model.Value{}}
	switch n.Kind() {
	case datamodel.Kind_Map:
		for itr := n.MapIterator(); !itr.Done(); {
			k, c, err := itr.Next()
			if err != nil {
				return v, err
			}
			ks, _ := k.AsString()
			cv, err := expandReal(ls, c, blockOf)
			if err != nil {
				return v, err
			}
			v.Ks = append(v.Ks, model.Ints([]byte(ks)))
			v.Vs = append(v.Vs, cv)
		}
	case datamodel.Kind_List:
		for itr := n.ListIterator(); !itr.Done(); {
			_, c, err := itr.Next()
			if err != nil {
				return v, err
			}
			cv, err := expandReal(ls, c, blockOf)
			if err != nil {
				return v, err
			}
			v.Vs = append(v.Vs, cv)
		}
	case datamodel.Kind_Link:
		l, err := n.AsLink()
		if err != nil {
			return v, err
		}
		// the payload of an expanded link is the ORIGINAL block id when the link is an original one, 0 for a new block
		v.A = []int{blockOf[l.Binary()]}
		t, err := ls.Load(linking.LinkContext{}, l, basicnode.Prototype.Any)
		if err != nil {
			return v, fmt.Errorf("load %v: %w", l, err)
		}
		tv, err := expandReal(ls, t, blockOf)
		if err != nil {
			return v, err
		}
		v.Vs = []model.Value{tv}
	default:
		return model.Project(n)
	}
	return v, nil
}

// equalExpanded compares expanded trees.  Below a link wrapper the entry order of maps is whatever the
// codec of the stored block makes it (canonical), so maps there are compared as sets of entries.
func equalExpanded(a, b model.Value, strictLinks bool) bool { return eqExp(a, b, strictLinks, false) }

func eqExp(a, b model.Value, strictLinks, underLink bool) bool {
	if a.K != b.K || len(a.Vs) != len(b.Vs) || len(a.Ks) != len(b.Ks) {
		return false
	}
	if a.K == "link" {
		if strictLinks && !(len(a.A) == 1 && len(b.A) == 1 && a.A[0] == b.A[0]) {
			return false
		}
		underLink = true
	} else if !intsEq2(a.A, b.A) {
		return false
	}
	if a.K == "map" && underLink {
		for i := range a.Ks {
			found := false
			for j := range b.Ks {
				if intsEq2(a.Ks[i], b.Ks[j]) {
					found = eqExp(a.Vs[i], b.Vs[j], strictLinks, underLink)
					break
				}
			}
			if !found {
				return false
			}
		}
		return true
	}
	for i := range a.Ks {
		if !intsEq2(a.Ks[i], b.Ks[i]) {
			return false
		}
	}
	for i := range a.Vs {
		if !eqExp(a.Vs[i], b.Vs[i], strictLinks, underLink) {
			return false
		}
	}
	return true
}

func intsEq2(a, b []int) bool {
	if len(a) != len(b) {
		return false
	}
	for i := range a {
		if a[i] != b[i] {
			return false
		}
	}
	return true
}

// untouchedLinksKept: wherever the result holds, at the same position, a link whose expanded content
// equals the original's, it must be the original link (untouched blocks keep their links).
func untouchedLinksKept(orig, res model.Value, path string) string {
	if orig.K != res.K {
		return ""
	}
	if orig.K == "link" {
		if equalExpanded(orig, res, false) && len(res.A) == 1 && len(orig.A) == 1 && res.A[0] != orig.A[0] {
			return fmt.Sprintf("at %q an untouched block (original block %d) got a different link", path, orig.A[0])
		}
		if len(orig.Vs) == 1 && len(res.Vs) == 1 {
			return untouchedLinksKept(orig.Vs[0], res.Vs[0], path)
		}
		return ""
	}
	if orig.K == "map" {
		for i := range orig.Ks {
			for j := range res.Ks {
				if intsEq2(orig.Ks[i], res.Ks[j]) {
					if m := untouchedLinksKept(orig.Vs[i], res.Vs[j], path+"/"+string(model.Bytes(orig.Ks[i]))); m != "" {
						return m
					}
				}
			}
		}
	}
	return ""
}

// concrete value for a replacement (no links inside)
func buildPlain(v model.Value) datamodel.Node {
	n, err := (model.Conc{}).BuildImpl("basic", v)
	if err != nil {
		panic(err)
	}
	return n
}

// ReplayTransform runs one focused / sequential / walking transform.  Focused transforms run a second time under another
// configuration of the link system: a NodeReifier that changes what loaded blocks LOOK like (addMarkEntry).  A transform
// rewrites what is STORED: the result must be the same (a reified view written back would not reproduce the graph).
func ReplayTransform(cs *TfCase) (*run.Finding, int) {
	f, n := replayTransform(cs, false, false)
	if f != nil {
		return f, n
	}
	if cs.Kind == "walk" {
		// Walking transforms run a second time with another callback (Transform!WT2): integers become "X" and every
		// container is answered with a fresh COPY of itself -- a replacement, beneath which the walk does not go on.
		if cs.Result2.K == "" {
			return nil, n
		}
		f2, n2 := replayTransform(cs, false, true)
		return f2, n + n2
	}
	f2, n2 := replayTransform(cs, true, false)
	if f2 != nil {
		f2.Detail = "link system with a NodeReifier that adds an entry to every loaded map: " + f2.Detail
	}
	return f2, n + n2
}

func replayTransform(cs *TfCase, reify bool, copyCallback bool) (*run.Finding, int) {
	wantResult := cs.Result
	if copyCallback {
		wantResult = cs.Result2
	}
	checks := 0
	fail := func(target, rule, class, detail string) *run.Finding {
		return &run.Finding{Step: -1, Target: target, Rule: rule, Class: class, Detail: detail}
	}
	gr, err := BuildGraph(cs.G)
	if err != nil {
		return fail("harness", "build-graph", "error", err.Error()), 0
	}
	cfg := &traversal.Config{LinkSystem: gr.LS,
		LinkTargetNodePrototypeChooser: func(datamodel.Link, linking.LinkContext) (datamodel.NodePrototype, error) {
			return basicnode.Prototype.Any, nil
		}}
	if reify {
		cfg.LinkSystem.NodeReifier = addMarkEntry // (cfg holds its own copy of the link system; gr.LS stays plain for reading back)
	}
	origExp, err := expandReal(&gr.LS, gr.Root, gr.BlockOf)
	if err != nil {
		return fail("harness", "expand", "error", err.Error()), 0
	}
	storeBefore := map[string]string{}
	for k, v := range gr.Store.Bag {
		storeBefore[k] = string(v)
	}
	var result datamodel.Node
	var terr error
	var shown []model.Value
	var shownPaths []string
	target := "traversal.FocusedTransform"
	what := fmt.Sprintf("path %q op %s createParents=%v", pathString(cs.Path), cs.Op.T, cs.Cp)
	apply := func(root datamodel.Node, path [][]int, op TfOp, cp bool) (datamodel.Node, error) {
		return traversal.Progress{Cfg: cfg}.FocusedTransform(root, pathOf(path), func(p traversal.Progress, n datamodel.Node) (datamodel.Node, error) {
			sv := model.Value{K: "nil"}
			if n != nil && !n.IsAbsent() {
				sv, _ = expandReal(&gr.LS, n, gr.BlockOf)
			}
			shown = append(shown, sv)
			shownPaths = append(shownPaths, canonOf(p.Path))
			switch op.T {
			case "id":
				return n, nil
			case "rm":
				return nil, nil
			}
			return buildPlain(op.V), nil
		}, cp)
	}
	pn := model.Safe(func() {
		switch cs.Kind {
		case "focus":
			result, terr = apply(gr.Root, cs.Path, cs.Op, cs.Cp)
		case "focus2":
			var mid datamodel.Node
			mid, terr = apply(gr.Root, cs.Path, cs.Op, cs.Cp)
			if terr == nil {
				shown, shownPaths = nil, nil
				result, terr = apply(mid, cs.Path2, cs.Op2, true)
			}
			what += fmt.Sprintf(" then path %q op %s", pathString(cs.Path2), cs.Op2.T)
		case "walk":
			target = "traversal.WalkTransforming"
			what = "selector-driven transform (ints become \"X\")"
			if copyCallback {
				what = "selector-driven transform (ints become \"X\", containers are answered with a fresh copy of themselves)"
			}
			var sel selector.Selector
			sel, terr = selector.CompileSelector(SelectorDMT(cs.Sel, gr.Links))
			if terr != nil {
				return
			}
			result, terr = traversal.Progress{Cfg: cfg}.WalkTransforming(gr.Root, sel, func(p traversal.Progress, n datamodel.Node) (datamodel.Node, error) {
				if n.Kind() == datamodel.Kind_Int {
					return basicnode.NewString("X"), nil
				}
				if copyCallback && (n.Kind() == datamodel.Kind_Map || n.Kind() == datamodel.Kind_List) {
					nb := basicnode.Prototype.Any.NewBuilder()
					if err := datamodel.Copy(n, nb); err != nil {
						return nil, err
					}
					return nb.Build(), nil
				}
				return n, nil
			})
		}
	})
	checks++
	rule := "Upd:" + cs.Op.T + ":ok"
	if !cs.Ok {
		rule = "Upd:" + cs.Op.T + ":error"
	}
	if cs.Kind == "walk" {
		rule = "WT"
	}
	if pn != nil {
		return fail(target, rule, "panic", what+": "+fmt.Sprint(pn)), checks
	}
	// the input is never changed, whatever the outcome
	afterExp, err := expandReal(&gr.LS, gr.Root, gr.BlockOf)
	if err != nil || !equalExpanded(origExp, afterExp, true) {
		return fail(target, "InputUnchanged", "input-changed", fmt.Sprintf("%s: the input tree reads differently after the transform (%v)", what, err)), checks
	}
	for k, v := range storeBefore {
		if string(gr.Store.Bag[k]) != v {
			return fail(target, "InputUnchanged", "block-changed", what+": a pre-existing block changed in storage"), checks
		}
	}
	checks += 2
	if !cs.Ok {
		if terr == nil {
			rv, _ := expandReal(&gr.LS, result, gr.BlockOf)
			return fail(target, rule, "succeeded", fmt.Sprintf("%s: returned %v", what, rv)), checks
		}
		return nil, checks
	}
	if terr != nil {
		return fail(target, rule, "error", what+": "+terr.Error()), checks
	}
	resExp, err := expandReal(&gr.LS, result, gr.BlockOf)
	if err != nil {
		return fail(target, rule, "unreadable-result", what+": "+err.Error()), checks
	}
	if !equalExpanded(resExp, wantResult, false) {
		class := "different-tree"
		if eqExp(inlineLinks(resExp), inlineLinks(wantResult), false, true) {
			// the content is right, but links the transform went through were replaced by the loaded
			// block's content instead of being stored again and re-linked
			class = "link-inlined"
		}
		return fail(target, rule, class, fmt.Sprintf("%s: result %v, specification %v", what, resExp, wantResult)), checks
	}
	checks++
	if m := untouchedLinksKept(origExp, resExp, ""); m != "" && cs.Kind != "focus2" {
		return fail(target, "UntouchedBlocksKeepLinks", "relinked", what+": "+m), checks
	}
	checks++
	// the callback sees the node currently at the target, at the target's path
	if cs.Kind == "focus" && len(shown) > 0 {
		last := shown[len(shown)-1]
		if !(cs.Seen.IsNil() && last.IsNil()) && !equalExpanded(last, cs.Seen, false) {
			return fail(target, "CallbackSeesTarget", "different-node", fmt.Sprintf("%s: callback was shown %v, target holds %v", what, last, cs.Seen)), checks
		}
		if shownPaths[len(shownPaths)-1] != pathString(cs.Path) && !(len(cs.Path) > 0 && string(model.Bytes(cs.Path[len(cs.Path)-1])) == "-") {
			return fail(target, "CallbackSeesTarget", "different-path", fmt.Sprintf("%s: callback Progress.Path %q", what, shownPaths[len(shownPaths)-1])), checks
		}
		checks += 2
	}
	_ = cidlink.Link{}
	return nil, checks
}

// inlineLinks replaces every link wrapper by the expanded content it carries.
func inlineLinks(v model.Value) model.Value {
	if v.K == "link" && len(v.Vs) == 1 {
		return inlineLinks(v.Vs[0])
	}
	out := model.Value{K: v.K, A: v.A, Ks: v.Ks, Vs: make([]model.Value, len(v.Vs))}
	for i, c := range v.Vs {
		out.Vs[i] = inlineLinks(c)
	}
	return out
}
