package replay

import (
	"fmt"
	"sort"

	"github.com/ipld/go-ipld-prime/datamodel"
	"github.com/ipld/go-ipld-prime/fluent"
	"github.com/ipld/go-ipld-prime/fluent/qp"
	"github.com/ipld/go-ipld-prime/node/basicnode"

	"verifharness/model"
	"verifharness/run"
)

// The closure front ends -- package fluent (errors become panics, containers are filled inside callbacks) and package
// fluent/qp (callbacks over the plain assemblers, entries only) -- drive the SAME protocol machine as Assembler.tla: the
// calls of a behaviour up to its first Build are regrouped into nested closures.  What differs is prescribed by
// Assembler!AbortsAt: the first refused call aborts the whole build, which then returns that call's error and no node.

type errNotRefused struct{ step int }

func (e errNotRefused) Error() string {
	return fmt.Sprintf("harness: call #%d was not refused", e.step)
}

type closureRun struct {
	steps   []AsmStep
	i       int
	conc    model.Conc
	refused int // index of the step whose refusal is expected to abort the build, -1 if none was reached
}

func (c *closureRun) cur() AsmStep { return c.steps[c.i] }

// expectRefusal is called right before a call that the specification refuses; notRefused right after it returned normally.
func (c *closureRun) expectRefusal() { c.refused = c.i }
func (c *closureRun) notRefused()    { panic(errNotRefused{c.i}) }

func fluentAssignScalar(na fluent.NodeAssembler, g model.GoScalar) {
	switch g.Kind {
	case datamodel.Kind_Null:
		na.AssignNull()
	case datamodel.Kind_Bool:
		na.AssignBool(g.B)
	case datamodel.Kind_Int:
		if g.IsUint {
			na.AssignNode(basicnode.NewUint(g.U))
		} else {
			na.AssignInt(g.I)
		}
	case datamodel.Kind_Float:
		na.AssignFloat(g.F)
	case datamodel.Kind_String:
		na.AssignString(g.S)
	case datamodel.Kind_Bytes:
		na.AssignBytes(append([]byte{}, g.Bs...))
	case datamodel.Kind_Link:
		na.AssignLink(g.L)
	default:
		panic(fmt.Sprintf("harness: cannot assign kind %v", g.Kind))
	}
}

// ---- package fluent
func (c *closureRun) fluentValue(na fluent.NodeAssembler) {
	st := c.cur()
	refuse := st.R != "ok"
	if refuse {
		c.expectRefusal()
	}
	switch st.A {
	case "AssignScalar":
		g, err := c.conc.Scalar(st.V)
		if err != nil {
			panic(err.Error())
		}
		fluentAssignScalar(na, g)
		c.i++
	case "AssignNode":
		n, err := c.conc.BuildImpl(st.Impl, st.V)
		if err != nil {
			panic(err.Error())
		}
		na.AssignNode(n)
		c.i++
	case "BeginMap":
		na.CreateMap(int64(st.X), func(ma fluent.MapAssembler) {
			if refuse {
				c.notRefused()
			}
			c.i++
			c.fluentMap(ma)
		})
		return
	case "BeginList":
		na.CreateList(int64(st.X), func(la fluent.ListAssembler) {
			if refuse {
				c.notRefused()
			}
			c.i++
			c.fluentList(la)
		})
		return
	default:
		panic("harness: unexpected step " + st.A + " at a value position")
	}
	if refuse {
		c.notRefused()
	}
}

func (c *closureRun) fluentMap(ma fluent.MapAssembler) {
	for {
		st := c.cur()
		switch st.A {
		case "Finish":
			c.i++
			return // CreateMap calls Finish
		case "AssembleEntry":
			if st.R != "ok" {
				c.expectRefusal()
				ma.AssembleEntry(c.conc.Key(st.Key))
				c.notRefused()
			}
			va := ma.AssembleEntry(c.conc.Key(st.Key))
			c.i++
			c.fluentValue(va)
		case "AssembleKey":
			ka := ma.AssembleKey()
			c.i++
			ks := c.cur()
			if ks.R != "ok" {
				c.expectRefusal()
			}
			switch ks.A {
			case "KeyAssignString":
				ka.AssignString(c.conc.Key(ks.Key))
			case "KeyAssignNode":
				ka.AssignNode(basicnode.NewString(c.conc.Key(ks.Key)))
			case "KeyAssignScalar":
				g, err := c.conc.Scalar(ks.V)
				if err != nil {
					panic(err.Error())
				}
				fluentAssignScalar(ka, g)
			default:
				panic("harness: unexpected step " + ks.A + " after AssembleKey")
			}
			if ks.R != "ok" {
				c.notRefused()
			}
			c.i++
			if c.cur().A != "AssembleValue" {
				panic("harness: expected AssembleValue, found " + c.cur().A)
			}
			c.i++
			c.fluentValue(ma.AssembleValue())
		default:
			panic("harness: unexpected step " + st.A + " in a map")
		}
	}
}

func (c *closureRun) fluentList(la fluent.ListAssembler) {
	for {
		st := c.cur()
		switch st.A {
		case "Finish":
			c.i++
			return
		case "ListAssembleValue":
			c.i++
			c.fluentValue(la.AssembleValue())
		default:
			panic("harness: unexpected step " + st.A + " in a list")
		}
	}
}

// ---- package fluent/qp
func (c *closureRun) qpValue() qp.Assemble {
	st := c.cur()
	refuse := st.R != "ok"
	switch st.A {
	case "AssignScalar":
		g, err := c.conc.Scalar(st.V)
		if err != nil {
			panic(err.Error())
		}
		return func(na datamodel.NodeAssembler) {
			if refuse {
				c.expectRefusal()
			}
			switch g.Kind {
			case datamodel.Kind_Null:
				qp.Null()(na)
			case datamodel.Kind_Bool:
				qp.Bool(g.B)(na)
			case datamodel.Kind_Int:
				if g.IsUint {
					qp.Node(basicnode.NewUint(g.U))(na)
				} else {
					qp.Int(g.I)(na)
				}
			case datamodel.Kind_Float:
				qp.Float(g.F)(na)
			case datamodel.Kind_String:
				qp.String(g.S)(na)
			case datamodel.Kind_Bytes:
				qp.Bytes(append([]byte{}, g.Bs...))(na)
			case datamodel.Kind_Link:
				qp.Link(g.L)(na)
			}
			if refuse {
				c.notRefused()
			}
			c.i++
		}
	case "AssignNode":
		n, err := c.conc.BuildImpl(st.Impl, st.V)
		if err != nil {
			panic(err.Error())
		}
		return func(na datamodel.NodeAssembler) {
			if refuse {
				c.expectRefusal()
			}
			qp.Node(n)(na)
			if refuse {
				c.notRefused()
			}
			c.i++
		}
	case "BeginMap":
		return func(na datamodel.NodeAssembler) {
			if refuse {
				c.expectRefusal()
			}
			qp.Map(int64(st.X), func(ma datamodel.MapAssembler) {
				if refuse {
					c.notRefused()
				}
				c.i++
				c.qpMap(ma)
			})(na)
		}
	case "BeginList":
		return func(na datamodel.NodeAssembler) {
			if refuse {
				c.expectRefusal()
			}
			qp.List(int64(st.X), func(la datamodel.ListAssembler) {
				if refuse {
					c.notRefused()
				}
				c.i++
				c.qpList(la)
			})(na)
		}
	}
	panic("harness: unexpected step " + st.A + " at a value position")
}

func (c *closureRun) qpMap(ma datamodel.MapAssembler) {
	for {
		st := c.cur()
		switch st.A {
		case "Finish":
			c.i++
			return
		case "AssembleEntry":
			if st.R != "ok" {
				c.expectRefusal()
				qp.MapEntry(ma, c.conc.Key(st.Key), qp.Null())
				c.notRefused()
			}
			key := c.conc.Key(st.Key)
			c.i++
			qp.MapEntry(ma, key, c.qpValue())
		case "AssembleKey": // qp has entries only: the key / value route becomes MapEntry
			c.i++
			ks := c.cur()
			if ks.A == "KeyAssignScalar" {
				panic(errNotExpressible{})
			}
			if ks.R != "ok" {
				c.expectRefusal()
				qp.MapEntry(ma, c.conc.Key(ks.Key), qp.Null())
				c.notRefused()
			}
			key := c.conc.Key(ks.Key)
			c.i += 2 // the key assignment and AssembleValue
			qp.MapEntry(ma, key, c.qpValue())
		default:
			panic("harness: unexpected step " + st.A + " in a map")
		}
	}
}

func (c *closureRun) qpList(la datamodel.ListAssembler) {
	for {
		st := c.cur()
		switch st.A {
		case "Finish":
			c.i++
			return
		case "ListAssembleValue":
			c.i++
			qp.ListEntry(la, c.qpValue())
		default:
			panic("harness: unexpected step " + st.A + " in a list")
		}
	}
}

type errNotExpressible struct{}

func (errNotExpressible) Error() string { return "harness: not expressible with this front end" }

// ReplayClosureFrontEnds runs the first build of a behaviour through fluent.Build and qp.BuildMap / BuildList.
// abortAt is Assembler!AbortsAt (1-based index of the first refused call, 0 if none).
func ReplayClosureFrontEnds(cs *AsmCase, abortAt int, target string, conc model.Conc) (*run.Finding, int, int) {
	// the calls of the first build
	end := -1
	for i, st := range cs.Steps {
		if st.A == "Build" {
			end = i
			break
		}
	}
	steps := cs.Steps
	if end >= 0 {
		steps = cs.Steps[:end]
	}
	aborted := abortAt > 0 && abortAt <= len(steps) // (a refusal after the first Build belongs to a later build)
	if aborted {
		steps = steps[:abortAt]
	} else if end < 0 {
		return nil, 0, 0 // neither built nor refused: nothing the front ends can be asked
	}
	if len(steps) == 0 {
		return nil, 0, 0
	}
	checks, skipped := 0, 0
	np := asmProto(target)
	for _, fe := range []string{"fluent", "qp"} {
		c := &closureRun{steps: steps, conc: conc, refused: -1}
		var n datamodel.Node
		var err error
		tgt := fe + "(" + target + ")"
		inexpressible := false
		p := model.Safe(func() {
			defer func() {
				if r := recover(); r != nil {
					if _, ok := r.(errNotExpressible); ok {
						inexpressible = true
						return
					}
					panic(r)
				}
			}()
			if fe == "fluent" {
				n, err = fluent.Build(np, c.fluentValue)
				if fe2, ok := err.(fluent.Error); ok {
					err = fe2.Err
				}
				return
			}
			switch steps[0].A {
			case "BeginMap":
				first := steps[0]
				n, err = qp.BuildMap(np, int64(first.X), func(ma datamodel.MapAssembler) {
					if first.R != "ok" {
						c.notRefused()
					}
					c.i++
					c.qpMap(ma)
				})
				if first.R != "ok" {
					c.refused = 0
				}
			case "BeginList":
				first := steps[0]
				n, err = qp.BuildList(np, int64(first.X), func(la datamodel.ListAssembler) {
					if first.R != "ok" {
						c.notRefused()
					}
					c.i++
					c.qpList(la)
				})
				if first.R != "ok" {
					c.refused = 0
				}
			default:
				inexpressible = true // qp builds maps and lists only
			}
		})
		if inexpressible {
			skipped++
			continue
		}
		checks++
		fail := func(rule, class, detail string) *run.Finding {
			return &run.Finding{Step: c.i, Target: tgt, Rule: rule, Class: class, Detail: detail}
		}
		if nr, ok := p.(errNotRefused); ok {
			st := steps[nr.step]
			return fail(st.A+":"+st.R, "ok", fmt.Sprintf("the specification refuses call #%d (%s), the front end went on", nr.step, st.A)), checks, skipped
		}
		if e, ok := err.(errNotRefused); ok { // qp turns every panic value that is an error into its result
			st := steps[e.step]
			return fail(st.A+":"+st.R, "ok", fmt.Sprintf("the specification refuses call #%d (%s), the front end went on", e.step, st.A)), checks, skipped
		}
		if p != nil {
			return fail("Build", "panic", fmt.Sprint(p)), checks, skipped
		}
		if aborted {
			st := steps[len(steps)-1]
			if err == nil {
				return fail(st.A+":"+st.R, "ok", "the build was not aborted by the refused call"), checks, skipped
			}
			if got := ErrClass(err); !classMatches(st.R, got) {
				return fail(st.A+":"+st.R, got, fmt.Sprintf("the build returned %q (%v)", got, err)), checks, skipped
			}
			if n != nil {
				return fail(st.A+":"+st.R, "node-with-error", "a node was returned together with the error"), checks, skipped
			}
			continue
		}
		if err != nil {
			return fail("Build:ok", ErrClass(err), err.Error()), checks, skipped
		}
		if m := conc.CheckObs(n, cs.Results[0], model.ObsOpts{}); m != nil {
			return fail("Build:value/"+m.Field, "mismatch", m.Error()), checks, skipped
		}
		checks++
	}
	return nil, checks, skipped
}

// ---- fluent.Reflect / fluent.Reflector / fluent.ToInterface: a Go value tree in, a node out (and back).
// The node reads as the value with every map's entries in the order the Reflector's MapOrder prescribes (ascending by
// default) -- at every depth, whatever the value is nested in.

func goTree(v model.Value, conc model.Conc) (interface{}, bool) {
	switch v.K {
	case "map":
		m := map[string]interface{}{}
		for i := range v.Vs {
			x, ok := goTree(v.Vs[i], conc)
			if !ok {
				return nil, false
			}
			m[conc.Key(v.Ks[i])] = x
		}
		return m, true
	case "list":
		l := make([]interface{}, 0, len(v.Vs))
		for i := range v.Vs {
			x, ok := goTree(v.Vs[i], conc)
			if !ok {
				return nil, false
			}
			l = append(l, x)
		}
		return l, true
	case "link":
		return nil, false
	}
	g, err := conc.Scalar(v)
	if err != nil || g.IsUint {
		return nil, false
	}
	switch g.Kind {
	case datamodel.Kind_Null:
		return nil, true
	case datamodel.Kind_Bool:
		return g.B, true
	case datamodel.Kind_Int:
		return g.I, true
	case datamodel.Kind_Float:
		return g.F, true
	case datamodel.Kind_String:
		return g.S, true
	case datamodel.Kind_Bytes:
		return append([]byte{}, g.Bs...), true
	}
	return nil, false
}

// sortedBy returns v with the entries of every map ordered by less on the CONCRETE keys.
func sortedBy(v model.Value, conc model.Conc, less func(x, y string) bool) model.Value {
	w := model.Value{K: v.K, A: v.A, Ks: append([][]int{}, v.Ks...), Vs: make([]model.Value, len(v.Vs))}
	for i := range v.Vs {
		w.Vs[i] = sortedBy(v.Vs[i], conc, less)
	}
	if v.K == "map" {
		idx := make([]int, len(v.Ks))
		for i := range idx {
			idx[i] = i
		}
		sort.SliceStable(idx, func(a, b int) bool { return less(conc.Key(v.Ks[idx[a]]), conc.Key(v.Ks[idx[b]])) })
		ks, vs := make([][]int, len(idx)), make([]model.Value, len(idx))
		for i, j := range idx {
			ks[i], vs[i] = v.Ks[j], w.Vs[j]
		}
		w.Ks, w.Vs = ks, vs
	}
	return w
}

func reflectChecks(v model.Value, np datamodel.NodePrototype, target string, conc model.Conc, checks *int) *run.Finding {
	tree, ok := goTree(v, conc)
	if !ok {
		return nil
	}
	// the value nested once more in a list and in a map: the order must hold at every depth
	for _, wrap := range []string{"", "list", "map"} {
		in, want := tree, v
		switch wrap {
		case "list":
			if np != basicnode.Prototype.Any {
				continue
			}
			in = []interface{}{tree}
			want = model.Value{K: "list", A: []int{}, Ks: [][]int{}, Vs: []model.Value{v}}
		case "map":
			if np != basicnode.Prototype.Any {
				continue
			}
			in = map[string]interface{}{"w": []interface{}{tree}}
			want = model.Value{K: "map", A: []int{}, Ks: [][]int{{'w'}}, Vs: []model.Value{{K: "list", A: []int{}, Ks: [][]int{}, Vs: []model.Value{v}}}}
		}
		wc := conc
		if wrap == "map" {
			wc = model.Conc{} // the wrapper's key is literal; only usable when the concretisation is the plain one
			if conc != (model.Conc{}) {
				continue
			}
		}
		for _, ord := range []struct {
			name string
			less func(x, y string) bool
			r    fluent.Reflector
		}{
			{"default (ascending)", func(x, y string) bool { return x < y }, fluent.Reflector{MapOrder: func(x, y string) bool { return x < y }}},
			{"descending", func(x, y string) bool { return x > y }, fluent.Reflector{MapOrder: func(x, y string) bool { return x > y }}},
		} {
			var n datamodel.Node
			var err error
			if p := model.Safe(func() {
				if ord.name == "default (ascending)" {
					n, err = fluent.Reflect(np, in)
				} else {
					n, err = ord.r.Reflect(np, in)
				}
			}); p != nil {
				return &run.Finding{Step: -1, Target: "fluent.Reflect(" + target + ")", Rule: "Reflect:ok", Class: "panic", Detail: fmt.Sprintf("%v (wrapped in %q, order %s): %v", v, wrap, ord.name, p)}
			}
			if err != nil {
				return &run.Finding{Step: -1, Target: "fluent.Reflect(" + target + ")", Rule: "Reflect:ok", Class: "error", Detail: fmt.Sprintf("%v (wrapped in %q, order %s): %v", v, wrap, ord.name, err)}
			}
			if m := wc.CheckObs(n, sortedBy(want, wc, ord.less), model.ObsOpts{NoLookups: true}); m != nil {
				return &run.Finding{Step: -1, Target: "fluent.Reflect(" + target + ")", Rule: "Reflect:value-in-MapOrder/" + m.Field, Class: "mismatch",
					Detail: fmt.Sprintf("%v (wrapped in %q, order %s): %v", v, wrap, ord.name, m)}
			}
			*checks++
		}
	}
	return nil
}
