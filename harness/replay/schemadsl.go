package replay

import (
	"encoding/json"
	"fmt"
	"strconv"
	"strings"

	ipld "github.com/ipld/go-ipld-prime"
	"github.com/ipld/go-ipld-prime/schema"

	"verifharness/model"
)

// RenderDSL writes the type given as the JSON of a Schema.tla type record (and everything it refers to) in the
// IPLD Schema DSL.  This is the second way of constructing the same type system: DSL text -> schema/dsl parser
// -> schema/dmt -> Compile, instead of the schema.Spawn* calls of BuildTypeSystem.
func RenderDSL(raw json.RawMessage) (string, string, error) {
	var g interface{}
	if err := json.Unmarshal(raw, &g); err != nil {
		return "", "", err
	}
	var sb strings.Builder
	seen := map[string]bool{"Int": true, "String": true, "Bool": true, "Link": true, "Float": true, "Bytes": true}
	root, err := renderDSL(&sb, g, seen)
	return sb.String(), root, err
}

func dslName(x interface{}) string { return string(model.Bytes(gBytes(x))) }

func renderDSL(sb *strings.Builder, g interface{}, seen map[string]bool) (string, error) {
	m, ok := g.(map[string]interface{})
	if !ok {
		return "", fmt.Errorf("type is not a record: %v", g)
	}
	k := m["k"].(string)
	name := dslName(m["n"])
	if seen[name] {
		return name, nil
	}
	seen[name] = true
	nullable := func(b interface{}) string {
		if v, _ := b.(bool); v {
			return "nullable "
		}
		return ""
	}
	switch k {
	case "bool", "int", "float", "string", "bytes", "link":
		fmt.Fprintf(sb, "type %s %s\n", name, k)
	case "list":
		el, err := renderDSL(sb, m["el"], seen)
		if err != nil {
			return "", err
		}
		fmt.Fprintf(sb, "type %s [%s%s]\n", name, nullable(m["nul"]), el)
	case "map":
		val, err := renderDSL(sb, m["val"], seen)
		if err != nil {
			return "", err
		}
		fmt.Fprintf(sb, "type %s {String:%s%s}\n", name, nullable(m["nul"]), val)
	case "enum":
		rm := m["repr"].(map[string]interface{})
		vals := rm["vals"].([]interface{})
		fmt.Fprintf(sb, "type %s enum {\n", name)
		for i, x := range m["ms"].([]interface{}) {
			var key string
			if rm["r"].(string) == "string" {
				key = strconv.Quote(dslName(vals[i]))
			} else {
				key = strconv.Quote(strconv.Itoa(int(vals[i].(float64))))
			}
			if rm["r"].(string) == "string" && dslName(vals[i]) == dslName(x) {
				// the DSL's default: a member without a value is represented by its own name
				fmt.Fprintf(sb, "\t| %s\n", dslName(x))
				continue
			}
			fmt.Fprintf(sb, "\t| %s (%s)\n", dslName(x), key)
		}
		fmt.Fprintf(sb, "} representation %s\n", rm["r"].(string))
	case "struct":
		rm := m["repr"].(map[string]interface{})
		var lines []string
		ren, _ := rm["ren"].([]interface{})
		for i, f := range m["fs"].([]interface{}) {
			fm := f.(map[string]interface{})
			ft, err := renderDSL(sb, fm["ty"], seen)
			if err != nil {
				return "", err
			}
			line := "\t" + dslName(fm["name"]) + " "
			if v, _ := fm["opt"].(bool); v {
				line += "optional "
			}
			line += nullable(fm["nul"]) + ft
			if rm["r"].(string) == "map" && i < len(ren) && dslName(ren[i]) != dslName(fm["name"]) {
				line += " (rename " + strconv.Quote(dslName(ren[i])) + ")"
			}
			lines = append(lines, line)
		}
		fmt.Fprintf(sb, "type %s struct {\n%s\n} representation %s", name, strings.Join(lines, "\n"), rm["r"].(string))
		if rm["r"].(string) == "stringjoin" {
			fmt.Fprintf(sb, " {\n\tjoin %s\n}", strconv.Quote(dslName(rm["d"])))
		}
		sb.WriteString("\n")
	case "union":
		rm := m["repr"].(map[string]interface{})
		var lines []string
		disc, _ := rm["disc"].([]interface{})
		for i, x := range m["ms"].([]interface{}) {
			mn, err := renderDSL(sb, x, seen)
			if err != nil {
				return "", err
			}
			var key string
			switch rm["r"].(string) {
			case "keyed":
				key = strconv.Quote(dslName(disc[i]))
			case "stringprefix": // the DSL has no separate delimiter: it is part of each prefix
				key = strconv.Quote(dslName(disc[i]) + dslName(rm["d"]))
			case "kinded":
				key = genericReprKind(x.(map[string]interface{}))
			}
			lines = append(lines, "\t| "+mn+" "+key)
		}
		fmt.Fprintf(sb, "type %s union {\n%s\n} representation %s\n", name, strings.Join(lines, "\n"), rm["r"].(string))
	default:
		return "", fmt.Errorf("cannot render kind %q", k)
	}
	return name, nil
}

// genericReprKind: the representation kind of a type given as untyped JSON, in the DSL's spelling
func genericReprKind(m map[string]interface{}) string {
	k := m["k"].(string)
	r := ""
	if rm, ok := m["repr"].(map[string]interface{}); ok {
		r = rm["r"].(string)
	}
	switch k {
	case "struct":
		switch r {
		case "map":
			return "map"
		case "tuple", "listpairs":
			return "list"
		}
		return "string"
	case "union":
		if r == "keyed" {
			return "map"
		}
		return "string"
	case "enum":
		return r
	}
	return k
}

// BuildTypeSystemViaDSL: the same type system as BuildTypeSystem, built from rendered DSL text by the
// library's own loader (schema/dsl parser, schema/dmt, Compile).
func BuildTypeSystemViaDSL(raw json.RawMessage) (*schema.TypeSystem, string, error) {
	text, _, err := RenderDSL(raw)
	if err != nil {
		return nil, "", err
	}
	var ts *schema.TypeSystem
	if p := model.Safe(func() { ts, err = ipld.LoadSchemaBytes([]byte(text)) }); p != nil {
		return nil, text, fmt.Errorf("loading the schema panicked: %v", p)
	}
	return ts, text, err
}
