package replay

import (
	"bytes"
	"context"
	"encoding/base32"
	"errors"
	"fmt"
	"io"
	"os"
	"path/filepath"
	"runtime"
	"sort"
	"strconv"
	"strings"
	"sync"
	"time"

	"github.com/ipld/go-ipld-prime/storage/fsstore"

	"verifharness/run"
)

// FsStep is one step of a behaviour of specs/FsStore.tla.
type FsStep struct {
	T  string `json:"t"` // "w" writer, "r" reader, "env"
	I  int    `json:"i"`
	A  string `json:"a"`
	R  string `json:"r"`
	St struct {
		Stag [][]int `json:"stag"`
		Dest [][]int `json:"dest"`
		Dirs []int   `json:"dirs"`
	} `json:"st"`
}

type FsCase struct {
	Scenario string   `json:"scenario"`
	Steps    []FsStep `json:"steps"`
	WKey     []int    `json:"wkey"`
	WChunks  [][]int  `json:"wchunks"`
	WMode    []string `json:"wmode"`
	WPhase   []int    `json:"wphase"`
	RKey     []int    `json:"rkey"`
	RPhase   []int    `json:"rphase"`
	DirOf    []int    `json:"dirof"`
	WRet     []string `json:"wret"`
	RRes     [][]int  `json:"rres"`
}

const chunkLen = 64

// chunkBytes is the concrete content of chunk id c; a torn chunk (c+100) is its first half.
func chunkBytes(c int) []byte {
	if c > 100 {
		return chunkBytes(c - 100)[:chunkLen/2]
	}
	return bytes.Repeat([]byte{byte('A' + c)}, chunkLen)
}

func contentBytes(cs []int) []byte {
	var b []byte
	for _, c := range cs {
		b = append(b, chunkBytes(c)...)
	}
	return b
}

// absContent maps file content back to chunk ids; unknown content yields [-2].
func absContent(b []byte) []int {
	out := []int{}
	for len(b) > 0 {
		c := int(b[0] - 'A')
		if c < 1 || c > 50 {
			return []int{-2}
		}
		n := 0
		for n < len(b) && n < chunkLen && b[n] == b[0] {
			n++
		}
		switch n {
		case chunkLen:
			out = append(out, c)
		case chunkLen / 2:
			out = append(out, c+100)
		default:
			return []int{-2}
		}
		b = b[n:]
	}
	return out
}

var errCrash = errors.New("verif: simulated crash")
var errInjected = errors.New("verif: injected fault")

type crashSentinel struct{}

// gate is where a thread waits for the scheduler.
type gateMsg struct {
	name string
	path string
}
type gateCmd struct {
	kind string // "go", "fault", "die", or for stream writers the next caller action
}

type fsThread struct {
	id      string
	atGate  chan gateMsg // thread -> scheduler: "I am blocked at this gate" / closed on return
	cmd     chan gateCmd // scheduler -> thread
	cur     *gateMsg     // gate the thread is currently blocked at (nil: running or finished)
	done    bool
	err     error
	res     []byte
	resOK   bool
	started bool
	stag    string // staging path this thread created
}

func goid() int64 {
	var buf [64]byte
	n := runtime.Stack(buf[:], false)
	f := strings.Fields(string(buf[:n]))
	if len(f) < 2 {
		return -1
	}
	id, _ := strconv.ParseInt(f[1], 10, 64)
	return id
}

// fsWorld is one replay: a sandbox directory, the store(s), the threads.
type fsWorld struct {
	mu       sync.Mutex
	byGo     map[int64]*fsThread
	sandbox  string
	base     string
	stagOf   map[string]string // staging path -> writer thread id
	outside  []string          // filesystem paths touched outside base (C17)
	tornData map[string][]byte // thread id -> bytes a torn write puts into the staging file
}

var fsHookMu sync.Mutex // fsstore.VerifHook is process-global: one replay at a time

func (w *fsWorld) hook(point, path string) error {
	if !strings.HasPrefix(path, w.base+string(os.PathSeparator)) && path != w.base && path != "" {
		w.mu.Lock()
		w.outside = append(w.outside, point+":"+path)
		w.mu.Unlock()
	}
	w.mu.Lock()
	th := w.byGo[goid()]
	w.mu.Unlock()
	if th == nil {
		return nil // not a scheduled thread (plain sequential use)
	}
	if point == "create" {
		w.mu.Lock()
		w.stagOf[path] = th.id
		w.mu.Unlock()
		th.stag = path
	}
	if point == "write" && path == "" {
		path = th.stag
	}
	th.atGate <- gateMsg{point, path}
	c := <-th.cmd
	switch c.kind {
	case "die":
		panic(crashSentinel{})
	case "fault":
		if point == "write" {
			if d := w.tornData[th.id]; d != nil { // torn write: part of the data reaches the file
				if f, err := os.OpenFile(path, os.O_WRONLY|os.O_APPEND, 0); err == nil {
					f.Write(d)
					f.Close()
				}
			}
		}
		return errInjected
	}
	return nil
}

// gate is the harness-level wait point of stream writers (caller-side actions).
func (w *fsWorld) gate(th *fsThread, name string) gateCmd {
	th.atGate <- gateMsg{name, ""}
	c := <-th.cmd
	if c.kind == "die" {
		panic(crashSentinel{})
	}
	return c
}

func (w *fsWorld) spawn(th *fsThread, body func()) {
	th.atGate = make(chan gateMsg)
	th.cmd = make(chan gateCmd)
	th.started = true
	go func() {
		w.mu.Lock()
		w.byGo[goid()] = th
		w.mu.Unlock()
		defer func() {
			if r := recover(); r != nil {
				if _, ok := r.(crashSentinel); !ok {
					th.err = fmt.Errorf("panic: %v", r)
				} else {
					th.err = errCrash
				}
			}
			w.mu.Lock()
			delete(w.byGo, goid())
			w.mu.Unlock()
			close(th.atGate)
		}()
		body()
	}()
	w.await(th)
}

// await blocks until th is at a gate or has returned.
func (w *fsWorld) await(th *fsThread) {
	select {
	case m, ok := <-th.atGate:
		if !ok {
			th.done = true
			th.cur = nil
			return
		}
		th.cur = &m
	case <-time.After(20 * time.Second):
		th.err = fmt.Errorf("harness: thread %s did not reach a gate", th.id)
		th.done = true
	}
}

func (w *fsWorld) release(th *fsThread, kind string) {
	th.cur = nil
	th.cmd <- gateCmd{kind}
	w.await(th)
}

var b32 = base32.StdEncoding.WithPadding(base32.NoPadding)

// project reads the sandbox into the abstract state of FsStore.tla.
func (w *fsWorld) project(cs *FsCase, keys []string) (stag [][]int, dest [][]int, dirs []int, problems []string) {
	none := []int{0}
	stag = make([][]int, len(cs.WKey))
	for i := range stag {
		stag[i] = none
	}
	dest = make([][]int, len(keys))
	for i := range dest {
		dest[i] = none
	}
	dirset := map[int]bool{}
	filepath.Walk(w.base, func(p string, fi os.FileInfo, err error) error {
		if err != nil || p == w.base {
			return nil
		}
		rel, _ := filepath.Rel(w.base, p)
		if rel == ".temp" {
			return nil
		}
		if strings.HasPrefix(rel, ".temp"+string(os.PathSeparator)) {
			b, _ := os.ReadFile(p)
			w.mu.Lock()
			id := w.stagOf[p]
			w.mu.Unlock()
			if id == "" || id[0] != 'w' {
				problems = append(problems, "unattributed staging file "+rel)
				return nil
			}
			n, _ := strconv.Atoi(id[1:])
			stag[n-1] = absContent(b)
			return nil
		}
		if fi.IsDir() {
			// which abstract directory? the one some key of ours shards into
			matched := false
			for ki, k := range keys {
				for _, name := range []string{k, b32.EncodeToString([]byte(k))} {
					d := filepath.Dir(w.pathGuess(name))
					if d == p || strings.HasPrefix(d, p+string(os.PathSeparator)) {
						dirset[cs.DirOf[ki]] = true
						matched = true
					}
				}
			}
			if !matched {
				problems = append(problems, "unexpected directory "+rel)
			}
			return nil
		}
		b, _ := os.ReadFile(p)
		name := filepath.Base(p)
		for ki, k := range keys {
			if name == k || name == b32.EncodeToString([]byte(k)) {
				dest[ki] = absContent(b)
				return nil
			}
		}
		problems = append(problems, "unexpected file "+rel)
		return nil
	})
	for d := range dirset {
		dirs = append(dirs, d)
	}
	sort.Ints(dirs)
	return
}

// pathGuess: where the default sharding (next-to-last two characters) puts a file name.
func (w *fsWorld) pathGuess(name string) string {
	l := len(name)
	shard := "00"
	if l > 2 {
		shard = name[l-3 : l-1]
	}
	return filepath.Join(w.base, shard, name)
}

func intsEqual(a, b []int) bool {
	if len(a) != len(b) {
		return false
	}
	for i := range a {
		if a[i] != b[i] {
			return false
		}
	}
	return true
}

func intss(a [][]int) string { return fmt.Sprint(a) }

// FsOutcome is what one replay reports besides a possible finding.
type FsOutcome struct {
	Checks     int
	Divergence string // first internal difference between code and specification ("" if none)
}

// ReplayFsStore forces one TLC-generated schedule (with crash / fault steps) through the real store.
//
// Two kinds of comparison are made.  OBSERVABLE facts are what C18 (and C17) talk about: what is
// visible under a key, what a read returns, what an acknowledged put left behind, whether the
// directory still works after a crash, whether anything outside the base directory was touched.
// A difference there is a finding.  INTERNAL facts (which filesystem operation comes next, what a
// staging file holds, which directories exist) bind the specification to the code step by step; a
// difference there means the code no longer follows FsStore.tla -- it is recorded as a divergence,
// the rest of the schedule is then driven best-effort, and only observable facts are judged.
func ReplayFsStore(cs *FsCase, scratch string) (*run.Finding, FsOutcome) {
	fsHookMu.Lock()
	defer fsHookMu.Unlock()
	var out FsOutcome
	// the scenario tables may be longer than the number of threads actually instantiated
	nW, nR := len(cs.WRet), len(cs.RRes)
	cs.WKey, cs.WChunks, cs.WMode, cs.WPhase = cs.WKey[:nW], cs.WChunks[:nW], cs.WMode[:nW], cs.WPhase[:nW]
	cs.RKey, cs.RPhase = cs.RKey[:nR], cs.RPhase[:nR]
	target := "fsstore[" + cs.Scenario + "]"
	fail := func(i int, rule, class, detail string) *run.Finding {
		return &run.Finding{Step: i, Target: target, Rule: rule, Class: class, Detail: detail}
	}
	strict := true
	diverge := func(i int, what string) {
		if strict {
			strict = false
			out.Divergence = fmt.Sprintf("step %d: %s", i, what)
		}
	}
	sandbox, err := os.MkdirTemp(scratch, "fs-")
	if err != nil {
		return fail(-1, "harness", "error", err.Error()), out
	}
	defer os.RemoveAll(sandbox)
	w := &fsWorld{byGo: map[int64]*fsThread{}, sandbox: sandbox, base: filepath.Join(sandbox, "base"),
		stagOf: map[string]string{}, tornData: map[string][]byte{}}
	os.Mkdir(w.base, 0777)
	fsstore.VerifHook = w.hook
	defer func() { fsstore.VerifHook = nil }()
	defer unlimitFileSize()

	keys := []string{"aaaaaaaaaaTAIL5", "bbbbbbbbbbTAIL5"} // same length, same last 5 bytes: same shard raw and in base32
	stores := map[int]*fsstore.Store{}
	getStore := func(phase int) (*fsstore.Store, error) {
		if s := stores[phase]; s != nil {
			return s, nil
		}
		s := &fsstore.Store{}
		if err := s.InitDefaults(w.base); err != nil {
			return nil, err
		}
		stores[phase] = s
		return s, nil
	}
	writers := make([]*fsThread, nW)
	readers := make([]*fsThread, nR)
	returned := make([]bool, nW)
	faulted := false
	realFault := nW == 1 // single-writer fault scenarios: a real, persistent write failure (RLIMIT_FSIZE)
	var all []*fsThread
	ctx := context.Background()

	complete := func(k int) [][]int {
		var c [][]int
		for wi := range cs.WKey {
			if cs.WKey[wi]-1 == k && cs.WMode[wi] != "abort" {
				c = append(c, cs.WChunks[wi])
			}
		}
		return c
	}
	isComplete := func(k int, content []int) bool {
		for _, c := range complete(k) {
			if intsEqual(c, content) {
				return true
			}
		}
		return false
	}

	startWriter := func(i int) error {
		st, err := getStore(cs.WPhase[i])
		if err != nil {
			return err
		}
		th := &fsThread{id: fmt.Sprintf("w%d", i+1)}
		writers[i] = th
		all = append(all, th)
		key := keys[cs.WKey[i]-1]
		chunks := cs.WChunks[i]
		w.tornData[th.id] = chunkBytes(chunks[0] + 100)
		switch cs.WMode[i] {
		case "put":
			w.spawn(th, func() { th.err = st.Put(ctx, key, contentBytes(chunks)) })
		default: // "stream" / "abort": the caller's actions are scheduled too
			w.spawn(th, func() {
				wr, commit, err := st.PutStream(ctx)
				if err != nil {
					th.err = err
					return
				}
				n := 0
				var werr error
				for {
					c := w.gate(th, "caller")
					switch c.kind {
					case "swrite", "swrite-fault":
						if c.kind == "swrite-fault" {
							limitFileSize(int64(n*chunkLen + chunkLen/2))
						}
						if _, err := wr.Write(chunkBytes(chunks[n])); err != nil {
							werr = err
						}
						n++
					case "commit":
						// a caller whose write failed abandons the stream; so does an "abort" caller
						if cs.WMode[i] == "abort" || werr != nil {
							cerr := commit("")
							if werr != nil {
								th.err = werr
							} else {
								th.err = cerr
							}
						} else {
							th.err = commit(key)
						}
						return
					default:
						th.err = fmt.Errorf("harness: unexpected caller command %q", c.kind)
						return
					}
				}
			})
		}
		return nil
	}
	startReader := func(i int) error {
		st, err := getStore(cs.RPhase[i])
		if err != nil {
			return err
		}
		th := &fsThread{id: fmt.Sprintf("r%d", i+1)}
		readers[i] = th
		all = append(all, th)
		key := keys[cs.RKey[i]-1]
		w.spawn(th, func() {
			b, err := st.Get(ctx, key)
			th.res, th.err, th.resOK = b, err, err == nil
		})
		return nil
	}

	observe := func(si int, rule string) (stag [][]int, dest [][]int, dirs []int, f *run.Finding) {
		var problems []string
		stag, dest, dirs, problems = w.project(cs, keys)
		if len(problems) > 0 {
			return stag, dest, dirs, fail(si, "NothingUnexpected", "unexpected-files", strings.Join(problems, "; "))
		}
		for k := range dest {
			if !intsEqual(dest[k], []int{0}) && !isComplete(k, dest[k]) {
				return stag, dest, dirs, fail(si, "AtomicVisibility", "partial-visible", fmt.Sprintf("after %s key %d holds chunks %v; complete would be %v", rule, k+1, dest[k], complete(k)))
			}
		}
		for wi, th := range writers {
			if th == nil || !th.done || returned[wi] {
				continue
			}
			returned[wi] = true
			if realFault {
				unlimitFileSize()
			}
			if errors.Is(th.err, errCrash) {
				continue
			}
			if th.err != nil && strings.HasPrefix(th.err.Error(), "panic:") {
				return stag, dest, dirs, fail(si, "NoPanic", "panic", fmt.Sprintf("writer %d: %v", wi+1, th.err))
			}
			k := cs.WKey[wi] - 1
			if th.err == nil && cs.WMode[wi] != "abort" && !isComplete(k, dest[k]) {
				return stag, dest, dirs, fail(si, "AckedIsVisible", "acked-but-not-stored", fmt.Sprintf("writer %d returned nil but key %d holds %v", wi+1, k+1, dest[k]))
			}
			if th.err != nil && cs.WPhase[wi] == 2 && !faulted {
				return stag, dest, dirs, fail(si, "UsableAfterCrash", "put-failed", fmt.Sprintf("put by the new process failed: %v", th.err))
			}
		}
		out.Checks += 2
		return
	}

	for si, s := range cs.Steps {
		rule := s.T + ":" + s.A + ":" + s.R
		switch s.T {
		case "env": // crash: every thread of the dying process stops where it is
			for _, th := range all {
				if th.started && !th.done && th.cur != nil {
					w.release(th, "die")
				}
			}
			unlimitFileSize()
		case "w":
			i := s.I - 1
			if writers[i] == nil {
				if err := startWriter(i); err != nil {
					if cs.WPhase[i] == 2 {
						return fail(si, "UsableAfterCrash", "init-failed", "new store on the crashed directory: "+err.Error()), out
					}
					return fail(si, "harness", "error", "store init: "+err.Error()), out
				}
			}
			th := writers[i]
			if th.done || th.cur == nil {
				diverge(si, fmt.Sprintf("writer %d already returned (err=%v) where the specification has it perform %s", s.I, th.err, s.A))
				break
			}
			want := s.A
			fault := false
			if strings.HasPrefix(want, "fault:") {
				want, fault = want[6:], true
				faulted = true
			}
			gateName := th.cur.name
			cmd := "go"
			switch {
			case want == "swrite" || want == "commit":
				if gateName != "caller" {
					diverge(si, fmt.Sprintf("writer %d is about to %q where the specification has the caller %s", s.I, gateName, want))
				} else {
					cmd = want
					if fault {
						cmd = "swrite-fault"
					}
				}
			case gateName != want:
				diverge(si, fmt.Sprintf("writer %d is about to %q where the specification expects %q", s.I, gateName, want))
				if gateName == "caller" {
					cmd = "commit"
				}
			case fault && want == "write" && realFault:
				limitFileSize(chunkLen / 2) // the real write is torn by the kernel: EFBIG after half a chunk
			case fault:
				cmd = "fault"
			}
			w.release(th, cmd)
			out.Checks++
		case "r":
			i := s.I - 1
			if readers[i] == nil {
				if err := startReader(i); err != nil {
					return fail(si, "harness", "error", "store init: "+err.Error()), out
				}
			}
			th := readers[i]
			for !th.done && th.cur != nil { // a read is open + read-all; let it run to its return
				if th.cur.name != "open" {
					diverge(si, fmt.Sprintf("reader %d at %q", s.I, th.cur.name))
				}
				w.release(th, "go")
			}
			// C18: a read returns absent or the complete content -- never anything else
			key := cs.RKey[i] - 1
			switch {
			case th.resOK:
				if !isComplete(key, absContent(th.res)) {
					return fail(si, "ReaderSeesAbsentOrComplete", "partial-read", fmt.Sprintf("reader %d got chunks %v (%d bytes); complete would be %v", s.I, absContent(th.res), len(th.res), complete(key))), out
				}
				if s.R != "found" {
					diverge(si, fmt.Sprintf("reader %d found content where the specification has the key absent", s.I))
				}
			case os.IsNotExist(th.err):
				if s.R != "absent" {
					diverge(si, fmt.Sprintf("reader %d: key absent where the specification has it present", s.I))
				}
			default:
				return fail(si, "ReaderSeesAbsentOrComplete", "read-error", fmt.Sprintf("reader %d: %v", s.I, th.err)), out
			}
			out.Checks++
		}
		// ---- after the step: observable facts first
		stag, dest, dirs, f := observe(si, rule)
		if f != nil {
			return f, out
		}
		// ---- then the step-by-step binding to the specification's state
		if strict {
			for k := range dest {
				if !intsEqual(dest[k], s.St.Dest[k]) {
					diverge(si, fmt.Sprintf("after %s key %d holds %v, specification %v", rule, k+1, dest[k], s.St.Dest[k]))
				}
			}
			for wi := range stag {
				if !intsEqual(stag[wi], s.St.Stag[wi]) {
					diverge(si, fmt.Sprintf("after %s staging of writer %d holds %v, specification %v", rule, wi+1, stag[wi], s.St.Stag[wi]))
				}
			}
			if !intsEqual(dirs, s.St.Dirs) && !(len(dirs) == 0 && len(s.St.Dirs) == 0) {
				diverge(si, fmt.Sprintf("after %s directories %v, specification %v", rule, dirs, s.St.Dirs))
			}
			out.Checks += 3
		}
	}
	// Threads the specification considers finished but the code still has running (only after a
	// divergence) are run to their return, so that what they finally leave behind is judged too.
	for _, th := range all {
		for n := 0; th.started && !th.done && th.cur != nil && n < 50; n++ {
			diverge(len(cs.Steps), fmt.Sprintf("thread %s still at %q at the end of the behaviour", th.id, th.cur.name))
			if th.cur.name == "caller" {
				w.release(th, "commit")
			} else {
				w.release(th, "go")
			}
		}
	}
	if !strict {
		if _, _, _, f := observe(len(cs.Steps), "end"); f != nil {
			return f, out
		}
	}
	// end of behaviour: the results each caller got (internal binding)
	if strict {
		for i, th := range writers {
			if th == nil || cs.WRet[i] == "" || errors.Is(th.err, errCrash) {
				continue
			}
			if !th.done {
				diverge(len(cs.Steps), fmt.Sprintf("writer %d has not returned (at %v), specification: %s", i+1, th.cur, cs.WRet[i]))
				continue
			}
			got := "ok"
			if th.err != nil {
				got = "err"
			}
			if got != cs.WRet[i] {
				diverge(len(cs.Steps), fmt.Sprintf("writer %d returned %v, specification: %s", i+1, th.err, cs.WRet[i]))
			}
			out.Checks++
		}
	}
	// nothing may have been touched outside the base directory
	if len(w.outside) > 0 {
		return fail(len(cs.Steps), "NothingOutsideBase", "outside-access", strings.Join(w.outside, ", ")), out
	}
	// release anything still parked (after a crash step, or after a divergence)
	for _, th := range all {
		for th.started && !th.done && th.cur != nil {
			w.release(th, "die")
		}
	}
	_ = io.EOF
	return nil, out
}
