package replay

import (
	"bytes"
	"encoding/json"
	"fmt"
	"sort"
	"strings"

	"github.com/ipld/go-ipld-prime/codec/dagcbor"
	"github.com/ipld/go-ipld-prime/codec/dagjson"
	"github.com/ipld/go-ipld-prime/datamodel"
	"github.com/ipld/go-ipld-prime/node/bindnode"
	"github.com/ipld/go-ipld-prime/schema"

	"verifharness/model"
	"verifharness/run"
)

// TyAST mirrors the type records of specs/Schema.tla.
type TyAST struct {
	K    string     `json:"k"`
	N    []int      `json:"n"`
	El   *TyAST     `json:"el"`
	Val  *TyAST     `json:"val"`
	Nul  bool       `json:"nul"`
	Fs   []FieldAST `json:"fs"`
	Ms   []TyAST    `json:"ms"`
	Repr *ReprAST   `json:"repr"`
}

type FieldAST struct {
	Name []int `json:"name"`
	Ty   TyAST `json:"ty"`
	Opt  bool  `json:"opt"`
	Nul  bool  `json:"nul"`
}

type ReprAST struct {
	R    string          `json:"r"`
	Ren  [][]int         `json:"ren"`
	D    []int           `json:"d"`
	Disc [][]int         `json:"disc"`
	Vals json.RawMessage `json:"vals"`
}

func (t *TyAST) Name() string { return string(model.Bytes(t.N)) }

func isScalarTy(k string) bool {
	switch k {
	case "bool", "int", "float", "string", "bytes", "link":
		return true
	}
	return false
}

func reprKindOf(t *TyAST) datamodel.Kind {
	switch {
	case isScalarTy(t.K):
		return model.KindOf(t.K)
	case t.K == "list":
		return datamodel.Kind_List
	case t.K == "map":
		return datamodel.Kind_Map
	case t.K == "struct":
		switch t.Repr.R {
		case "map":
			return datamodel.Kind_Map
		case "tuple", "listpairs":
			return datamodel.Kind_List
		default:
			return datamodel.Kind_String
		}
	case t.K == "union":
		switch t.Repr.R {
		case "keyed":
			return datamodel.Kind_Map
		case "stringprefix":
			return datamodel.Kind_String
		}
	case t.K == "enum":
		if t.Repr.R == "string" {
			return datamodel.Kind_String
		}
		return datamodel.Kind_Int
	}
	return datamodel.Kind_Invalid
}

// accumulate adds t and everything it refers to into the type system (once per name).
func accumulate(ts *schema.TypeSystem, t *TyAST, seen map[string]bool) error {
	name := t.Name()
	if seen[name] {
		return nil
	}
	seen[name] = true
	tn := schema.TypeName(name)
	switch t.K {
	case "bool":
		ts.Accumulate(schema.SpawnBool(tn))
	case "int":
		ts.Accumulate(schema.SpawnInt(tn))
	case "float":
		ts.Accumulate(schema.SpawnFloat(tn))
	case "string":
		ts.Accumulate(schema.SpawnString(tn))
	case "bytes":
		ts.Accumulate(schema.SpawnBytes(tn))
	case "link":
		ts.Accumulate(schema.SpawnLink(tn))
	case "list":
		if err := accumulate(ts, t.El, seen); err != nil {
			return err
		}
		ts.Accumulate(schema.SpawnList(tn, schema.TypeName(t.El.Name()), t.Nul))
	case "map":
		if !seen["String"] {
			seen["String"] = true
			ts.Accumulate(schema.SpawnString("String"))
		}
		if err := accumulate(ts, t.Val, seen); err != nil {
			return err
		}
		ts.Accumulate(schema.SpawnMap(tn, "String", schema.TypeName(t.Val.Name()), t.Nul))
	case "struct":
		var fields []schema.StructField
		for i := range t.Fs {
			if err := accumulate(ts, &t.Fs[i].Ty, seen); err != nil {
				return err
			}
			fields = append(fields, schema.SpawnStructField(string(model.Bytes(t.Fs[i].Name)), string(t.Fs[i].Ty.Name()), t.Fs[i].Opt, t.Fs[i].Nul))
		}
		var repr schema.StructRepresentation
		switch t.Repr.R {
		case "map":
			ren := map[string]string{}
			for i := range t.Repr.Ren {
				if s := string(model.Bytes(t.Repr.Ren[i])); s != string(model.Bytes(t.Fs[i].Name)) {
					ren[string(model.Bytes(t.Fs[i].Name))] = s
				}
			}
			repr = schema.SpawnStructRepresentationMap(ren)
		case "tuple":
			repr = schema.SpawnStructRepresentationTuple()
		case "listpairs":
			repr = schema.SpawnStructRepresentationListPairs()
		case "stringjoin":
			repr = schema.SpawnStructRepresentationStringjoin(string(model.Bytes(t.Repr.D)))
		}
		ts.Accumulate(schema.SpawnStruct(tn, fields, repr))
	case "union":
		var members []schema.TypeName
		for i := range t.Ms {
			if err := accumulate(ts, &t.Ms[i], seen); err != nil {
				return err
			}
			members = append(members, schema.TypeName(t.Ms[i].Name()))
		}
		var repr schema.UnionRepresentation
		switch t.Repr.R {
		case "keyed":
			table := map[string]schema.TypeName{}
			for i := range t.Ms {
				table[string(model.Bytes(t.Repr.Disc[i]))] = members[i]
			}
			repr = schema.SpawnUnionRepresentationKeyed(table)
		case "kinded":
			table := map[datamodel.Kind]schema.TypeName{}
			for i := range t.Ms {
				table[reprKindOf(&t.Ms[i])] = members[i]
			}
			repr = schema.SpawnUnionRepresentationKinded(table)
		case "stringprefix":
			table := map[string]schema.TypeName{}
			for i := range t.Ms {
				table[string(model.Bytes(t.Repr.Disc[i]))] = members[i]
			}
			repr = schema.SpawnUnionRepresentationStringprefix(string(model.Bytes(t.Repr.D)), table)
		}
		ts.Accumulate(schema.SpawnUnion(tn, members, repr))
	case "enum":
		return fmt.Errorf("enums are accumulated by accumulateGeneric")
	}
	return nil
}

// EnumAST: enums carry their members as byte strings in "ms" (not types), decoded separately.
type enumAST struct {
	Ms [][]int `json:"ms"`
}

// BuildTypeSystem builds the schema.TypeSystem for the type AST given as raw JSON.
func BuildTypeSystem(raw json.RawMessage) (*schema.TypeSystem, *TyAST, error) {
	var generic interface{}
	if err := json.Unmarshal(raw, &generic); err != nil {
		return nil, nil, err
	}
	ts := new(schema.TypeSystem)
	ts.Init()
	seen := map[string]bool{}
	root, err := accumulateGeneric(ts, generic, seen)
	if err != nil {
		return nil, nil, err
	}
	if errs := ts.ValidateGraph(); len(errs) > 0 {
		return nil, nil, fmt.Errorf("type system invalid: %v", errs)
	}
	return ts, root, nil
}

func gBytes(x interface{}) []int {
	arr, _ := x.([]interface{})
	out := make([]int, len(arr))
	for i, e := range arr {
		f, _ := e.(float64)
		out[i] = int(f)
	}
	return out
}

// accumulateGeneric walks the untyped JSON of a type (enums and other types share field names with
// different shapes, so the walk is done on interface{} values) and returns the typed AST.
func accumulateGeneric(ts *schema.TypeSystem, g interface{}, seen map[string]bool) (*TyAST, error) {
	m, ok := g.(map[string]interface{})
	if !ok {
		return nil, fmt.Errorf("type is not a record: %v", g)
	}
	t := &TyAST{K: m["k"].(string), N: gBytes(m["n"])}
	name := t.Name()
	if t.K == "enum" {
		var members []string
		for _, x := range m["ms"].([]interface{}) {
			members = append(members, string(model.Bytes(gBytes(x))))
		}
		rm := m["repr"].(map[string]interface{})
		t.Repr = &ReprAST{R: rm["r"].(string)}
		for _, x := range m["ms"].([]interface{}) {
			t.Ms = append(t.Ms, TyAST{K: "member", N: gBytes(x)})
		}
		if !seen[name] {
			seen[name] = true
			var repr schema.EnumRepresentation
			vals := rm["vals"].([]interface{})
			if t.Repr.R == "string" {
				r := schema.EnumRepresentation_String{}
				for i, v := range vals {
					r[members[i]] = string(model.Bytes(gBytes(v)))
				}
				repr = r
			} else {
				r := schema.EnumRepresentation_Int{}
				for i, v := range vals {
					r[members[i]] = int(v.(float64))
				}
				repr = r
			}
			ts.Accumulate(schema.SpawnEnum(schema.TypeName(name), members, repr))
		}
		return t, nil
	}
	if b, ok := m["nul"].(bool); ok {
		t.Nul = b
	}
	if el, ok := m["el"]; ok {
		c, err := accumulateGeneric(ts, el, seen)
		if err != nil {
			return nil, err
		}
		t.El = c
	}
	if val, ok := m["val"]; ok {
		c, err := accumulateGeneric(ts, val, seen)
		if err != nil {
			return nil, err
		}
		t.Val = c
	}
	if fs, ok := m["fs"].([]interface{}); ok {
		for _, f := range fs {
			fm := f.(map[string]interface{})
			c, err := accumulateGeneric(ts, fm["ty"], seen)
			if err != nil {
				return nil, err
			}
			t.Fs = append(t.Fs, FieldAST{Name: gBytes(fm["name"]), Ty: *c, Opt: fm["opt"].(bool), Nul: fm["nul"].(bool)})
		}
	}
	if ms, ok := m["ms"].([]interface{}); ok {
		for _, x := range ms {
			c, err := accumulateGeneric(ts, x, seen)
			if err != nil {
				return nil, err
			}
			t.Ms = append(t.Ms, *c)
		}
	}
	if rm, ok := m["repr"].(map[string]interface{}); ok {
		t.Repr = &ReprAST{R: rm["r"].(string), D: gBytes(rm["d"])}
		if ren, ok := rm["ren"].([]interface{}); ok {
			for _, x := range ren {
				t.Repr.Ren = append(t.Repr.Ren, gBytes(x))
			}
		}
		if disc, ok := rm["disc"].([]interface{}); ok {
			for _, x := range disc {
				t.Repr.Disc = append(t.Repr.Disc, gBytes(x))
			}
		}
	}
	if err := accumulate(ts, t, seen); err != nil {
		return nil, err
	}
	return t, nil
}

// SchemaCase is one line of specs/SchemaGen.tla.
type SchemaCase struct {
	Ty    json.RawMessage `json:"ty"`
	Level string          `json:"level"`
	Input model.Value     `json:"input"`
	Ok    bool            `json:"ok"`
	Why   string          `json:"why"`
	Tv    model.Value     `json:"tv"`
	Repr  model.Value     `json:"repr"`
}

// Engine is a typed-node engine under test: how to get the prototype of a named type.
type Engine struct {
	Name  string
	Proto func(ts *schema.TypeSystem, name string) (schema.TypedPrototype, error)
	// ViaDSL: the type system is not spawned through the Go API but rendered as IPLD Schema DSL text and loaded
	// by the library (schema/dsl parser -> schema/dmt -> Compile)
	ViaDSL bool
}

// BindnodeDSLEngine: the reflection binding over a type system loaded from DSL text.
var BindnodeDSLEngine = Engine{Name: "bindnode", Proto: BindnodeEngine.Proto, ViaDSL: true}

var BindnodeEngine = Engine{Name: "bindnode", Proto: func(ts *schema.TypeSystem, name string) (tp schema.TypedPrototype, err error) {
	if p := model.Safe(func() { tp = bindnode.Prototype(nil, ts.TypeByName(name)) }); p != nil {
		return nil, fmt.Errorf("bindnode.Prototype panicked: %v", p)
	}
	return tp, nil
}}

// feed assembles the tree into a builder; returns the built node or the rejection.
func feed(np datamodel.NodePrototype, in model.Value) (n datamodel.Node, err error, panicked interface{}) {
	conc := model.Conc{}
	panicked = model.Safe(func() {
		nb := np.NewBuilder()
		err = conc.BuildInto(nb, in)
		if err == nil {
			n = nb.Build()
		}
	})
	return
}

// ReplaySchemaCase checks one case on one engine.
func ReplaySchemaCase(cs *SchemaCase, eng Engine, roundTrip bool) ([]*run.Finding, int) {
	f, n, extra := replaySchemaCase(cs, eng, roundTrip)
	if f != nil {
		extra = append(extra, f)
	}
	return extra, n
}

func replaySchemaCase(cs *SchemaCase, eng Engine, roundTrip bool) (*run.Finding, int, []*run.Finding) {
	checks := 0
	ts, root, err := BuildTypeSystem(cs.Ty)
	if err != nil {
		return &run.Finding{Step: -1, Target: "harness", Rule: "build-type-system", Class: "error", Detail: err.Error()}, 0, nil
	}
	tname := root.Name()
	kindTag := root.K
	if root.Repr != nil {
		kindTag += "/" + root.Repr.R
	}
	route := ""
	if eng.ViaDSL {
		route = " [type system loaded from DSL text]"
	}
	fail := func(op, rule, class, detail string) *run.Finding {
		return &run.Finding{Step: -1, Target: eng.Name, Rule: rule, Class: class,
			Detail: fmt.Sprintf("%s, type %s (%s)%s, %s-level input %v: %s", op, tname, kindTag, route, cs.Level, cs.Input, detail)}
	}
	if eng.ViaDSL {
		ts2, text, derr := BuildTypeSystemViaDSL(cs.Ty)
		if derr != nil {
			return fail("LoadSchema", "schema-dsl:loads", "error", fmt.Sprintf("%v\n%s", derr, text)), 0, nil
		}
		if ts2.TypeByName(tname) == nil {
			return fail("LoadSchema", "schema-dsl:loads", "type-missing", text), 0, nil
		}
		ts = ts2
	}
	proto, err := eng.Proto(ts, tname)
	if err != nil {
		return fail("Prototype", "prototype", "error", err.Error()), 0, nil
	}
	var extra []*run.Finding
	checkAccepted := func(n datamodel.Node, via string) *run.Finding {
		f, sec := typedViews(n, cs.Tv, cs.Repr, fail, via)
		extra = append(extra, sec...)
		if f == nil {
			checks += 2
		}
		return f
	}
	levels := []string{cs.Level}
	if cs.Level == "both" {
		levels = []string{"type", "repr"}
	}
	var typed datamodel.Node
	for _, level := range levels {
		np := datamodel.NodePrototype(proto)
		in := cs.Input
		if level == "repr" {
			np = proto.Representation()
			if cs.Level == "both" {
				in = cs.Repr
			}
		}
		rule := level + "-builder:accept"
		if !cs.Ok {
			rule = level + "-builder:reject(" + cs.Why + ")"
		}
		n, ferr, p := feed(np, in)
		checks++
		if p != nil {
			return fail("build", rule, "panic", fmt.Sprintf("fed %v: %v", in, p)), checks, extra
		}
		if cs.Ok {
			if ferr != nil {
				return fail("build", rule, "rejected", fmt.Sprintf("fed %v: %v", in, ferr)), checks, extra
			}
			if f := checkAccepted(n, "build("+level+")"); f != nil {
				return f, checks, extra
			}
			typed = n
		} else if ferr == nil {
			got, _ := model.Project(n)
			return fail("build", rule, "accepted", fmt.Sprintf("fed %v: built %v", in, got)), checks, extra
		}
		// The second route into the same builder: the tree as a finished node of ANOTHER implementation, handed over
		// with AssignNode (maps then arrive through AssembleKey / AssembleValue, as with datamodel.Copy).  Same verdict.
		var n2 datamodel.Node
		var aerr error
		p2 := model.Safe(func() {
			nb := np.NewBuilder()
			aerr = nb.AssignNode(model.NewForeign(in, model.Conc{}))
			if aerr == nil {
				n2 = nb.Build()
			}
		})
		checks++
		rule2 := strings.Replace(rule, "-builder:", "-builder(AssignNode of a foreign node):", 1)
		if p2 != nil {
			return fail("build", rule2, "panic", fmt.Sprintf("fed %v: %v", in, p2)), checks, extra
		}
		if cs.Ok {
			if aerr != nil {
				return fail("build", rule2, "rejected", fmt.Sprintf("fed %v: %v", in, aerr)), checks, extra
			}
			if f := checkAccepted(n2, "AssignNode("+level+")"); f != nil {
				return f, checks, extra
			}
		} else if aerr == nil {
			got, _ := model.Project(n2)
			return fail("build", rule2, "accepted", fmt.Sprintf("fed %v: built %v", in, got)), checks, extra
		}
		// The third route: the same tree held by the REFLECTION BINDING under another schema (the untyped containers and
		// plain scalars of model.AnyTS, whose Go types coincide with those of many typed positions: string, int64, ...),
		// handed over with AssignNode -- the typed node at type level, its representation node at representation level.
		// A builder must judge the DATA, not the Go type it happens to arrive in.  Same verdict again.
		if src, berr := (model.Conc{}).BuildImpl("bind", in); berr == nil {
			if tn, ok := src.(schema.TypedNode); ok && level == "repr" {
				src = tn.Representation()
			}
			var n3 datamodel.Node
			var cerr error
			p3 := model.Safe(func() {
				nb := np.NewBuilder()
				cerr = nb.AssignNode(src)
				if cerr == nil {
					n3 = nb.Build()
				}
			})
			checks++
			rule3 := strings.Replace(rule, "-builder:", "-builder(AssignNode of a bindnode node of another schema):", 1)
			if p3 != nil {
				return fail("build", rule3, "panic", fmt.Sprintf("fed %v: %v", in, p3)), checks, extra
			}
			if cs.Ok {
				if cerr != nil {
					return fail("build", rule3, "rejected", fmt.Sprintf("fed %v: %v", in, cerr)), checks, extra
				}
				if f := checkAccepted(n3, "AssignNode-bind("+level+")"); f != nil {
					return f, checks, extra
				}
			} else if cerr == nil {
				got, _ := model.Project(n3)
				return fail("build", rule3, "accepted", fmt.Sprintf("fed %v: built %v", in, got)), checks, extra
			}
		}
	}
	// encode the representation, decode through the representation builder, encode again
	if roundTrip && cs.Ok && typed != nil {
		for _, codec := range []string{"dag-cbor", "dag-json"} {
			enc := func(n datamodel.Node) ([]byte, error) {
				var buf bytes.Buffer
				var err error
				if p := model.Safe(func() {
					if codec == "dag-cbor" {
						err = dagcbor.Encode(n, &buf)
					} else {
						err = dagjson.Encode(n, &buf)
					}
				}); p != nil {
					return nil, fmt.Errorf("panic: %v", p)
				}
				return buf.Bytes(), err
			}
			b1, err := enc(typed.(schema.TypedNode).Representation())
			if err != nil {
				return fail("encode("+codec+")", "repr-encodes", "error", err.Error()), checks, extra
			}
			nb := proto.Representation().NewBuilder()
			var derr error
			var n2 datamodel.Node
			if p := model.Safe(func() {
				if codec == "dag-cbor" {
					derr = dagcbor.Decode(nb, bytes.NewReader(b1))
				} else {
					derr = dagjson.Decode(nb, bytes.NewReader(b1))
				}
				if derr == nil {
					n2 = nb.Build()
				}
			}); p != nil {
				return fail("decode("+codec+")", "repr-decodes", "panic", fmt.Sprintf("%x: %v", b1, p)), checks, extra
			}
			if derr != nil {
				return fail("decode("+codec+")", "repr-decodes", "error", fmt.Sprintf("%q: %v", b1, derr)), checks, extra
			}
			b2, err := enc(n2.(schema.TypedNode).Representation())
			if err != nil || !bytes.Equal(b1, b2) {
				return fail("encode("+codec+")", "re-encode=same-bytes", "different-bytes", fmt.Sprintf("%q then %q (%v)", b1, b2, err)), checks, extra
			}
			got, perr := model.Project(n2)
			if perr != nil || !sortedEqual(got, cs.Tv) {
				return fail("decode("+codec+")", "decoded=typed-value", "different-value", fmt.Sprintf("decoded %v (%v), typed value %v", got, perr, cs.Tv)), checks, extra
			}
			checks += 3
		}
	}
	return nil, checks, extra
}

func obsClass(m *model.Mismatch) string {
	if m.Field == "panic" {
		return "panic"
	}
	return "mismatch"
}

// usesUnsupported reports whether a type (anywhere inside) uses what schema/gen/go does not generate.
func usesUnsupported(g interface{}) bool {
	m, ok := g.(map[string]interface{})
	if !ok {
		return false
	}
	if m["k"] == "enum" {
		return true
	}
	if rm, ok := m["repr"].(map[string]interface{}); ok && rm["r"] == "listpairs" {
		return true
	}
	for _, key := range []string{"el", "val"} {
		if c, ok := m[key]; ok && usesUnsupported(c) {
			return true
		}
	}
	if fs, ok := m["fs"].([]interface{}); ok {
		for _, f := range fs {
			if usesUnsupported(f.(map[string]interface{})["ty"]) {
				return true
			}
		}
	}
	if ms, ok := m["ms"].([]interface{}); ok && m["k"] == "union" {
		for _, x := range ms {
			if usesUnsupported(x) {
				return true
			}
		}
	}
	return false
}

// GenSupported: is the root type of this case inside the generator's feature set?
func GenSupported(raw json.RawMessage) bool {
	var g interface{}
	if json.Unmarshal(raw, &g) != nil {
		return false
	}
	return !usesUnsupported(g)
}

// BuildCombinedTypeSystem accumulates every supported root type into ONE type system (names are unique
// across the catalogue) and returns the names of all types in it.
func BuildCombinedTypeSystem(roots []json.RawMessage) (*schema.TypeSystem, []string, []string, error) {
	ts := new(schema.TypeSystem)
	ts.Init()
	seen := map[string]bool{}
	var skipped []string
	for _, raw := range roots {
		var g interface{}
		if err := json.Unmarshal(raw, &g); err != nil {
			return nil, nil, nil, err
		}
		if usesUnsupported(g) {
			skipped = append(skipped, string(model.Bytes(gBytes(g.(map[string]interface{})["n"]))))
			continue
		}
		if _, err := accumulateGeneric(ts, g, seen); err != nil {
			return nil, nil, nil, err
		}
	}
	if errs := ts.ValidateGraph(); len(errs) > 0 {
		return nil, nil, nil, fmt.Errorf("combined type system invalid: %v", errs)
	}
	var names []string
	for n := range ts.GetTypes() {
		names = append(names, n)
	}
	sort.Strings(names)
	return ts, names, skipped, nil
}

// ProtoPairEngine adapts a registry of (type-level, representation-level) prototypes -- generated code.
// GenProtos: the prototypes (type level, representation level) of the freshly generated package, by type
// name; nil in the plain vh binary, set by the runner that is built together with the generated code.
var GenProtos map[string][2]datamodel.NodePrototype

// GenEngine is the generated-code engine (nil prototypes: not available in this binary).
func GenEngine() (Engine, bool) {
	if GenProtos == nil {
		return Engine{}, false
	}
	return ProtoPairEngine("gengo", GenProtos), true
}

func ProtoPairEngine(name string, protos map[string][2]datamodel.NodePrototype) Engine {
	return Engine{Name: name, Proto: func(ts *schema.TypeSystem, tn string) (schema.TypedPrototype, error) {
		pp, ok := protos[tn]
		if !ok {
			return nil, fmt.Errorf("no generated prototype for %s", tn)
		}
		return pairProto{pp[0], pp[1], ts.TypeByName(tn)}, nil
	}}
}

type pairProto struct {
	typ, repr datamodel.NodePrototype
	st        schema.Type
}

func (p pairProto) NewBuilder() datamodel.NodeBuilder       { return p.typ.NewBuilder() }
func (p pairProto) Type() schema.Type                       { return p.st }
func (p pairProto) Representation() datamodel.NodePrototype { return p.repr }
