package replay

import (
	"bytes"
	"fmt"
	"io"
	"testing/iotest"

	"github.com/ipld/go-ipld-prime/codec/dagcbor"
	"github.com/ipld/go-ipld-prime/datamodel"
	"github.com/ipld/go-ipld-prime/node/basicnode"

	"verifharness/model"
	"verifharness/run"
)

// DecVerdict is DagCbor!Verdict.
type DecVerdict struct {
	Acc bool        `json:"acc"`
	Why string      `json:"why"`
	V   model.Value `json:"v"`
	Tol []string    `json:"tol"`
}

// DecCase is one input of DagCborDec with the verdict the specification reaches.
type DecCase struct {
	Inp     []int      `json:"inp"`
	Verdict DecVerdict `json:"verdict"`
}

// DecodeCbor runs the real decoder on inp; returns the built node (nil on error), the error and a panic value.
func DecodeCbor(inp []byte, opts dagcbor.DecodeOptions, np datamodel.NodePrototype) (n datamodel.Node, err error, panicked interface{}) {
	panicked = model.Safe(func() {
		nb := np.NewBuilder()
		err = opts.Decode(nb, bytes.NewReader(inp))
		if err == nil {
			n = nb.Build()
		}
	})
	return
}

// chunkReader delivers exactly one chunk per Read (and nothing of the next one).
type chunkReader struct{ chunks [][]byte }

func (r *chunkReader) Read(p []byte) (int, error) {
	for len(r.chunks) > 0 && len(r.chunks[0]) == 0 {
		r.chunks = r.chunks[1:]
	}
	if len(r.chunks) == 0 {
		return 0, io.EOF
	}
	n := copy(p, r.chunks[0])
	r.chunks[0] = r.chunks[0][n:]
	return n, nil
}

// ReplayCborDec compares the real strict decoder with the specified verdict for one input.
func ReplayCborDec(cs *DecCase, relaxed bool, maxDepth int64) (*run.Finding, int) {
	inp := model.Bytes(cs.Inp)
	target := "dagcbor.Decode[strict]"
	opts := dagcbor.DecodeOptions{AllowLinks: true, MaxDepth: maxDepth}
	if maxDepth > 0 {
		target = fmt.Sprintf("dagcbor.Decode[strict,MaxDepth=%d]", maxDepth)
	}
	if relaxed {
		target = "dagcbor.Decode[relaxed]"
		opts.RelaxedDecode = true
	}
	rule := "accept"
	if !cs.Verdict.Acc {
		rule = "reject(" + cs.Verdict.Why + ")"
	}
	fail := func(class, detail string) *run.Finding {
		return &run.Finding{Step: -1, Target: target, Rule: rule, Class: class, Detail: fmt.Sprintf("input %x: %s", inp, detail)}
	}
	n, err, p := DecodeCbor(inp, opts, basicnode.Prototype.Any)
	if p != nil {
		return fail("panic", fmt.Sprint(p)), 1
	}
	// The verdict is about the BYTES, not about how the reader happens to deliver them: one byte per Read, and the input
	// cut into two reads just before its last byte and at one more place.
	if len(inp) > 0 {
		cutAt := []int{len(inp) - 1, (len(inp)*7 + int(inp[0])) % len(inp)}
		for di := 0; di < 4; di++ {
			var r io.Reader
			how := "one byte per Read"
			if di == 0 {
				r = iotest.OneByteReader(bytes.NewReader(inp))
			} else if di == 3 {
				// the last bytes arrive TOGETHER with io.EOF (a legal way for a reader to end)
				r = iotest.DataErrReader(bytes.NewReader(inp))
				how = "the final read returns data together with io.EOF"
			} else {
				c := cutAt[di-1]
				if c == 0 {
					continue
				}
				r = &chunkReader{chunks: [][]byte{inp[:c], inp[c:]}}
				how = fmt.Sprintf("delivered as two reads of %d and %d bytes", c, len(inp)-c)
			}
			var n2 datamodel.Node
			var err2 error
			p2 := model.Safe(func() {
				nb := basicnode.Prototype.Any.NewBuilder()
				err2 = opts.Decode(nb, r)
				if err2 == nil {
					n2 = nb.Build()
				}
			})
			if p2 != nil {
				return fail("panic", fmt.Sprintf("%s: %v", how, p2)), 2
			}
			if (err == nil) != (err2 == nil) {
				return fail("verdict-depends-on-the-reader", fmt.Sprintf("from one buffer: err=%v; %s: err=%v", err, how, err2)), 2
			}
			if err == nil {
				v1, e1 := model.Project(n)
				v2, e2 := model.Project(n2)
				if e1 != nil || e2 != nil || v1.String() != v2.String() {
					return fail("value-depends-on-the-reader", fmt.Sprintf("%s: %v (%v) instead of %v (%v)", how, v2, e2, v1, e1)), 2
				}
			}
		}
	}
	if cs.Verdict.Acc {
		if err != nil {
			return fail("rejected", err.Error()), 1
		}
		if m := (model.Conc{}).CheckObs(n, cs.Verdict.V, model.ObsOpts{}); m != nil {
			return fail("accepted-other-value", "spec value "+cs.Verdict.V.String()+": "+m.Error()), 2
		}
		return nil, 2
	}
	if err == nil {
		got, _ := model.Project(n)
		return fail("accepted", "decoded as "+got.String()), 1
	}
	// A refused input leaves nothing behind: the next Decode (of {"a": 1}) gives what it gives alone.
	pn, perr, pp := DecodeCbor([]byte{0xa1, 0x61, 0x61, 0x01}, opts, basicnode.Prototype.Any)
	if pp != nil || perr != nil {
		return fail("next-decode-differs", fmt.Sprintf("after this input was refused (%v), decoding a16161 01 gave err=%v panic=%v", err, perr, pp)), 2
	}
	if v, e := model.Project(pn); e != nil || v.String() != cborProbeValue {
		return fail("next-decode-differs", fmt.Sprintf("after this input was refused (%v), decoding a16161 01 gave %v (%v)", err, v, e)), 2
	}
	return nil, 2
}

var cborProbeValue = func() string {
	v, _ := model.Project(cborProbe)
	return v.String()
}()
