package replay

import (
	"bytes"
	"fmt"

	"github.com/ipld/go-ipld-prime/codec/dagcbor"
	"github.com/ipld/go-ipld-prime/datamodel"
	"github.com/ipld/go-ipld-prime/node/basicnode"

	"verifharness/model"
	"verifharness/run"
)

// DecVerdict is DagCbor!Verdict.
type DecVerdict struct {
	Acc bool        `json:"acc"`
	Why string      `json:"why"`
	V   model.Value `json:"v"`
	Tol []string    `json:"tol"`
}

// DecCase is one input of DagCborDec with the verdict the specification reaches.
type DecCase struct {
	Inp     []int      `json:"inp"`
	Verdict DecVerdict `json:"verdict"`
}

// DecodeCbor runs the real decoder on inp; returns the built node (nil on error), the error and a panic value.
func DecodeCbor(inp []byte, opts dagcbor.DecodeOptions, np datamodel.NodePrototype) (n datamodel.Node, err error, panicked interface{}) {
	panicked = model.Safe(func() {
		nb := np.NewBuilder()
		err = opts.Decode(nb, bytes.NewReader(inp))
		if err == nil {
			n = nb.Build()
		}
	})
	return
}

// ReplayCborDec compares the real strict decoder with the specified verdict for one input.
func ReplayCborDec(cs *DecCase, relaxed bool, maxDepth int64) (*run.Finding, int) {
	inp := model.Bytes(cs.Inp)
	target := "dagcbor.Decode[strict]"
	opts := dagcbor.DecodeOptions{AllowLinks: true, MaxDepth: maxDepth}
	if maxDepth > 0 {
		target = fmt.Sprintf("dagcbor.Decode[strict,MaxDepth=%d]", maxDepth)
	}
	if relaxed {
		target = "dagcbor.Decode[relaxed]"
		opts.RelaxedDecode = true
	}
	rule := "accept"
	if !cs.Verdict.Acc {
		rule = "reject(" + cs.Verdict.Why + ")"
	}
	fail := func(class, detail string) *run.Finding {
		return &run.Finding{Step: -1, Target: target, Rule: rule, Class: class, Detail: fmt.Sprintf("input %x: %s", inp, detail)}
	}
	n, err, p := DecodeCbor(inp, opts, basicnode.Prototype.Any)
	if p != nil {
		return fail("panic", fmt.Sprint(p)), 1
	}
	if cs.Verdict.Acc {
		if err != nil {
			return fail("rejected", err.Error()), 1
		}
		if m := (model.Conc{}).CheckObs(n, cs.Verdict.V, model.ObsOpts{}); m != nil {
			return fail("accepted-other-value", "spec value "+cs.Verdict.V.String()+": "+m.Error()), 2
		}
		return nil, 2
	}
	if err == nil {
		got, _ := model.Project(n)
		return fail("accepted", "decoded as "+got.String()), 1
	}
	return nil, 1
}
