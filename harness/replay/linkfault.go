package replay

import (
	"bytes"
	"errors"
	"fmt"
	"io"
	"math"
	"math/rand"

	"github.com/ipfs/go-cid"
	"github.com/ipld/go-ipld-prime/datamodel"
	"github.com/ipld/go-ipld-prime/linking"
	cidlink "github.com/ipld/go-ipld-prime/linking/cid"
	"github.com/ipld/go-ipld-prime/node/basicnode"

	_ "github.com/ipld/go-ipld-prime/codec/cbor"
	_ "github.com/ipld/go-ipld-prime/codec/dagcbor"
	_ "github.com/ipld/go-ipld-prime/codec/dagjson"
	_ "github.com/ipld/go-ipld-prime/codec/json"
	_ "github.com/ipld/go-ipld-prime/codec/raw"

	"verifharness/model"
	"verifharness/run"
)

// LoadScenario is one terminal state of specs/Linking.tla: a class of load-under-fault scenarios.
type LoadScenario struct {
	Op    string `json:"op"`
	Kind  string `json:"kind"`
	Where string `json:"where"`
	Chunk int    `json:"chunk"`
	R     string `json:"r"`
}

func (s LoadScenario) Key() string {
	return fmt.Sprintf("%s/%s/%s/chunk%d", s.Op, s.Kind, s.Where, s.Chunk)
}

// StoreScenario is one terminal state of specs/LinkStore.tla.
type StoreScenario struct {
	FailAt    string `json:"failat"`
	EncFail   bool   `json:"encfail"`
	OpenFails bool   `json:"openfails"`
	R         string `json:"r"`
	Committed bool   `json:"committed"`
}

func (s StoreScenario) Key() string {
	return fmt.Sprintf("store/failat-%s/encfail-%v/openfails-%v", s.FailAt, s.EncFail, s.OpenFails)
}

// Block is a real stored block: how it was made and what it is.
type Block struct {
	NonCanonical bool // the stored bytes are not what the encoder would write (trailing white space): no re-encode check
	Name         string
	Codec        uint64
	Proto        cidlink.LinkPrototype
	Node         datamodel.Node
	Link         datamodel.Link
	Bytes        []byte
}

var errInjectedRead = errors.New("verif: injected storage read error")
var errInjectedOpen = errors.New("verif: injected storage open error")
var errInjectedWrite = errors.New("verif: injected storage write error")

// scriptedReader delivers data in chunks and fails (stickily) once errAt bytes have been delivered.
type scriptedReader struct {
	data  []byte
	pos   int
	chunk int
	errAt int // -1: never
	rng   *rand.Rand
	// splitAt > 0: a read never crosses this offset (the original block and what storage appended arrive separately)
	splitAt int
	// overlap: called once when half of the data has been delivered and once when all of it has (before EOF):
	// another load running on the same link system while this one is in flight
	overlap func()
	fired   int
	// emptyReadAtSplit: exactly at splitAt the reader answers one read with (0, nil) -- legal for an io.Reader (an empty
	// chunk of a chunked stream, an empty Write into a pipe) and NOT the end of the data
	emptyReadAtSplit bool
	emptied          bool
}

func (r *scriptedReader) Read(p []byte) (int, error) {
	if r.overlap != nil {
		if (r.fired == 0 && r.pos*2 >= len(r.data)) || (r.fired == 1 && r.pos >= len(r.data)) {
			r.fired++
			r.overlap()
		}
	}
	if r.errAt >= 0 && r.pos >= r.errAt {
		return 0, errInjectedRead
	}
	if r.pos >= len(r.data) {
		return 0, io.EOF
	}
	if r.emptyReadAtSplit && !r.emptied && r.splitAt > 0 && r.pos == r.splitAt {
		r.emptied = true
		return 0, nil
	}
	n := r.chunk
	if n <= 0 { // seeded random chunking
		n = 1 + r.rng.Intn(7)
	}
	if n > len(p) {
		n = len(p)
	}
	if n > len(r.data)-r.pos {
		n = len(r.data) - r.pos
	}
	if r.errAt >= 0 && r.pos+n > r.errAt {
		n = r.errAt - r.pos
	}
	if r.splitAt > r.pos && r.pos+n > r.splitAt {
		n = r.splitAt - r.pos
	}
	copy(p, r.data[r.pos:r.pos+n])
	r.pos += n
	return n, nil
}

func sampleNodes() map[string]datamodel.Node {
	c := model.Conc{Sym: true, Profile: 0}
	mk := func(v model.Value) datamodel.Node {
		n, err := c.BuildImpl("basic", v)
		if err != nil {
			panic(err)
		}
		return n
	}
	sv := func(k string, n int) model.Value {
		return model.Value{K: k, A: []int{n}, Ks: [][]int{}, Vs: []model.Value{}}
	}
	plain := model.Value{K: "map", A: []int{}, Ks: [][]int{{2}, {1}, {3}}, Vs: []model.Value{
		sv("int", 1), sv("string", 2),
		{K: "list", A: []int{}, Ks: [][]int{}, Vs: []model.Value{sv("bool", 1), sv("int", 3), sv("float", 1), {K: "null", A: []int{}, Ks: [][]int{}, Vs: []model.Value{}}}}}}
	rich := model.Value{K: "map", A: []int{}, Ks: [][]int{{1}, {2}, {3}}, Vs: []model.Value{
		sv("bytes", 3), sv("link", 1), plain}}
	return map[string]datamodel.Node{
		"plain":  mk(plain),
		"rich":   mk(rich),
		"scalar": mk(sv("string", 1)),
		"empty":  mk(model.Value{K: "map", A: []int{}, Ks: [][]int{}, Vs: []model.Value{}}),
		"bytes":  basicnode.NewBytes([]byte("raw block content \x00\x01\x02 with some length to it")),
	}
}

type hashSpec struct {
	name string
	code uint64
	len  int
}

var hashSpecs = []hashSpec{
	{"sha2-256", 0x12, -1}, {"sha2-512", 0x13, -1}, {"sha2-256/20", 0x12, 20}, {"sha2-256/4", 0x12, 4},
	{"identity", 0x00, -1}, {"sha1", 0x11, -1}, {"dbl-sha2-256", 0x56, -1},
}

// MakeBlocks stores a set of real values under every codec x hash combination and returns the blocks.
func MakeBlocks(quick bool) ([]Block, error) {
	nodes := sampleNodes()
	type cs struct {
		name  string
		code  uint64
		nodes []string
	}
	codecs := []cs{
		{"dag-cbor", 0x71, []string{"plain", "rich", "scalar", "empty"}},
		{"dag-json", 0x0129, []string{"plain", "rich", "scalar"}},
		{"cbor", 0x51, []string{"plain"}},
		{"json", 0x0200, []string{"plain"}},
		{"raw", 0x55, []string{"bytes"}},
	}
	var out []Block
	for _, c := range codecs {
		for hi, h := range hashSpecs {
			for ni, nn := range c.nodes {
				if quick && (hi+ni)%2 == 1 && !(h.code == 0 || h.len == 4) {
					continue
				}
				{
					lp := cidlink.LinkPrototype{Prefix: cid.Prefix{Version: 1, Codec: c.code, MhType: h.code, MhLength: h.len}}
					ls := cidlink.DefaultLinkSystem()
					mem := &cidlink.Memory{}
					ls.StorageReadOpener = mem.OpenRead
					ls.StorageWriteOpener = mem.OpenWrite
					lnk, err := ls.Store(linking.LinkContext{}, lp, nodes[nn])
					if err != nil {
						return nil, fmt.Errorf("store %s/%s/%s: %w", c.name, h.name, nn, err)
					}
					raw, err := ls.LoadRaw(linking.LinkContext{}, lnk)
					if err != nil {
						return nil, fmt.Errorf("loadraw %s/%s/%s: %w", c.name, h.name, nn, err)
					}
					out = append(out, Block{Name: c.name + "/" + h.name + "/" + nn, Codec: c.code, Proto: lp, Node: nodes[nn], Link: lnk, Bytes: raw})
					// the JSON codecs accept trailing white space: a block stored with it is a different block (its link
					// covers the white space) that decodes to the same node
					if (c.code == 0x0129 || c.code == 0x0200) && nn == "plain" {
						for _, ws := range []string{"\n", " \n\t "} {
							wb := append(append([]byte{}, raw...), ws...)
							hasher, err := ls.HasherChooser(lp)
							if err != nil {
								return nil, err
							}
							hasher.Write(wb)
							wl := lp.BuildLink(hasher.Sum(nil))
							out = append(out, Block{Name: c.name + "/" + h.name + "/" + nn + fmt.Sprintf("+ws%d", len(ws)), Codec: c.code, Proto: lp,
								Node: nodes[nn], Link: wl, Bytes: wb, NonCanonical: true})
						}
					}
				}
			}
		}
	}
	return out, nil
}

type concreteFault struct {
	desc      string
	delivered []byte
	errAt     int
	openErr   bool
}

// instantiate turns a scenario class into concrete faults on a real block.
func instantiate(s LoadScenario, b Block, others []Block, thorough bool, rng *rand.Rand) []concreteFault {
	n := len(b.Bytes)
	var out []concreteFault
	offsets := func(where string, max int) []int { // positions 0..max-1 of the class
		var o []int
		switch where {
		case "first":
			o = []int{0}
		case "last":
			if max > 1 {
				o = []int{max - 1}
			}
		case "middle":
			for i := 1; i < max-1; i++ {
				o = append(o, i)
			}
			if !thorough && len(o) > 24 { // quick: a seeded sample of the middle offsets
				rng.Shuffle(len(o), func(i, j int) { o[i], o[j] = o[j], o[i] })
				o = o[:24]
			}
		}
		return o
	}
	switch s.Kind {
	case "none":
		out = append(out, concreteFault{"intact", b.Bytes, -1, false})
	case "openerr":
		out = append(out, concreteFault{"open error", b.Bytes, -1, true})
	case "flip":
		for _, off := range offsets(s.Where, n) {
			bits := []uint{uint(off % 8)}
			if thorough {
				bits = []uint{0, 1, 2, 3, 4, 5, 6, 7}
			}
			for _, bit := range bits {
				d := append([]byte{}, b.Bytes...)
				d[off] ^= 1 << bit
				out = append(out, concreteFault{fmt.Sprintf("bit %d of byte %d flipped", bit, off), d, -1, false})
			}
		}
	case "trunc":
		switch s.Where {
		case "empty":
			if n > 0 {
				out = append(out, concreteFault{"truncated to 0 bytes", []byte{}, -1, false})
			}
		default:
			for _, off := range offsets(s.Where, n) { // keep off bytes, 1 <= off <= n-1
				if off == 0 {
					continue
				}
				out = append(out, concreteFault{fmt.Sprintf("truncated to %d of %d bytes", off, n), b.Bytes[:off], -1, false})
			}
		}
	case "extend":
		for _, ext := range [][]byte{{0x00}, {0x20}, {0x0a}, {0xf6}, []byte("  \n"), []byte("}garbage"), b.Bytes} {
			out = append(out, concreteFault{fmt.Sprintf("extended by %q", ext), append(append([]byte{}, b.Bytes...), ext...), -1, false})
		}
	case "subst":
		for _, o := range others {
			if !bytes.Equal(o.Bytes, b.Bytes) {
				out = append(out, concreteFault{"substituted by block " + o.Name, o.Bytes, -1, false})
			}
		}
		if n > 0 {
			out = append(out, concreteFault{"substituted by the empty block", []byte{}, -1, false})
		}
	case "readerr":
		// error after `off` delivered bytes; "last" = after all bytes, in place of EOF
		var offs []int
		switch s.Where {
		case "first":
			offs = []int{0, 1}
		case "last":
			offs = []int{n}
		default:
			offs = offsets("middle", n+1)
			for i := range offs {
				offs[i]++
			}
		}
		for _, off := range offs {
			if off > n {
				continue
			}
			out = append(out, concreteFault{fmt.Sprintf("read error after %d of %d bytes", off, n), b.Bytes, off, false})
		}
	}
	return out
}

func isHashMismatch(err error) bool {
	var hm linking.ErrHashMismatch
	return errors.As(err, &hm)
}

// ReplayLoadScenario runs one scenario class on one block; returns finding, number of concrete scenarios, distinct non-trivial count.
func ReplayLoadScenario(s LoadScenario, b Block, others []Block, thorough bool, seed int64) (*run.Finding, int, int) {
	rng := rand.New(rand.NewSource(seed))
	faults := instantiate(s, b, others, thorough, rng)
	target := "LinkSystem." + s.Op
	n := 0
	nontrivial := 0
	type variant struct {
		cf      concreteFault
		overlap bool
		reify   bool
	}
	var variants []variant
	for _, cf := range faults {
		variants = append(variants, variant{cf, false, false})
		if !cf.openErr {
			variants = append(variants, variant{cf, true, false})
			if s.Op == "Load" || s.Op == "LoadPlusRaw" {
				variants = append(variants, variant{cf, false, true})
			}
		}
	}
	for _, vr := range variants {
		cf := vr.cf
		overlap := vr.overlap
		if overlap {
			cf.desc += ", with a complete load of the intact block running on the same link system meanwhile"
		}
		ls := cidlink.DefaultLinkSystem()
		nested := 0
		var nestedErr error
		if vr.reify {
			// a NodeReifier is configured: the identity, but (like an ADL that resolves a shard when it is reified) it
			// eagerly loads a block through the link system it is handed.  No outcome below may change for it.
			cf.desc += ", with an identity NodeReifier that loads a block through the link system it is given"
			ls.NodeReifier = func(lc linking.LinkContext, n datamodel.Node, given *linking.LinkSystem) (datamodel.Node, error) {
				nested++
				defer func() { nested-- }()
				if _, err := given.LoadRaw(lc, b.Link); err != nil && nestedErr == nil {
					nestedErr = err
				}
				return n, nil
			}
		}
		ls.StorageReadOpener = func(_ linking.LinkContext, l datamodel.Link) (io.Reader, error) {
			if nested > 0 { // the overlapping load is served the intact block
				return bytes.NewReader(b.Bytes), nil
			}
			if cf.openErr {
				return nil, errInjectedOpen
			}
			chunk := s.Chunk
			if chunk >= 100 {
				chunk = math.MaxInt32
			}
			sr := &scriptedReader{data: cf.delivered, chunk: chunk, errAt: cf.errAt, rng: rng}
			if len(cf.delivered) > len(b.Bytes) && bytes.HasPrefix(cf.delivered, b.Bytes) {
				sr.splitAt = len(b.Bytes)
				sr.emptyReadAtSplit = vr.reify || overlap // (two of the three variants: the third delivers without it)
			}
			if overlap {
				sr.overlap = func() {
					nested++
					defer func() { nested-- }()
					if _, err := ls.Load(linking.LinkContext{}, b.Link, basicnode.Prototype.Any); err != nil && nestedErr == nil {
						nestedErr = err
					}
				}
			}
			return sr, nil
		}
		var node datamodel.Node
		var raw []byte
		var err error
		p := model.Safe(func() {
			switch s.Op {
			case "Load":
				node, err = ls.Load(linking.LinkContext{}, b.Link, basicnode.Prototype.Any)
			case "LoadRaw":
				raw, err = ls.LoadRaw(linking.LinkContext{}, b.Link)
			case "LoadPlusRaw":
				node, raw, err = ls.LoadPlusRaw(linking.LinkContext{}, b.Link, basicnode.Prototype.Any)
			case "Fill":
				nb := basicnode.Prototype.Any.NewBuilder()
				err = ls.Fill(linking.LinkContext{}, b.Link, nb)
				if err == nil {
					node = nb.Build()
				}
			}
		})
		n++
		if !bytes.Equal(cf.delivered, b.Bytes) || cf.errAt >= 0 || cf.openErr {
			nontrivial++
		}
		fail := func(class, detail string) *run.Finding {
			return &run.Finding{Step: -1, Target: target, Rule: s.Kind + "/" + s.Where + ":" + s.R, Class: class,
				Detail: fmt.Sprintf("block %s (%d bytes), %s, chunking %d: %s", b.Name, len(b.Bytes), cf.desc, s.Chunk, detail)}
		}
		if p != nil {
			return fail("panic", fmt.Sprint(p)), n, nontrivial
		}
		if nestedErr != nil {
			return &run.Finding{Step: -1, Target: target, Rule: "overlapping-load:ok", Class: "error",
				Detail: fmt.Sprintf("block %s: the load of the intact block that ran while another load was in flight failed: %v", b.Name, nestedErr)}, n, nontrivial
		}
		switch s.R {
		case "ok":
			if err != nil {
				return fail("error", err.Error()), n, nontrivial
			}
			if s.Op != "LoadRaw" && !b.NonCanonical {
				l2, cerr := ls.ComputeLink(b.Proto, node)
				if cerr != nil || l2.Binary() != b.Link.Binary() {
					return fail("different-node", fmt.Sprintf("the loaded node does not re-encode to the link it was loaded by (%v, %v)", l2, cerr)), n, nontrivial
				}
			}
			if s.Op != "Load" && s.Op != "Fill" && !bytes.Equal(raw, b.Bytes) {
				return fail("different-bytes", fmt.Sprintf("%x", raw)), n, nontrivial
			}
		case "hash_mismatch":
			if err == nil {
				return fail("accepted", fmt.Sprintf("load succeeded (node=%v, %d raw bytes) although the delivered bytes do not hash to the link", node != nil, len(raw))), n, nontrivial
			}
			if !isHashMismatch(err) {
				return fail("other-error", fmt.Sprintf("%T: %v", err, err)), n, nontrivial
			}
			if node != nil || (len(raw) > 0 && s.Op == "LoadRaw") {
				return fail("data-with-error", "data returned together with the error"), n, nontrivial
			}
		case "io_error":
			if err == nil {
				return fail("accepted", "load succeeded although storage raised an error"), n, nontrivial
			}
			if node != nil {
				return fail("data-with-error", "a node was returned together with the error"), n, nontrivial
			}
		}
	}
	return nil, n, nontrivial
}

// failingWriter fails the k-th Write call (1-based); k = 0 never fails.
type failingWriter struct {
	buf    bytes.Buffer
	calls  int
	failAt int
}

func (w *failingWriter) Write(p []byte) (int, error) {
	w.calls++
	if w.failAt > 0 && w.calls == w.failAt {
		return 0, errInjectedWrite
	}
	return w.buf.Write(p)
}

// failingMap is a map node whose iterator fails after a few entries (think: an ADL whose lazy load
// fails midway): every encoder must report that error, having already written part of the block.
type failingMap struct {
	datamodel.Node
	after int
}

type failingMapItr struct {
	datamodel.MapIterator
	left int
}

var errInjectedNode = errors.New("verif: injected node iteration error")

func (it *failingMapItr) Next() (datamodel.Node, datamodel.Node, error) {
	if it.left <= 0 {
		return nil, nil, errInjectedNode
	}
	it.left--
	return it.MapIterator.Next()
}
func (it *failingMapItr) Done() bool { return false }

func (f failingMap) MapIterator() datamodel.MapIterator {
	return &failingMapItr{f.Node.MapIterator(), f.after}
}

// unencodable nodes per codec: encoders must fail on these
func unencodable(codec uint64) []datamodel.Node {
	c := model.Conc{Sym: true}
	sv := func(k string, n int) model.Value {
		return model.Value{K: k, A: []int{n}, Ks: [][]int{}, Vs: []model.Value{}}
	}
	m3 := model.Value{K: "map", A: []int{}, Ks: [][]int{{1}, {2}, {3}}, Vs: []model.Value{sv("int", 1), sv("string", 1), sv("int", 2)}}
	base, _ := c.BuildImpl("basic", m3)
	out := []datamodel.Node{failingMap{base, 0}, failingMap{base, 1}, failingMap{base, 2}}
	lnk := model.Value{K: "map", A: []int{}, Ks: [][]int{{1}, {2}}, Vs: []model.Value{sv("int", 1), sv("link", 1)}}
	withLink, _ := c.BuildImpl("basic", lnk)
	switch codec {
	case 0x51, 0x0200: // cbor, json: links are not encodable
		out = append(out, withLink)
	case 0x55: // raw: only bytes
		out = []datamodel.Node{withLink, base}
	}
	return out
}

// ReplayStoreScenario: writer failing at the k-th write / unencodable node / failing open.
func ReplayStoreScenario(s StoreScenario, b Block) (*run.Finding, int, int) {
	if b.NonCanonical { // not something Store would ever write
		return nil, 0, 0
	}
	target := "LinkSystem.Store"
	n, nontrivial := 0, 0
	// how many writes does a healthy store of this node make?
	probe := &failingWriter{}
	{
		ls := cidlink.DefaultLinkSystem()
		ls.StorageWriteOpener = func(linking.LinkContext) (io.Writer, linking.BlockWriteCommitter, error) {
			return probe, func(datamodel.Link) error { return nil }, nil
		}
		if _, err := ls.Store(linking.LinkContext{}, b.Proto, b.Node); err != nil {
			return &run.Finding{Step: -1, Target: "harness", Rule: "probe-store", Class: "error", Detail: err.Error()}, 0, 0
		}
	}
	total := probe.calls
	var failAts []int
	switch s.FailAt {
	case "none":
		failAts = []int{0}
	case "first":
		failAts = []int{1}
	case "last":
		if total > 1 {
			failAts = []int{total}
		}
	case "middle":
		for k := 2; k < total; k++ {
			failAts = append(failAts, k)
		}
	}
	nodes := []datamodel.Node{b.Node}
	if s.EncFail {
		nodes = unencodable(b.Codec)
	}
	for _, node := range nodes {
		for _, k := range failAts {
			w := &failingWriter{failAt: k}
			committed := false
			ls := cidlink.DefaultLinkSystem()
			ls.StorageWriteOpener = func(linking.LinkContext) (io.Writer, linking.BlockWriteCommitter, error) {
				if s.OpenFails {
					return nil, nil, errInjectedOpen
				}
				return w, func(datamodel.Link) error { committed = true; return nil }, nil
			}
			var lnk datamodel.Link
			var err error
			p := model.Safe(func() { lnk, err = ls.Store(linking.LinkContext{}, b.Proto, node) })
			n++
			nontrivial++
			fail := func(rule, class, detail string) *run.Finding {
				return &run.Finding{Step: -1, Target: target, Rule: rule, Class: class,
					Detail: fmt.Sprintf("block %s (%d writes when healthy), storage write #%d fails, unencodable=%v, open fails=%v: %s", b.Name, total, k, s.EncFail, s.OpenFails, detail)}
			}
			if p != nil {
				return fail("NoPanic", "panic", fmt.Sprint(p)), n, nontrivial
			}
			if s.R == "error" {
				if committed {
					return fail("NoCommitOnFailure", "committed", fmt.Sprintf("the block was committed (%d bytes written) although the store failed / must fail; Store returned link=%v err=%v", w.buf.Len(), lnk, err)), n, nontrivial
				}
				if err == nil {
					return fail("ResultMatchesCommit", "no-error", "Store returned no error"), n, nontrivial
				}
			} else {
				if err != nil || !committed {
					return fail("store:ok", "error", fmt.Sprintf("healthy store failed: %v", err)), n, nontrivial
				}
				if lnk.Binary() != b.Link.Binary() || !bytes.Equal(w.buf.Bytes(), b.Bytes) {
					return fail("store:ok", "different-block", "a healthy store produced a different block or link"), n, nontrivial
				}
			}
		}
	}
	return nil, n, nontrivial
}
