package replay

import (
	"bytes"
	"fmt"
	"io"
	"math/rand"

	"github.com/ipld/go-ipld-prime/codec/dagcbor"
	"github.com/ipld/go-ipld-prime/datamodel"
	"github.com/ipld/go-ipld-prime/multicodec"
	"github.com/ipld/go-ipld-prime/node/basicnode"

	"verifharness/model"
	"verifharness/run"
)

// EncCase is one line of DagCborEnc / DagJsonEnc: a value, its specified canonical
// encoding and the value a decoder must yield for those bytes.
type EncCase struct {
	V      model.Value `json:"v"`
	Enc    []int       `json:"enc"`
	Sorted model.Value `json:"sorted"`
}

// Orders enumerates insertion orders of every map in v: all permutations when the product
// stays under limit, otherwise limit seeded samples (always including the given order and its reverse).
func Orders(v model.Value, limit int, rng *rand.Rand) []model.Value {
	total := countOrders(v, limit+1)
	if total <= limit {
		return allOrders(v)
	}
	out := []model.Value{v, reverseOrder(v)}
	for len(out) < limit {
		out = append(out, shuffleOrder(v, rng))
	}
	return out
}

func fact(n int) int {
	r := 1
	for i := 2; i <= n; i++ {
		r *= i
		if r > 1<<20 {
			return 1 << 20
		}
	}
	return r
}

func countOrders(v model.Value, cap int) int {
	n := 1
	if v.K == "map" {
		n = fact(len(v.Vs))
	}
	for _, c := range v.Vs {
		n *= countOrders(c, cap)
		if n > cap {
			return cap
		}
	}
	return n
}

func permutations(n int) [][]int {
	if n == 0 {
		return [][]int{{}}
	}
	var out [][]int
	for _, p := range permutations(n - 1) {
		for i := 0; i <= len(p); i++ {
			q := append(append(append([]int{}, p[:i]...), n-1), p[i:]...)
			out = append(out, q)
		}
	}
	return out
}

func allOrders(v model.Value) []model.Value {
	// children first
	childOpts := make([][]model.Value, len(v.Vs))
	for i, c := range v.Vs {
		childOpts[i] = allOrders(c)
	}
	var combos [][]model.Value
	var rec func(i int, cur []model.Value)
	rec = func(i int, cur []model.Value) {
		if i == len(childOpts) {
			combos = append(combos, append([]model.Value{}, cur...))
			return
		}
		for _, o := range childOpts[i] {
			rec(i+1, append(cur, o))
		}
	}
	rec(0, nil)
	var out []model.Value
	for _, kids := range combos {
		if v.K != "map" {
			w := model.Value{K: v.K, A: v.A, Ks: v.Ks, Vs: kids}
			out = append(out, w)
			continue
		}
		for _, p := range permutations(len(kids)) {
			w := model.Value{K: "map", A: v.A, Ks: make([][]int, len(kids)), Vs: make([]model.Value, len(kids))}
			for i, j := range p {
				w.Ks[i] = v.Ks[j]
				w.Vs[i] = kids[j]
			}
			out = append(out, w)
		}
	}
	return out
}

func reverseOrder(v model.Value) model.Value {
	w := model.Value{K: v.K, A: v.A, Ks: make([][]int, len(v.Ks)), Vs: make([]model.Value, len(v.Vs))}
	n := len(v.Vs)
	for i := range v.Vs {
		j := i
		if v.K == "map" {
			j = n - 1 - i
			w.Ks[i] = v.Ks[j]
		}
		w.Vs[i] = reverseOrder(v.Vs[j])
	}
	return w
}

func shuffleOrder(v model.Value, rng *rand.Rand) model.Value {
	w := model.Value{K: v.K, A: v.A, Ks: make([][]int, len(v.Ks)), Vs: make([]model.Value, len(v.Vs))}
	idx := make([]int, len(v.Vs))
	for i := range idx {
		idx[i] = i
	}
	if v.K == "map" {
		rng.Shuffle(len(idx), func(i, j int) { idx[i], idx[j] = idx[j], idx[i] })
	}
	for i, j := range idx {
		if v.K == "map" {
			w.Ks[i] = v.Ks[j]
		}
		w.Vs[i] = shuffleOrder(v.Vs[j], rng)
	}
	return w
}

// {"a": 1}
var cborProbe = func() datamodel.Node {
	nb := basicnode.Prototype.Map.NewBuilder()
	ma, _ := nb.BeginMap(1)
	va, _ := ma.AssembleEntry("a")
	va.AssignInt(1)
	ma.Finish()
	return nb.Build()
}()

// ReplayCborEnc checks one value of DagCborEnc against dagcbor.Encode / EncodedLength / Decode.
func ReplayCborEnc(cs *EncCase, seed int64, limit int) (*run.Finding, int) {
	conc := model.Conc{}
	checks := 0
	want := model.Bytes(cs.Enc)
	fail := func(target, rule, class, detail string) *run.Finding {
		return &run.Finding{Step: -1, Target: target, Rule: rule, Class: class, Detail: detail}
	}
	rng := rand.New(rand.NewSource(seed))
	impls := []string{"basic", "basic-typed", "bind", "foreign"}
	if model.HasUint(cs.V) {
		impls = []string{"basic"} // only basicnode can hold uint64 beyond int64
	}
	regEnc, err := multicodec.LookupEncoder(0x71)
	if err != nil {
		return fail("multicodec.LookupEncoder(0x71)", "registered", "error", err.Error()), checks
	}
	for oi, ord := range Orders(cs.V, limit, rng) {
		for _, impl := range impls {
			n, err := conc.BuildImpl(impl, ord)
			if err != nil {
				return fail("harness", "prebuild:"+impl, "error", fmt.Sprintf("%v: %v", ord, err)), checks
			}
			var buf bytes.Buffer
			var eerr error
			if p := model.Safe(func() { eerr = dagcbor.Encode(n, &buf) }); p != nil {
				return fail("dagcbor.Encode["+impl+"]", "Enc:canonical", "panic", fmt.Sprintf("%v: %v", ord, p)), checks
			}
			checks++
			if eerr != nil {
				return fail("dagcbor.Encode["+impl+"]", "Enc:canonical", "error", fmt.Sprintf("%v: %v", ord, eerr)), checks
			}
			if !bytes.Equal(buf.Bytes(), want) {
				return fail("dagcbor.Encode["+impl+"]", "Enc:canonical", "different-bytes",
					fmt.Sprintf("order#%d %v: spec=%x impl=%x", oi, ord, want, buf.Bytes())), checks
			}
			var l int64
			var lerr error
			if p := model.Safe(func() { l, lerr = dagcbor.EncodedLength(n) }); p != nil {
				return fail("dagcbor.EncodedLength["+impl+"]", "EncLen:agrees", "panic", fmt.Sprint(p)), checks
			}
			checks++
			if lerr != nil {
				return fail("dagcbor.EncodedLength["+impl+"]", "EncLen:agrees", "error", fmt.Sprintf("%v: %v", ord, lerr)), checks
			}
			if l != int64(len(want)) {
				return fail("dagcbor.EncodedLength["+impl+"]", "EncLen:agrees", "different-length",
					fmt.Sprintf("%v: spec=%d impl=%d", ord, len(want), l)), checks
			}
			if oi == 0 {
				var b2 bytes.Buffer
				if err := regEnc(n, &b2); err != nil || !bytes.Equal(b2.Bytes(), want) {
					return fail("multicodec[0x71].Encode["+impl+"]", "Enc:canonical", "different-bytes",
						fmt.Sprintf("%v: spec=%x impl=%x err=%v", ord, want, b2.Bytes(), err)), checks
				}
				checks++
			}
		}
	}
	// ... and a function of the value alone also right after an Encode that failed
	if n, err := conc.BuildImpl("basic", cs.V); err == nil {
		f, k := encodeAfterFaults("dagcbor.Encode[basic]", func(n datamodel.Node, w io.Writer) error { return dagcbor.Encode(n, w) }, n, want,
			[]encProbe{{cborProbe, []byte{0xa1, 0x61, 0x61, 0x01}}}, rng, 12, fmt.Sprint(cs.V))
		checks += k
		if f != nil {
			return f, checks
		}
	}
	// decode the canonical bytes: must yield the value with maps in canonical order
	for _, impl := range []string{"basic", "bind"} {
		if impl == "bind" && model.HasUint(cs.V) {
			continue
		}
		np, _ := model.ProtoFor(impl, cs.V.K)
		nb := np.NewBuilder()
		var derr error
		if p := model.Safe(func() { derr = dagcbor.Decode(nb, bytes.NewReader(want)) }); p != nil {
			return fail("dagcbor.Decode["+impl+"]", "Dec(Enc(v))=Sorted(v)", "panic", fmt.Sprint(p)), checks
		}
		checks++
		if derr != nil {
			return fail("dagcbor.Decode["+impl+"]", "Dec(Enc(v))=Sorted(v)", "error", fmt.Sprintf("%x: %v", want, derr)), checks
		}
		var n datamodel.Node
		if p := model.Safe(func() { n = nb.Build() }); p != nil {
			return fail("dagcbor.Decode["+impl+"]", "Dec(Enc(v))=Sorted(v)", "panic", fmt.Sprint(p)), checks
		}
		if m := conc.CheckObs(n, cs.Sorted, model.ObsOpts{}); m != nil {
			return fail("dagcbor.Decode["+impl+"]", "Dec(Enc(v))=Sorted(v)/"+m.Field, "mismatch", m.Error()), checks
		}
		checks++
	}
	_ = basicnode.Prototype
	return nil, checks
}
