package replay

import (
	"bytes"
	"fmt"
	"io"
	"math/rand"

	"github.com/ipfs/go-cid"
	"github.com/ipld/go-ipld-prime/datamodel"
	cidlink "github.com/ipld/go-ipld-prime/linking/cid"
	"github.com/ipld/go-ipld-prime/node/basicnode"

	"verifharness/model"
	"verifharness/run"
)

// The encoding is a function of the value alone (C02, C04) -- also of a value that is encoded right after an Encode
// that FAILED: a writer that stops accepting bytes at some offset, or a node the encoder must refuse part way through
// the document.  Whatever an encoder keeps between calls (pooled buffers, token or phase state) must not show.

// cutWriter accepts exactly `left` bytes and then fails.
type cutWriter struct {
	left int
	got  []byte
}

func (w *cutWriter) Write(p []byte) (int, error) {
	if len(p) > w.left {
		n := w.left
		w.got = append(w.got, p[:n]...)
		w.left = 0
		return n, errInjectedWrite
	}
	w.left -= len(p)
	w.got = append(w.got, p...)
	return len(p), nil
}

// refusedMidDocument: nodes every encoder must refuse only after it has written something: an undefined link as the
// second element of a list / the value of a second map entry, and a map whose iterator fails after one entry, alone and
// inside a list.
func refusedMidDocument() []datamodel.Node {
	undef := basicnode.NewLink(cidlink.Link{Cid: cid.Undef})
	one := basicnode.NewInt(1)
	list := func(els ...datamodel.Node) datamodel.Node {
		nb := basicnode.Prototype.List.NewBuilder()
		la, _ := nb.BeginList(int64(len(els)))
		for _, e := range els {
			la.AssembleValue().AssignNode(e)
		}
		la.Finish()
		return nb.Build()
	}
	mp := func(kv ...interface{}) datamodel.Node {
		nb := basicnode.Prototype.Map.NewBuilder()
		ma, _ := nb.BeginMap(int64(len(kv) / 2))
		for i := 0; i < len(kv); i += 2 {
			va, _ := ma.AssembleEntry(kv[i].(string))
			va.AssignNode(kv[i+1].(datamodel.Node))
		}
		ma.Finish()
		return nb.Build()
	}
	base := mp("a", one, "b", basicnode.NewString("x"), "c", one)
	return []datamodel.Node{
		list(one, undef),
		mp("a", one, "b", undef),
		list(list(one, undef)),
		failingMap{base, 1},
		list(one, failingMap{base, 1}),
		list(one, failingMap{base, 0}),
	}
}

type encProbe struct {
	n    datamodel.Node
	want []byte
}

func encodeAfterFaults(target string, enc func(datamodel.Node, io.Writer) error, n datamodel.Node, want []byte,
	probes []encProbe, rng *rand.Rand, maxCuts int, desc string) (*run.Finding, int) {
	checks := 0
	fail := func(rule, class, detail string) *run.Finding {
		return &run.Finding{Step: -1, Target: target, Rule: rule, Class: class, Detail: detail}
	}
	after := func(what string) *run.Finding {
		for _, p := range append([]encProbe{{n, want}}, probes...) {
			var buf bytes.Buffer
			var err error
			if pn := model.Safe(func() { err = enc(p.n, &buf) }); pn != nil {
				return fail("Enc:function-of-the-value(after a failed Encode)", "panic", fmt.Sprintf("%s: %v", what, pn))
			}
			checks++
			if err != nil || !bytes.Equal(buf.Bytes(), p.want) {
				return fail("Enc:function-of-the-value(after a failed Encode)", "different-bytes",
					fmt.Sprintf("%s; the next Encode wrote %q (%x) err=%v, alone it writes %q (%x)", what, buf.Bytes(), buf.Bytes(), err, p.want, p.want))
			}
		}
		return nil
	}
	var cuts []int
	if len(want) <= maxCuts {
		for c := 0; c < len(want); c++ {
			cuts = append(cuts, c)
		}
	} else {
		for len(cuts) < maxCuts {
			cuts = append(cuts, rng.Intn(len(want)))
		}
	}
	for _, c := range cuts {
		w := &cutWriter{left: c}
		var err error
		if pn := model.Safe(func() { err = enc(n, w) }); pn != nil {
			return fail("Enc:writer-fault", "panic", fmt.Sprintf("%s, writer failing after %d bytes: %v", desc, c, pn)), checks
		}
		checks++
		if err == nil {
			return fail("Enc:writer-fault", "no-error", fmt.Sprintf("%s: the writer failed after %d of %d bytes and Encode returned nil", desc, c, len(want))), checks
		}
		if !bytes.HasPrefix(want, w.got) {
			return fail("Enc:writer-fault", "wrote-other-bytes", fmt.Sprintf("%s: before the writer failed at %d Encode wrote %x, not a prefix of %x", desc, c, w.got, want)), checks
		}
		if f := after(fmt.Sprintf("%s, after an Encode of the same value whose writer failed after %d of %d bytes", desc, c, len(want))); f != nil {
			return f, checks
		}
	}
	for i, r := range refusedMidDocument() {
		var buf bytes.Buffer
		var err error
		if pn := model.Safe(func() { err = enc(r, &buf) }); pn != nil {
			return fail("Enc:refused-node", "panic", fmt.Sprintf("refused node #%d: %v", i, pn)), checks
		}
		checks++
		if err == nil {
			return fail("Enc:refused-node", "no-error", fmt.Sprintf("refused node #%d was encoded as %q", i, buf.Bytes())), checks
		}
		if f := after(fmt.Sprintf("%s, after an Encode that was refused part way through a document (refused node #%d: %v)", desc, i, err)); f != nil {
			return f, checks
		}
	}
	return nil, checks
}
