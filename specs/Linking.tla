------------------------------ MODULE Linking ------------------------------
(***************************************************************************)
(* LinkSystem (linking/functions.go): Store, ComputeLink, Load, LoadRaw,   *)
(* LoadPlusRaw, Fill -- with the storage and the encoder as a misbehaving  *)
(* environment.                                                            *)
(*                                                                         *)
(* Fill and Store are modelled as the multi-step programs they are         *)
(* (open / pull bytes through the tee / decoder verdict / drain / compare  *)
(* / return; open / write* / encoder verdict / commit), so that TLC        *)
(* reaches every combination of "decoder failed early / succeeded / read   *)
(* past the item" with "fault before / inside / after what the decoder     *)
(* consumed".                                                              *)
(*                                                                         *)
(* Abstractions: a block is a short byte sequence of a toy self-delimiting *)
(* codec <<n, p1..pn>> (decodes iff the length byte matches and nothing    *)
(* follows -- like a CBOR item followed by the trailing-byte probe); Hash  *)
(* is injective (identity); a link is <<prototype, hash>>.                 *)
(* Decoder contract used by the code: a decoder that returns success has   *)
(* read the stream to its end (dag-cbor probes for a trailing byte,        *)
(* dag-json reads trailing whitespace to EOF, raw reads everything).       *)
(***************************************************************************)
EXTENDS Integers, Sequences, FiniteSets, TLC

CONSTANTS Payloads,      \* set of payload sequences = the abstract values
          Protos,        \* set of link prototypes (codec x hash x version), abstract ids
          Faults,        \* set of fault records the storage may apply to a read
          Chunks         \* set of chunk sizes the storage reader may use

Enc(v) == <<Len(v)>> \o v                 \* canonical block of value v
Hash(b) == b                              \* injective
Link(p, b) == [p |-> p, h |-> Hash(b)]

\* toy decoder on a complete byte string
DecOK(b) == b # <<>> /\ Len(b) = b[1] + 1
DecVal(b) == SubSeq(b, 2, Len(b))
\* how many bytes the decoder reads before it knows its verdict (incl. the trailing probe)
DecNeeds(b) == IF b = <<>> THEN 0 ELSE IF Len(b) >= b[1] + 2 THEN b[1] + 2 ELSE Len(b)

NoFault == [kind |-> "none", off |-> 0, b |-> <<>>]

\* what the storage delivers for stored block B under fault f
Delivered(B, f) ==
  CASE f.kind \in {"none", "readerr", "openerr"} -> B
    [] f.kind = "flip"   -> [B EXCEPT ![f.off] = (B[f.off] + 1) % 4]
    [] f.kind = "trunc"  -> SubSeq(B, 1, f.off)
    [] f.kind = "extend" -> B \o f.b
    [] f.kind = "subst"  -> f.b

------------------------------------------------------------------------------
VARIABLES
  stored,   \* the block in storage under the link being loaded
  fault,    \* the fault applied to this read
  chunk,    \* chunk size of the storage reader
  op,       \* "Load" | "LoadRaw" | "LoadPlusRaw" | "Fill"
  pc,       \* "open" | "pull" | "decoded" | "drain" | "compare" | "done"
  pos,      \* bytes delivered by the reader so far
  hashed,   \* bytes the hasher has seen
  dec,      \* decoder verdict: "" | "ok" | "err"
  ioerr,    \* a storage error was raised to the caller of Read
  ret       \* result: [r |-> "ok"|"hash_mismatch"|"decode_error"|"io_error", v |-> value | <<>>, raw |-> bytes | <<>>]

vars == <<stored, fault, chunk, op, pc, pos, hashed, dec, ioerr, ret>>

D == Delivered(stored, fault)
ErrAt == IF fault.kind = "readerr" THEN fault.off ELSE -1    \* error instead of delivering byte ErrAt+1

Init ==
  /\ stored \in {Enc(v) : v \in Payloads}
  /\ fault \in {f \in Faults \cup {NoFault} :
                   /\ f.kind \in {"flip", "trunc", "readerr"} => f.off <= Len(stored)
                   /\ f.kind = "flip" => f.off >= 1
                   /\ f.kind = "trunc" => f.off < Len(stored)
                   /\ f.kind = "subst" => f.b # stored}
  /\ chunk \in Chunks
  /\ op \in {"Load", "LoadRaw", "LoadPlusRaw", "Fill"}
  /\ pc = "open" /\ pos = 0 /\ hashed = <<>> /\ dec = "" /\ ioerr = FALSE
  /\ ret = [r |-> "", v |-> <<>>, raw |-> <<>>]

Result(r, v, raw) == [r |-> r, v |-> v, raw |-> raw]

Open ==
  /\ pc = "open"
  /\ IF fault.kind = "openerr"
       THEN pc' = "done" /\ ret' = Result("io_error", <<>>, <<>>) /\ ioerr' = TRUE
       ELSE pc' = "pull" /\ UNCHANGED <<ret, ioerr>>
  /\ UNCHANGED <<stored, fault, chunk, op, pos, hashed, dec>>

Streaming == op \in {"Load", "Fill"}      \* decode through the tee; the other two buffer the block first

\* the decoder reports "trailing data" as soon as it has read one byte past a complete item
TrailingSeenAt(n) == D # <<>> /\ Len(D) >= D[1] + 2 /\ n >= D[1] + 2

Min2(a, b) == IF a < b THEN a ELSE b

\* one Read call of the storage reader: the injected error, EOF, or up to chunk bytes
Pull ==
  /\ pc = "pull"
  /\ UNCHANGED <<stored, fault, chunk, op>>
  /\ IF ErrAt = pos THEN
       \* the reader returns the error
       /\ ioerr' = TRUE
       /\ UNCHANGED <<pos, hashed>>
       /\ IF Streaming THEN dec' = "err" /\ pc' = "drain" /\ UNCHANGED ret
                       ELSE pc' = "done" /\ ret' = Result("io_error", <<>>, <<>>) /\ UNCHANGED dec
     ELSE IF pos = Len(D) THEN
       \* EOF
       /\ UNCHANGED <<pos, hashed, ioerr, ret>>
       /\ IF Streaming THEN dec' = (IF DecOK(D) THEN "ok" ELSE "err")
                            /\ pc' = (IF DecOK(D) THEN "compare" ELSE "drain")
                       ELSE pc' = "compare" /\ UNCHANGED dec
     ELSE
       LET lim == IF ErrAt > pos THEN Min2(ErrAt, Len(D)) ELSE Len(D)
           np  == Min2(pos + chunk, lim) IN
       /\ pos' = np /\ hashed' = SubSeq(D, 1, np)
       /\ UNCHANGED <<ioerr, ret>>
       /\ IF Streaming /\ TrailingSeenAt(np)
            THEN dec' = "err" /\ pc' = "drain"
            ELSE UNCHANGED <<dec, pc>>

\* after a decode error the rest of the stream is copied into the hasher
Drain ==
  /\ pc = "drain"
  /\ IF ioerr \/ (ErrAt >= pos /\ ErrAt <= Len(D) /\ ErrAt >= 0)
       THEN pc' = "done" /\ ret' = Result("io_error", <<>>, <<>>) /\ ioerr' = TRUE /\ UNCHANGED <<pos, hashed>>
       ELSE pc' = "compare" /\ pos' = Len(D) /\ hashed' = D /\ UNCHANGED <<ret, ioerr>>
  /\ UNCHANGED <<stored, fault, chunk, op, dec>>

Compare ==
  /\ pc = "compare"
  /\ pc' = "done"
  /\ ret' = IF Hash(hashed) # Hash(stored) THEN Result("hash_mismatch", <<>>, <<>>)
            ELSE IF op = "LoadRaw" THEN Result("ok", <<>>, hashed)
            ELSE IF Streaming THEN (IF dec = "err" THEN Result("decode_error", <<>>, <<>>)
                                    ELSE Result("ok", DecVal(hashed), <<>>))
            ELSE \* LoadPlusRaw: verified bytes, then decoded
                 (IF DecOK(hashed) THEN Result("ok", DecVal(hashed), hashed)
                  ELSE Result("decode_error", <<>>, hashed))
  /\ UNCHANGED <<stored, fault, chunk, op, pos, hashed, dec, ioerr>>

Next == Open \/ Pull \/ Drain \/ Compare
Spec == Init /\ [][Next]_vars

------------------------------------------------------------------------------
(* C06 on the specification *)

\* no load returns a node or bytes whose underlying bytes do not hash to the link
NoUnverifiedData ==
  (pc = "done" /\ (ret.v # <<>> \/ ret.raw # <<>> \/ ret.r = "ok")) =>
     /\ Hash(hashed) = Hash(stored)
     /\ ret.r = "ok" => (ret.raw = <<>> \/ ret.raw = stored) /\ (op = "LoadRaw" \/ ret.v = DecVal(stored))

\* corruption without an I/O error is reported as hash mismatch, whatever the decoder thought
MismatchWins ==
  (pc = "done" /\ ~ioerr /\ D # stored) => ret.r = "hash_mismatch"

\* storage errors surface as errors
IoErrorsSurface == (pc = "done" /\ ioerr) => ret.r \in {"io_error", "hash_mismatch"}

\* intact storage loads
IntactLoads == (pc = "done" /\ ~ioerr /\ D = stored) => ret.r = "ok"

Done == pc = "done"
=============================================================================
