------------------------------ MODULE DagCbor ------------------------------
(***************************************************************************)
(* DAG-CBOR, written from the DAG-CBOR specification text (not from        *)
(* marshal.go / unmarshal.go / refmt):                                     *)
(*                                                                         *)
(*  Enc(v)     the canonical encoding: shortest heads, definite lengths,   *)
(*             64-bit floats, map keys sorted by length then bytewise,     *)
(*             links as tag 42 over 0x00 ++ CID                            *)
(*  EncLen(v)  the encoded length, as separate arithmetic                  *)
(*  the strict decoder as a byte-at-a-time machine: one transition per     *)
(*  byte consumed, labelled rejections, the three documented tolerances    *)
(*  (unsorted keys, 16/32-bit floats, undefined read as null) recorded in  *)
(*  tol.                                                                   *)
(*                                                                         *)
(* Bytes are naturals 0..255, byte strings are sequences.  Integers are    *)
(* sign ++ minimal big-endian argument bytes (DataModel.tla), so the full  *)
(* uint64 / int64 range is representable with TLC's 32-bit integers.       *)
(***************************************************************************)
EXTENDS DataModel

CONSTANTS
  Relaxed,      \* BOOLEAN: DecodeOptions.RelaxedDecode
  AllowLinks,   \* BOOLEAN: DecodeOptions.AllowLinks
  MaxDepthCfg   \* DecodeOptions.MaxDepth (containers nested deeper are refused)

------------------------------------------------------------------------------
(* byte-string helpers *)
RECURSIVE NatBytes(_)
NatBytes(n) == IF n = 0 THEN <<>> ELSE NatBytes(n \div 256) \o <<n % 256>>

RECURSIVE BytesNat(_)          \* only for Len <= 3 (fits TLC integers)
BytesNat(m) == IF m = <<>> THEN 0 ELSE BytesNat(SubSeq(m, 1, Len(m) - 1)) * 256 + m[Len(m)]

RECURSIVE Strip(_)
Strip(m) == IF m # <<>> /\ m[1] = 0 THEN Strip(Tail(m)) ELSE m

Pad(m, w) == [i \in 1..w |-> IF i <= w - Len(m) THEN 0 ELSE m[i - (w - Len(m))]]
Drop(s, n) == SubSeq(s, n + 1, Len(s))

RECURSIVE Flatten(_)
Flatten(ss) == IF ss = <<>> THEN <<>> ELSE ss[1] \o Flatten(Tail(ss))

HUGE == 1073741824    \* stands for "a length of 2^24 or more" (never satisfiable by short inputs)
LenOfArg(m) == IF Len(m) <= 3 THEN BytesNat(m) ELSE HUGE

------------------------------------------------------------------------------
(* canonical encoder *)
HeadB(major, m) ==     \* m: minimal big-endian argument bytes
  LET n == Len(m) IN
  IF n = 0 THEN <<major * 32>>
  ELSE IF n = 1 THEN (IF m[1] < 24 THEN <<major * 32 + m[1]>> ELSE <<major * 32 + 24, m[1]>>)
  ELSE IF n = 2 THEN <<major * 32 + 25>> \o m
  ELSE IF n <= 4 THEN <<major * 32 + 26>> \o Pad(m, 4)
  ELSE <<major * 32 + 27>> \o Pad(m, 8)

HeadN(major, n) == HeadB(major, NatBytes(n))

RECURSIVE EncOrd(_, _)     \* sorted = TRUE: canonical; FALSE: entries in the order held
EncOrd(v, sorted) ==
  CASE v.k = "null"   -> <<246>>
    [] v.k = "bool"   -> IF v.a = <<1>> THEN <<245>> ELSE <<244>>
    [] v.k = "int"    -> HeadB(v.a[1], Tail(v.a))
    [] v.k = "float"  -> (IF Len(v.a) = 8 THEN <<251>> ELSE IF Len(v.a) = 4 THEN <<250>> ELSE <<249>>) \o v.a
    [] v.k = "string" -> HeadN(3, Len(v.a)) \o v.a
    [] v.k = "bytes"  -> HeadN(2, Len(v.a)) \o v.a
    [] v.k = "link"   -> <<216, 42>> \o HeadN(2, Len(v.a) + 1) \o <<0>> \o v.a
    [] v.k = "list"   -> HeadN(4, Len(v.vs)) \o Flatten([i \in DOMAIN v.vs |-> EncOrd(v.vs[i], sorted)])
    [] v.k = "map"    ->
         LET idx == IF sorted THEN SortIdx(Len(v.ks), v.ks, "lenfirst") ELSE [i \in DOMAIN v.ks |-> i]
         IN HeadN(5, Len(v.vs)) \o
            Flatten([i \in DOMAIN idx |-> HeadN(3, Len(v.ks[idx[i]])) \o v.ks[idx[i]]
                                           \o EncOrd(v.vs[idx[i]], sorted)])

Enc(v) == EncOrd(v, TRUE)

(* encoded length, stated independently as arithmetic *)
HeadLenN(n) == IF n < 24 THEN 1 ELSE IF n < 256 THEN 2 ELSE IF n < 65536 THEN 3 ELSE 5
HeadLenB(m) == LET n == Len(m) IN
  IF n = 0 THEN 1 ELSE IF n = 1 THEN (IF m[1] < 24 THEN 1 ELSE 2)
  ELSE IF n = 2 THEN 3 ELSE IF n <= 4 THEN 5 ELSE 9

RECURSIVE EncLen(_)
EncLen(v) ==
  CASE v.k \in {"null", "bool"} -> 1
    [] v.k = "int"    -> HeadLenB(Tail(v.a))
    [] v.k = "float"  -> 9
    [] v.k \in {"string", "bytes"} -> HeadLenN(Len(v.a)) + Len(v.a)
    [] v.k = "link"   -> 2 + HeadLenN(Len(v.a) + 1) + 1 + Len(v.a)
    [] v.k = "list"   -> HeadLenN(Len(v.vs)) +
                         (LET F[i \in 0..Len(v.vs)] == IF i = 0 THEN 0 ELSE F[i - 1] + EncLen(v.vs[i])
                          IN F[Len(v.vs)])
    [] v.k = "map"    -> HeadLenN(Len(v.vs)) +
                         (LET F[i \in 0..Len(v.vs)] ==
                                IF i = 0 THEN 0
                                ELSE F[i - 1] + HeadLenN(Len(v.ks[i])) + Len(v.ks[i]) + EncLen(v.vs[i])
                          IN F[Len(v.vs)])

------------------------------------------------------------------------------
(* CID well-formedness, from the CID / multihash / unsigned-varint specifications *)
RECURSIVE VarintGo(_, _, _)    \* s, index (1-based), shift count; returns [ok, n, val]
VarintGo(s, i, k) ==
  IF i > Len(s) THEN [ok |-> FALSE, n |-> 0, val |-> 0]                  \* underflow
  ELSE IF k = 8 /\ s[i] >= 128 THEN [ok |-> FALSE, n |-> 0, val |-> 0]   \* more than 63 bits
  ELSE IF s[i] < 128 THEN
         (IF s[i] = 0 /\ k > 0 THEN [ok |-> FALSE, n |-> 0, val |-> 0]   \* not minimal
          ELSE [ok |-> TRUE, n |-> i, val |-> IF k <= 3 THEN s[i] ELSE HUGE])
  ELSE LET r == VarintGo(s, i + 1, k + 1)
       IN IF ~r.ok THEN r
          ELSE [ok |-> TRUE, n |-> r.n,
                val |-> IF r.val >= HUGE \/ k > 3 THEN HUGE ELSE (s[i] - 128) + 128 * r.val]
Varint(s) == VarintGo(s, 1, 0)

ValidCid(c) ==
  IF Len(c) > 2 /\ c[1] = 18 /\ c[2] = 32 THEN Len(c) = 34        \* CIDv0: bare sha2-256 multihash
  ELSE
    LET ver == Varint(c) IN ver.ok /\ ver.val = 1 /\
    LET r1 == Drop(c, ver.n)  cod == Varint(r1) IN cod.ok /\
    LET r2 == Drop(r1, cod.n) IN Len(r2) >= 2 /\
    LET mhc == Varint(r2) IN mhc.ok /\
    LET r3 == Drop(r2, mhc.n) ln == Varint(r3) IN ln.ok /\ ln.val < HUGE /\
    Len(r3) - ln.n = ln.val

------------------------------------------------------------------------------
(* the strict decoder, one byte at a time *)

\* machine record
M0 == [mode |-> "item", major |-> 0, need |-> 0, acc |-> <<>>, stk |-> <<>>,
       tagged |-> FALSE, out |-> Nil, why |-> "", tol |-> {}]

Rej(m, why) == [m EXCEPT !.mode = "rej", !.why = why]

FrameC(kind, n) == [kind |-> kind, left |-> n, ks |-> <<>>, vs |-> <<>>, key |-> <<>>, wantKey |-> kind = "map"]

RECURSIVE Deliver(_, _)
Deliver(m, v) ==
  IF m.stk = <<>> THEN [m EXCEPT !.mode = "done", !.out = v]
  ELSE
    LET d == Len(m.stk)  f == m.stk[d] IN
    IF f.kind = "map" /\ f.wantKey THEN
      IF v.k # "string" THEN Rej(m, "non_string_key")
      ELSE IF v.a \in Range(f.ks) THEN Rej(m, "dup_key")
      ELSE [m EXCEPT !.mode = "item",
                     !.stk[d] = [f EXCEPT !.key = v.a, !.wantKey = FALSE],
                     !.tol = IF f.ks # <<>> /\ ~KeyLess("lenfirst", f.ks[Len(f.ks)], v.a)
                               THEN @ \cup {"unsorted"} ELSE @]
    ELSE
      LET g == IF f.kind = "map"
                 THEN [f EXCEPT !.ks = Append(@, f.key), !.vs = Append(@, v), !.left = @ - 1,
                                !.wantKey = TRUE, !.key = <<>>]
                 ELSE [f EXCEPT !.vs = Append(@, v), !.left = @ - 1]
      IN IF g.left = 0
           THEN Deliver([m EXCEPT !.stk = SubSeq(m.stk, 1, d - 1)],
                        IF g.kind = "map" THEN MapV(g.ks, g.vs) ELSE ListV(g.vs))
           ELSE [m EXCEPT !.mode = "item", !.stk[d] = g]

\* a complete non-tag item value was read while a tag 42 is pending
Untag(m, v) ==
  IF ~m.tagged THEN Deliver(m, v)
  ELSE IF v.k # "bytes" THEN Rej(m, "tag_on_non_bytes")
  ELSE IF ~AllowLinks THEN Rej(m, "links_not_allowed")
  ELSE IF v.a = <<>> \/ v.a[1] # 0 THEN Rej(m, "bad_multibase")
  ELSE IF ~ValidCid(Tail(v.a)) THEN Rej(m, "bad_cid")
  ELSE Deliver([m EXCEPT !.tagged = FALSE], Scalar("link", Tail(v.a)))

IsNanInf(raw) ==
  LET w == Len(raw) IN
  IF w = 2 THEN (raw[1] \div 4) % 32 = 31
  ELSE IF w = 4 THEN (raw[1] % 128) * 2 + (raw[2] \div 128) = 255
  ELSE (raw[1] % 128) = 127 /\ (raw[2] \div 16) = 15

NonMinimal(raw) ==
  LET w == Len(raw) IN
  IF w = 1 THEN raw[1] < 24
  ELSE IF w = 2 THEN raw[1] = 0
  ELSE IF w = 4 THEN raw[1] = 0 /\ raw[2] = 0
  ELSE raw[1] = 0 /\ raw[2] = 0 /\ raw[3] = 0 /\ raw[4] = 0

\* the head of an item is complete: major type and raw argument bytes (<<>> when immediate)
HeadDone(m, major, ai, raw, explicit) ==
  LET arg == Strip(raw) IN
  IF major = 7 THEN
    IF ~explicit THEN
      (IF ai = 20 THEN Untag(m, Scalar("bool", <<0>>))
       ELSE IF ai = 21 THEN Untag(m, Scalar("bool", <<1>>))
       ELSE IF ai = 22 THEN Untag(m, NullV)
       ELSE IF ai = 23 THEN Untag([m EXCEPT !.tol = @ \cup {"undefined"}], NullV)
       ELSE Rej(m, "reserved_simple"))
    ELSE IF Len(raw) = 1 THEN Rej(m, "reserved_simple")
    ELSE IF ~Relaxed /\ IsNanInf(raw) THEN Rej(m, "nan_or_inf")
    ELSE Untag([m EXCEPT !.tol = IF Len(raw) < 8 THEN @ \cup {"narrow_float"} ELSE @],
               Scalar("float", raw))
  ELSE IF ~Relaxed /\ explicit /\ NonMinimal(raw) THEN Rej(m, "non_minimal")
  ELSE IF major = 0 THEN Untag(m, Scalar("int", <<0>> \o arg))
  ELSE IF major = 1 THEN
    (IF Len(arg) = 8 /\ arg[1] >= 128 THEN Rej(m, "int_out_of_range")
     ELSE Untag(m, Scalar("int", <<1>> \o arg)))
  ELSE IF major \in {2, 3} THEN
    (IF arg = <<>> THEN Untag(m, Scalar(IF major = 2 THEN "bytes" ELSE "string", <<>>))
     ELSE [m EXCEPT !.mode = "payload", !.major = major, !.need = LenOfArg(arg), !.acc = <<>>])
  ELSE IF major \in {4, 5} THEN
    (IF m.tagged THEN Rej(m, "tag_on_non_bytes")
     ELSE IF Len(m.stk) >= MaxDepthCfg THEN Rej(m, "depth_exceeded")
     ELSE IF arg = <<>> THEN Deliver(m, IF major = 4 THEN ListV(<<>>) ELSE MapV(<<>>, <<>>))
     ELSE [m EXCEPT !.mode = "item",
                    !.stk = Append(@, FrameC(IF major = 4 THEN "list" ELSE "map", LenOfArg(arg)))])
  ELSE \* major = 6
    (IF m.tagged THEN Rej(m, "tag_on_non_bytes")
     ELSE IF arg # <<42>> THEN Rej(m, "tag_not_42")
     ELSE [m EXCEPT !.mode = "item", !.tagged = TRUE])

\* consume one byte
StepM(m, b) ==
  IF m.mode = "done" THEN Rej(m, "trailing")
  ELSE IF m.mode = "item" THEN
    LET major == b \div 32  ai == b % 32 IN
    IF ai < 24 THEN HeadDone(m, major, ai, IF major = 7 \/ ai = 0 THEN <<>> ELSE <<ai>>, FALSE)
    ELSE IF ai = 31 THEN Rej(m, IF major = 7 THEN "unexpected_break" ELSE "indefinite")
    ELSE IF ai >= 28 THEN Rej(m, "reserved_ai")
    ELSE [m EXCEPT !.mode = "arg", !.major = major,
                   !.need = IF ai = 24 THEN 1 ELSE IF ai = 25 THEN 2 ELSE IF ai = 26 THEN 4 ELSE 8,
                   !.acc = <<>>]
  ELSE IF m.mode = "arg" THEN
    LET acc == Append(m.acc, b) IN
    IF m.need > 1 THEN [m EXCEPT !.acc = acc, !.need = @ - 1]
    ELSE HeadDone([m EXCEPT !.acc = <<>>, !.need = 0], m.major, 24, acc, TRUE)
  ELSE IF m.mode = "payload" THEN
    LET acc == Append(m.acc, b) IN
    IF m.need > 1 THEN [m EXCEPT !.acc = acc, !.need = @ - 1]
    ELSE Untag([m EXCEPT !.acc = <<>>, !.need = 0],
               Scalar(IF m.major = 2 THEN "bytes" ELSE "string", acc))
  ELSE m   \* "rej" is absorbing

RECURSIVE RunM(_, _)
RunM(m, bytes) == IF bytes = <<>> \/ m.mode = "rej" THEN m ELSE RunM(StepM(m, bytes[1]), Tail(bytes))

\* verdict when the input ends in machine state m
Verdict(m) ==
  IF m.mode = "done" THEN [acc |-> TRUE, why |-> "", v |-> m.out, tol |-> m.tol]
  ELSE IF m.mode = "rej" THEN [acc |-> FALSE, why |-> m.why, v |-> Nil, tol |-> {}]
  ELSE [acc |-> FALSE, why |-> "truncated", v |-> Nil, tol |-> {}]

Decode(bytes) == Verdict(RunM(M0, bytes))

\* Re-encoding of a decoded value exactly as it was read: entry order kept, float width kept.
EncAsRead(v) == EncOrd(v, FALSE)
=============================================================================
