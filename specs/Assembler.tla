----------------------------- MODULE Assembler -----------------------------
(***************************************************************************)
(* The NodeBuilder / NodeAssembler protocol as a state machine.            *)
(*                                                                         *)
(* One action per public call of datamodel.NodeBuilder, NodeAssembler,     *)
(* MapAssembler and ListAssembler.  The machine mirrors the shape of the   *)
(* implementations (basicnode map.go maState, list.go laState): a           *)
(* stack of half-built containers, each with the little state enum that    *)
(* says which call is legal next.  Only legal call orders are actions      *)
(* (misuse may panic by contract, C12) plus the two rejections the         *)
(* contract pins down: a repeated key, and a kind the position cannot      *)
(* hold.                                                                   *)
(*                                                                         *)
(* Bound to the code by replay (harness/replay_assembler.go): TLC emits    *)
(* every behaviour with the call, its arguments, the result class the      *)
(* specification prescribes for that call and, at each Build, the value    *)
(* the node must read back as (C01, C12); and by trace validation          *)
(* (Trace_Assembler.tla) of long random call sequences recorded from the   *)
(* real builders.                                                          *)
(***************************************************************************)
EXTENDS DataModel

CONSTANTS
  Keys,        \* set of key tokens (sequences of naturals)
  Scalars,     \* set of scalar Values usable with Assign<Kind>
  Prebuilt,    \* set of [v: Value, impl: STRING]: finished nodes usable with AssignNode
  Hints,       \* set of size hints given to BeginMap / BeginList
  TopKind,     \* what the top-level builder accepts: "any" or one kind
  MaxNodes,    \* bound: total number of values (scalars + containers) assembled
  MaxDepth,    \* bound: nesting of open containers
  MaxRejects,  \* bound: number of rejected calls per behaviour
  MaxResets,   \* bound: number of Builder.Reset calls
  Routes       \* subset of {"entry", "keyvalue", "keynode"}: how map keys may be supplied

VARIABLES
  stack,    \* sequence of frames, innermost last
  pc,       \* "open" | "building" | "finished" | "built" | "dead"
  cur,      \* the value completed at top level but not yet returned by Build
  results,  \* sequence of values returned by Build so far (finished nodes)
  nodes, rejects, resets,   \* bound counters
  ret,      \* result class of the last call (observation only)
  hist      \* call history (observation only)

vars == <<stack, pc, cur, results, nodes, rejects, resets, ret, hist>>
core == <<stack, pc, cur, results, nodes, rejects, resets>>   \* VIEW for the exhaustive config

Frame(kind) == [kind |-> kind, st |-> "initial", ks |-> <<>>, vs |-> <<>>, pk |-> <<>>]
Top == stack[Len(stack)]
SetTop(f) == [stack EXCEPT ![Len(stack)] = f]

Step(a, x, key, v, impl, r) == [a |-> a, x |-> x, key |-> key, v |-> v, impl |-> impl, r |-> r]
Log(a, x, key, v, impl, r) == /\ ret' = r
                              /\ hist' = Append(hist, Step(a, x, key, v, impl, r))

Init ==
  /\ stack = <<>> /\ pc = "open" /\ cur = Nil /\ results = <<>>
  /\ nodes = 0 /\ rejects = 0 /\ resets = 0
  /\ ret = "" /\ hist = <<>>

\* A value may be supplied here: top level not yet filled, or a container waiting mid-value.
ValuePos == \/ pc = "open"
            \/ pc = "building" /\ Top.st = "midValue"

TopAccepts(kind) == pc = "open" => (TopKind = "any" \/ TopKind = kind)

\* The effect of a value being completed at the current value position.
Deliver(st, v) ==
  IF st = <<>> THEN [stack |-> <<>>, cur |-> v, pc |-> "finished"]
  ELSE LET f == st[Len(st)]
           g == IF f.kind = "map"
                  THEN [f EXCEPT !.ks = Append(f.ks, f.pk), !.vs = Append(f.vs, v),
                                 !.pk = <<>>, !.st = "initial"]
                  ELSE [f EXCEPT !.vs = Append(f.vs, v), !.st = "initial"]
       IN [stack |-> [st EXCEPT ![Len(st)] = g], cur |-> cur, pc |-> "building"]

Apply(d) == stack' = d.stack /\ cur' = d.cur /\ pc' = d.pc

------------------------------------------------------------------------------
(* begin a container: NodeAssembler.BeginMap / BeginList *)
Begin(kind, h) ==
  /\ ValuePos /\ TopAccepts(kind)
  /\ nodes < MaxNodes /\ Len(stack) < MaxDepth
  /\ stack' = Append(stack, Frame(kind)) /\ pc' = "building"
  /\ nodes' = nodes + 1
  /\ UNCHANGED <<cur, results, rejects, resets>>
  /\ Log(IF kind = "map" THEN "BeginMap" ELSE "BeginList", h, <<>>, Nil, "", "ok")

(* MapAssembler.AssembleKey *)
AssembleKey ==
  /\ pc = "building" /\ Top.kind = "map" /\ Top.st = "initial"
  /\ nodes < MaxNodes
  /\ Routes \cap {"keyvalue", "keynode"} # {}
  /\ stack' = SetTop([Top EXCEPT !.st = "midKey"])
  /\ UNCHANGED <<pc, cur, results, nodes, rejects, resets>>
  /\ Log("AssembleKey", 0, <<>>, Nil, "", "ok")

(* key assembler: AssignString(k), or AssignNode(string node) -- accepted *)
KeyAssign(k, via) ==
  /\ pc = "building" /\ Top.kind = "map" /\ Top.st = "midKey"
  /\ via \in Routes \ {"entry"}
  /\ k \notin Range(Top.ks)
  /\ stack' = SetTop([Top EXCEPT !.st = "expectValue", !.pk = k])
  /\ UNCHANGED <<pc, cur, results, nodes, rejects, resets>>
  /\ Log(IF via = "keyvalue" THEN "KeyAssignString" ELSE "KeyAssignNode", 0, k, Nil, "", "ok")

(* key assembler: repeated key -- rejected, assembler back to 'expect key or finish' *)
KeyRejectDup(k, via) ==
  /\ pc = "building" /\ Top.kind = "map" /\ Top.st = "midKey"
  /\ via \in Routes \ {"entry"}
  /\ k \in Range(Top.ks)
  /\ rejects < MaxRejects
  /\ stack' = SetTop([Top EXCEPT !.st = "initial"])
  /\ rejects' = rejects + 1
  /\ UNCHANGED <<pc, cur, results, nodes, resets>>
  /\ Log(IF via = "keyvalue" THEN "KeyAssignString" ELSE "KeyAssignNode", 0, k, Nil, "",
         "repeated_key")

(* ---- A deviation, named.  A map whose key assembler is the key TYPE's own assembler (the generated typed   *)
(* maps: the arrangement that serves complex keys) cannot notice a repeated key when it is supplied.  The     *)
(* next call on the map assembler, AssembleValue, notices: it drops the entry that was begun, is back to      *)
(* 'expect key or finish', and hands out an assembler that refuses whatever is done with it with the          *)
(* repeated-key error.  The property allows a refusal later than the key ("or at finish for complex keys");   *)
(* what it does not allow is that the key is never refused or that the refusal leaves a trace.  These three   *)
(* actions are NOT part of Next: the typed machine enables them, and each emitted behaviour says which style  *)
(* of refusal it contains so that every engine is held to its own.                                            *)
KeyAssignDupUnnoticed(k, via) ==
  /\ pc = "building" /\ Top.kind = "map" /\ Top.st = "midKey"
  /\ via \in Routes \ {"entry"}
  /\ k \in Range(Top.ks)
  /\ rejects < MaxRejects
  /\ stack' = SetTop([Top EXCEPT !.st = "expectValueDup", !.pk = k])
  /\ UNCHANGED <<pc, cur, results, nodes, rejects, resets>>
  /\ Log(IF via = "keyvalue" THEN "KeyAssignString" ELSE "KeyAssignNode", 0, k, Nil, "", "ok")

AssembleValueDup ==
  /\ pc = "building" /\ Top.kind = "map" /\ Top.st = "expectValueDup"
  /\ stack' = SetTop([Top EXCEPT !.st = "midValueDup"])
  /\ UNCHANGED <<pc, cur, results, nodes, rejects, resets>>
  /\ Log("AssembleValue", 0, <<>>, Nil, "", "ok")

\* whatever is done with the assembler that was handed out: refused, and nothing of the entry remains
RefusedDup(a, v, impl) ==
  /\ pc = "building" /\ Top.kind = "map" /\ Top.st = "midValueDup"
  /\ stack' = SetTop([Top EXCEPT !.st = "initial", !.pk = <<>>])
  /\ rejects' = rejects + 1
  /\ UNCHANGED <<pc, cur, results, nodes, resets>>
  /\ Log(a, 0, <<>>, v, impl, "repeated_key")

DeferredDupNext ==
  \/ \E k \in Keys, via \in {"keyvalue", "keynode"} : KeyAssignDupUnnoticed(k, via)
  \/ AssembleValueDup
  \/ \E s \in Scalars : RefusedDup("AssignScalar", s, "")
  \/ \E p \in Prebuilt : RefusedDup("AssignNode", p.v, p.impl)
  \/ \E kind \in RecursiveKinds : RefusedDup(IF kind = "map" THEN "BeginMap" ELSE "BeginList", Nil, "")

(* key assembler: a non-string kind -- rejected by that call; nothing further is pinned down *)
KeyWrongKind(s) ==
  /\ pc = "building" /\ Top.kind = "map" /\ Top.st = "midKey"
  /\ s.k # "string"
  /\ rejects < MaxRejects
  /\ pc' = "dead"
  /\ rejects' = rejects + 1
  /\ UNCHANGED <<stack, cur, results, nodes, resets>>
  /\ Log("KeyAssignScalar", 0, <<>>, s, "", "wrong_kind")

(* MapAssembler.AssembleValue *)
AssembleValue ==
  /\ pc = "building" /\ Top.kind = "map" /\ Top.st = "expectValue"
  /\ stack' = SetTop([Top EXCEPT !.st = "midValue"])
  /\ UNCHANGED <<pc, cur, results, nodes, rejects, resets>>
  /\ Log("AssembleValue", 0, <<>>, Nil, "", "ok")

(* MapAssembler.AssembleEntry(k) -- accepted *)
AssembleEntry(k) ==
  /\ pc = "building" /\ Top.kind = "map" /\ Top.st = "initial"
  /\ "entry" \in Routes
  /\ nodes < MaxNodes
  /\ k \notin Range(Top.ks)
  /\ stack' = SetTop([Top EXCEPT !.st = "midValue", !.pk = k])
  /\ UNCHANGED <<pc, cur, results, nodes, rejects, resets>>
  /\ Log("AssembleEntry", 0, k, Nil, "", "ok")

(* MapAssembler.AssembleEntry(k) -- repeated key: error, no effect at all *)
EntryRejectDup(k) ==
  /\ pc = "building" /\ Top.kind = "map" /\ Top.st = "initial"
  /\ "entry" \in Routes
  /\ k \in Range(Top.ks)
  /\ rejects < MaxRejects
  /\ rejects' = rejects + 1
  /\ UNCHANGED <<stack, pc, cur, results, nodes, resets>>
  /\ Log("AssembleEntry", 0, k, Nil, "", "repeated_key")

(* ListAssembler.AssembleValue *)
ListAssembleValue ==
  /\ pc = "building" /\ Top.kind = "list" /\ Top.st = "initial"
  /\ nodes < MaxNodes
  /\ stack' = SetTop([Top EXCEPT !.st = "midValue"])
  /\ UNCHANGED <<pc, cur, results, nodes, rejects, resets>>
  /\ Log("ListAssembleValue", 0, <<>>, Nil, "", "ok")

(* NodeAssembler.Assign<Kind>(scalar) at a value position *)
AssignScalar(s) ==
  /\ ValuePos /\ TopAccepts(s.k)
  /\ nodes < MaxNodes
  /\ Apply(Deliver(stack, s))
  /\ nodes' = nodes + 1
  /\ UNCHANGED <<results, rejects, resets>>
  /\ Log("AssignScalar", 0, <<>>, s, "", "ok")

(* NodeAssembler.AssignNode(finished node of some implementation) at a value position *)
AssignNode(p) ==
  /\ ValuePos /\ TopAccepts(p.v.k)
  /\ nodes + Size(p.v) <= MaxNodes
  /\ Apply(Deliver(stack, p.v))
  /\ nodes' = nodes + Size(p.v)
  /\ UNCHANGED <<results, rejects, resets>>
  /\ Log("AssignNode", 0, <<>>, p.v, p.impl, "ok")

(* a kind the top-level builder cannot hold: error from that call *)
TopWrongKindScalar(s) ==
  /\ pc = "open" /\ ~TopAccepts(s.k)
  /\ rejects < MaxRejects
  /\ pc' = "dead" /\ rejects' = rejects + 1
  /\ UNCHANGED <<stack, cur, results, nodes, resets>>
  /\ Log("AssignScalar", 0, <<>>, s, "", "wrong_kind")

TopWrongKindBegin(kind) ==
  /\ pc = "open" /\ ~TopAccepts(kind)
  /\ rejects < MaxRejects
  /\ pc' = "dead" /\ rejects' = rejects + 1
  /\ UNCHANGED <<stack, cur, results, nodes, resets>>
  /\ Log(IF kind = "map" THEN "BeginMap" ELSE "BeginList", 0, <<>>, Nil, "", "wrong_kind")

TopWrongKindNode(p) ==
  /\ pc = "open" /\ ~TopAccepts(p.v.k)
  /\ rejects < MaxRejects
  /\ pc' = "dead" /\ rejects' = rejects + 1
  /\ UNCHANGED <<stack, cur, results, nodes, resets>>
  /\ Log("AssignNode", 0, <<>>, p.v, p.impl, "wrong_kind")

(* MapAssembler.Finish / ListAssembler.Finish *)
Finish ==
  /\ pc = "building" /\ Top.st = "initial"
  /\ LET f == Top
         v == IF f.kind = "map" THEN MapV(f.ks, f.vs) ELSE ListV(f.vs)
     IN Apply(Deliver(SubSeq(stack, 1, Len(stack) - 1), v))
  /\ UNCHANGED <<results, nodes, rejects, resets>>
  /\ Log("Finish", 0, <<>>, Nil, "", "ok")

(* NodeBuilder.Build *)
Build ==
  /\ pc = "finished"
  /\ pc' = "built" /\ results' = Append(results, cur)
  /\ UNCHANGED <<stack, cur, nodes, rejects, resets>>
  /\ Log("Build", 0, <<>>, cur, "", "ok")

(* NodeBuilder.Reset: the builder is as new; nodes already returned are unaffected *)
Reset ==
  /\ pc = "built" /\ resets < MaxResets /\ nodes < MaxNodes
  /\ pc' = "open" /\ cur' = Nil /\ stack' = <<>> /\ resets' = resets + 1
  /\ UNCHANGED <<results, nodes, rejects>>
  /\ Log("Reset", 0, <<>>, Nil, "", "ok")

Next ==
  \/ \E kind \in RecursiveKinds, h \in Hints : Begin(kind, h)
  \/ AssembleKey \/ AssembleValue \/ ListAssembleValue \/ Finish \/ Build \/ Reset
  \/ \E k \in Keys, via \in {"keyvalue", "keynode"} : KeyAssign(k, via) \/ KeyRejectDup(k, via)
  \/ \E k \in Keys : AssembleEntry(k) \/ EntryRejectDup(k)
  \/ \E s \in Scalars : AssignScalar(s) \/ KeyWrongKind(s) \/ TopWrongKindScalar(s)
  \/ \E p \in Prebuilt : AssignNode(p) \/ TopWrongKindNode(p)
  \/ \E kind \in RecursiveKinds : TopWrongKindBegin(kind)

Spec == Init /\ [][Next]_vars

------------------------------------------------------------------------------
(* Properties *)

FrameOK(f) ==
  /\ f.kind \in RecursiveKinds
  /\ f.st \in {"initial", "midKey", "expectValue", "midValue", "expectValueDup", "midValueDup"}
  /\ f.kind = "list" => f.st \in {"initial", "midValue"} /\ f.ks = <<>>
  /\ f.kind = "map" => Len(f.ks) = Len(f.vs)
  /\ \A i \in DOMAIN f.vs : WellFormed(f.vs[i])

TypeOK ==
  /\ pc \in {"open", "building", "finished", "built", "dead"}
  /\ \A i \in DOMAIN stack : FrameOK(stack[i])
  /\ (pc = "building") <=> (stack # <<>> /\ pc # "dead")
  /\ \A i \in 1..(Len(stack) - 1) : stack[i].st = "midValue"   \* only the innermost is active

\* C12: no container under construction and no returned node ever holds a key twice
NoDuplicateKeys ==
  /\ \A i \in DOMAIN stack : NoDup(stack[i].ks)
  /\ \A i \in DOMAIN results : WellFormed(results[i])
  /\ cur # Nil => WellFormed(cur)

\* C01: every read form of every returned value agrees with every other
ReadFormsAgree == \A i \in DOMAIN results : ObsAgree(results[i], Keys)

\* Independent formulation of "the result is exactly what was accepted, in order":
\* replay only the ACCEPTED calls of the history through a tiny denotational parser.
Accepted == SelectSeq(hist, LAMBDA e : e.r = "ok")

RECURSIVE ParseValue(_, _)       \* returns [v: Value, rest: remaining calls]
RECURSIVE ParseMapBody(_, _, _)
RECURSIVE ParseListBody(_, _)
ParseValue(cs, dummy) ==
  LET c == cs[1] IN
  IF c.a \in {"AssignScalar", "AssignNode"} THEN [v |-> c.v, rest |-> Tail(cs)]
  ELSE IF c.a = "BeginMap" THEN ParseMapBody(Tail(cs), <<>>, <<>>)
  ELSE ParseListBody(Tail(cs), <<>>)
ParseMapBody(cs, ks, vs) ==
  LET c == cs[1] IN
  IF c.a = "Finish" THEN [v |-> MapV(ks, vs), rest |-> Tail(cs)]
  ELSE IF c.a = "AssembleEntry"
    THEN LET r == ParseValue(Tail(cs), 0) IN ParseMapBody(r.rest, Append(ks, c.key), Append(vs, r.v))
  ELSE \* AssembleKey, KeyAssign*, AssembleValue, value
    LET r == ParseValue(SubSeq(cs, 4, Len(cs)), 0)
    IN ParseMapBody(r.rest, Append(ks, cs[2].key), Append(vs, r.v))
ParseListBody(cs, vs) ==
  LET c == cs[1] IN
  IF c.a = "Finish" THEN [v |-> ListV(vs), rest |-> Tail(cs)]
  ELSE LET r == ParseValue(Tail(cs), 0) IN ParseListBody(r.rest, Append(vs, r.v))

\* an AssembleKey whose key was then rejected contributes nothing: drop it before parsing
RECURSIVE DropRejectedKeys(_)
DropRejectedKeys(h) ==
  IF h = <<>> THEN <<>>
  ELSE IF h[1].a = "AssembleKey" /\ Len(h) >= 2 /\ h[2].r # "ok"
    THEN DropRejectedKeys(SubSeq(h, 3, Len(h)))
  ELSE IF h[1].a = "AssembleKey" /\ Len(h) >= 4 /\ h[4].r = "repeated_key"      \* refused late (DeferredDupNext)
    THEN DropRejectedKeys(SubSeq(h, 5, Len(h)))
  ELSE IF h[1].r # "ok" THEN DropRejectedKeys(Tail(h))
  ELSE <<h[1]>> \o DropRejectedKeys(Tail(h))

\* the calls since the last Reset (or since the start)
RECURSIVE SinceReset(_)
SinceReset(h) ==
  IF \E i \in DOMAIN h : h[i].a = "Reset"
    THEN LET i == CHOOSE i \in DOMAIN h : h[i].a = "Reset" /\ \A j \in DOMAIN h : h[j].a = "Reset" => j <= i
         IN SubSeq(h, i + 1, Len(h))
    ELSE h

BuiltIsFoldOfAccepted ==
  pc = "built" =>
    LET cs == DropRejectedKeys(SinceReset(hist))
        r  == ParseValue(cs, 0)
    IN r.v = results[Len(results)] /\ r.rest = <<[a |-> "Build", x |-> 0, key |-> <<>>,
                                                  v |-> cur, impl |-> "", r |-> "ok"]>>

\* C12: a rejected key leaves no visible side effect, the assembler is ready for the next key
RejectIsNoop ==
  [][ret' = "repeated_key" =>
        /\ Len(stack') = Len(stack)
        /\ stack'[Len(stack')].st = "initial"
        /\ stack'[Len(stack')].ks = Top.ks /\ stack'[Len(stack')].vs = Top.vs
        /\ \A i \in 1..(Len(stack) - 1) : stack'[i] = stack[i]
        /\ cur' = cur /\ results' = results]_vars

\* C11 (builder side): nothing ever changes a value already returned by Build
FinishedNeverChanges ==
  [][\A i \in DOMAIN results : results'[i] = results[i]]_vars

------------------------------------------------------------------------------
(* Emission of behaviours for replay: one JSON line per complete behaviour. *)
Complete == pc \in {"built", "dead"}

\* The closure front ends (packages fluent and fluent/qp) drive this same machine -- their callbacks regroup exactly
\* these calls -- with one difference in what the CALLER sees: the first refused call aborts the whole build, which
\* returns that call's error and no node.  AbortsAt is the index of that call in a history (0: none).
AbortsAt(h) == IF \E i \in DOMAIN h : h[i].r # "ok"
                 THEN CHOOSE i \in DOMAIN h : h[i].r # "ok" /\ \A j \in 1..(i - 1) : h[j].r = "ok"
                 ELSE 0
=============================================================================
