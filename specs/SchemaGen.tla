------------------------------ MODULE SchemaGen ------------------------------
(***************************************************************************)
(* Bounded instance of Schema.tla: a catalogue of type systems (every      *)
(* representation strategy, nested in others, every optional / nullable /  *)
(* both combination), all inhabitants up to the value bound, and every     *)
(* local mutation of the trees fed to type-level and representation-level  *)
(* builders, with the verdict and the typed value the specification        *)
(* prescribes.  One case per initial state.                                *)
(***************************************************************************)
EXTENDS SchemaCat, Json

CONSTANTS SMode, Shard, NShards, MutEvery

VARIABLE sc
svars == <<sc>>

\* SMode "file-conforming" / "file-mutants": the types are not the catalogue's but random ones written by the Go side
\* (vh schema-gen), as JSON records of the shape of the type records of Schema.tla; everything else is the same.
FromFile == SMode \in {"file-conforming", "file-mutants"}
FileTypes == LET raw == ndJsonDeserialize("trace.ndjson") IN [i \in DOMAIN raw |-> raw[i].ty]
TypesSel == IF FromFile THEN FileTypes ELSE Types
MyTypes == {ti \in DOMAIN TypesSel : ti % NShards = Shard}

\* (operators with a dummy parameter: TLC evaluates zero-arity constant definitions eagerly at start-up)
Conforming(dummy) ==
  UNION {{[ti |-> ti, level |-> "both", input |-> Feed(TypesSel[ti], tv), tv |-> tv]
            : tv \in {x \in Inh(TypesSel[ti]) : ~FromFile \/ VWeight(x) % MutEvery = 0}} : ti \in MyTypes}

\* the inhabitants whose mutations are enumerated: every MutEvery-th one (by a weight), ALL of them for a type that has few
\* (an enum, a scalar-like union: sampling would leave such types without any mutant)
SampledInh(T) == LET all == Inh(T) IN IF Cardinality(all) <= 8 THEN all ELSE {x \in all : VWeight(x) % MutEvery = 0}

Mutants(dummy) ==
  UNION {UNION {
     {[ti |-> ti, level |-> "type", input |-> m, tv |-> tv] : m \in Mut(Feed(TypesSel[ti], tv))}
     \cup {[ti |-> ti, level |-> "repr", input |-> m, tv |-> tv] : m \in Mut(ReprOf(TypesSel[ti], tv))}
       : tv \in SampledInh(TypesSel[ti])} : ti \in MyTypes}

Init == sc \in (IF SMode \in {"conforming", "file-conforming"} THEN Conforming(0) ELSE Mutants(0))
Next == UNCHANGED sc
Spec == Init /\ [][Next]_svars

T0 == TypesSel[sc.ti]

\* B3: the three mappings agree with each other on every inhabitant
ReprRoundTrips == sc.level = "both" => FromRepr(T0, ReprOf(T0, sc.tv)) = Res(TRUE, sc.tv)
FeedRoundTrips == sc.level = "both" => FromType(T0, Feed(T0, sc.tv)) = Res(TRUE, sc.tv)
\* The stringjoin representation is not injective when a field value contains the delimiter (the type-level builder
\* accepts the value, its representation reads back as something else): such typed values are outside the round-trip
\* equations, by construction of the strategy.
ContainsSeq(s, d) == \E i \in 1..(Len(s) - Len(d) + 1) : SubSeq(s, i, i + Len(d) - 1) = d
RECURSIVE Ambiguous(_, _)
Ambiguous(T, tv) ==
  IF tv = NullV \/ tv = AbsentV THEN FALSE
  ELSE CASE T.k = "struct" ->
              \/ T.repr.r = "stringjoin" /\ \E i \in DOMAIN T.fs : ContainsSeq(ReprOf(T.fs[i].ty, tv.vs[i]).a, T.repr.d)
              \/ \E i \in DOMAIN T.fs : Ambiguous(T.fs[i].ty, tv.vs[i])
         [] T.k = "list" -> \E i \in DOMAIN tv.vs : Ambiguous(T.el, tv.vs[i])
         [] T.k = "map" -> \E i \in DOMAIN tv.vs : Ambiguous(T.val, tv.vs[i])
         [] T.k = "union" -> Ambiguous(T.ms[IndexOf([j \in DOMAIN T.ms |-> T.ms[j].n], tv.ks[1])], tv.vs[1])
         [] OTHER -> FALSE

\* a mutant that is accepted denotes an inhabitant whose own views are consistent
AcceptedMutantsAreInhabitants ==
  sc.level \in {"type", "repr"} =>
    LET r == IF sc.level = "type" THEN FromType(T0, sc.input) ELSE FromRepr(T0, sc.input)
    IN (r.ok /\ ~Ambiguous(T0, r.v)) =>
          (FromRepr(T0, ReprOf(T0, r.v)) = Res(TRUE, r.v) /\ FromType(T0, Feed(T0, r.v)) = Res(TRUE, r.v))

Emit ==
  LET r == IF sc.level = "repr" THEN FromRepr(T0, sc.input) ELSE FromType(T0, sc.input)
  IN PrintT(ToJson([ty |-> T0, level |-> sc.level, input |-> sc.input, ok |-> r.ok, why |-> r.w,
                    tv |-> r.v, repr |-> IF r.ok THEN ReprOf(T0, r.v) ELSE Nil]))
=============================================================================
