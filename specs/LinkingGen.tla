----------------------------- MODULE LinkingGen -----------------------------
(* Bounded instance of Linking.tla + emission of the fault scenarios for replay (C06). *)
EXTENDS Linking, Json

GenPayloads == { <<>>, <<1>>, <<1, 2>>, <<2, 1, 3>> }
GenProtos == {1}
GenChunks == {1, 2, 100}
GenFaults ==
  {[kind |-> "flip", off |-> o, b |-> <<>>] : o \in 1..4}
  \cup {[kind |-> "trunc", off |-> o, b |-> <<>>] : o \in 0..3}
  \cup {[kind |-> "extend", off |-> 0, b |-> x] : x \in {<<0>>, <<1, 1>>}}
  \cup {[kind |-> "subst", off |-> 0, b |-> x] : x \in {<<0>>, <<1, 3>>, <<9>>, <<>>}}
  \cup {[kind |-> "readerr", off |-> o, b |-> <<>>] : o \in 0..4}
  \cup {[kind |-> "openerr", off |-> 0, b |-> <<>>]}

\* one scenario per terminal state: which operation, which fault kind at which RELATIVE position,
\* which chunking, what the decoder's view was, and the result class the specification prescribes
Where(f, B) ==
  IF f.kind \in {"flip", "readerr"} THEN
       (IF f.off <= 1 THEN "first" ELSE IF f.off >= Len(B) THEN "last" ELSE "middle")
  ELSE IF f.kind = "trunc" THEN (IF f.off = 0 THEN "empty" ELSE IF f.off = Len(B) - 1 THEN "last" ELSE "middle")
  ELSE "na"

Emit == Done => PrintT(ToJson([op |-> op, kind |-> fault.kind, where |-> Where(fault, stored),
                               chunk |-> chunk, dec |-> dec, ioerr |-> ioerr, r |-> ret.r,
                               stored |-> stored, delivered |-> D]))
=============================================================================
