--------------------------- MODULE ConcurrencyGen ---------------------------
EXTENDS Concurrency, Json
CONSTANT WithGen      \* TRUE: the mixes that involve a node / prototype of freshly generated code (run by the generated runner)
BaseOps == {"read-basic", "read-bind", "read-bind-repr", "deep-equal", "copy", "encode-cbor", "encode-json", "walk", "load",
           "loadraw", "build-basic", "build-bind", "wrap-explicit", "proto-inferred", "struct-lookup", "ts-clone", "ts-merge",
           "bind-plain", "bind-converter", "focus-get", "transform", "compile-selector", "load-fs", "infer-first"}
GenOps == {"read-gen", "read-gen-repr", "encode-gen", "copy-gen", "build-gen"}
AllOps == IF WithGen THEN BaseOps \cup GenOps ELSE BaseOps
\* one line per operation mix (the initial states); with WithGen only the mixes that have a generated-code operation
HasGen == \E g \in 1..NG : \E i \in 1..OpsPer : plan[g][i] \in GenOps
Emit == (pc = [g \in 1..NG |-> 1] /\ active = [g \in 1..NG |-> FALSE] /\ (WithGen => HasGen)) => PrintT(ToJson([mix |-> plan]))
=============================================================================
