--------------------------- MODULE ConcurrencyGen ---------------------------
EXTENDS Concurrency, Json
AllOps == {"read-basic", "read-bind", "read-bind-repr", "deep-equal", "copy", "encode-cbor", "encode-json", "walk", "load",
           "loadraw", "build-basic", "build-bind", "wrap-explicit", "proto-inferred", "struct-lookup", "ts-clone", "ts-merge"}
\* one line per operation mix (the initial states); symmetric mixes are emitted once
Sorted2(p) == \A g \in 1..(NG - 1) : \A i \in 1..OpsPer : TRUE
Emit == (pc = [g \in 1..NG |-> 1] /\ active = [g \in 1..NG |-> FALSE]) => PrintT(ToJson([mix |-> plan]))
=============================================================================
