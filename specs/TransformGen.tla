---------------------------- MODULE TransformGen ----------------------------
(* Bounded instances for C16: focused transforms at every kind of target path, sequences of two   *)
(* transforms, and walking transforms over the C15 selector set.                                   *)
EXTENDS Transform, TraversalGenBase, Json

CONSTANTS TMode

VARIABLE tc
tvars == <<tc>>

NewV == MapV(<<a>>, <<I(9)>>)        \* the replacement value
Ops == {[t |-> "id", v |-> Nil], [t |-> "repl", v |-> NewV], [t |-> "repl", v |-> S(<<110, 101, 119>>)], [t |-> "rm", v |-> Nil]}

\* target paths: every existing path, plus new keys, appends, out-of-range, through scalars, missing parents
Targets(g) ==
  LET ex == PathsOf(g, g[1], 3) IN
  ex \cup {p \o <<z>> : p \in {q \in ex : Len(q) <= 2}, z \in {<<122>>, DASH, <<57>>, <<120, 121>>}}
     \cup {p \o <<<<122>>, <<121>>>> : p \in {q \in ex : Len(q) <= 1}}

\* In scope (C16): identity / removal of something that is there; replacement by a value acceptable at the
\* position (the root can only be replaced by a value of its own kind: the result is built with the root's prototype)
InScope(g, p, op) ==
  LET E == Expand(g, g[1]) IN
  /\ op.t \in {"id", "rm"} => At(E, p) # Nil
  /\ op.t = "rm" => p # <<>>
  /\ (op.t = "repl" /\ p = <<>>) => op.v.k = g[1].k

FocusCases(dummy) ==
  UNION {{[kind |-> "focus", gi |-> gi, path |-> p, op |-> op, cp |-> cp, path2 |-> <<>>, op2 |-> op]
            : p \in {x \in Targets(Graphs[gi]) : \E o \in Ops : InScope(Graphs[gi], x, o)},
              op \in Ops, cp \in BOOLEAN} : gi \in DOMAIN Graphs}
  \ {x \in UNION {{[kind |-> "focus", gi |-> gi, path |-> p, op |-> op, cp |-> cp, path2 |-> <<>>, op2 |-> op]
            : p \in Targets(Graphs[gi]), op \in Ops, cp \in BOOLEAN} : gi \in DOMAIN Graphs}
        : ~InScope(Graphs[x.gi], x.path, x.op)}

\* two transforms one after another (the second applied to the result of the first, at a position that exists there)
SeqCases(dummy) ==
  {x \in UNION {{[kind |-> "focus2", gi |-> gi, path |-> p, op |-> [t |-> "repl", v |-> NewV], cp |-> TRUE, path2 |-> q, op2 |-> op2]
            : p \in {x \in Targets(Graphs[gi]) : Len(x) <= 2 /\ x # <<>>}, q \in {x \in PathsOf(Graphs[gi], Graphs[gi][1], 2) : Len(x) >= 1},
              op2 \in {[t |-> "rm", v |-> Nil], [t |-> "repl", v |-> I(5)]}} : gi \in {1, 2, 3}}
     : LET g == Graphs[x.gi]  r == Upd(Expand(g, g[1]), x.path, x.op, TRUE)
       IN r.ok /\ At(r.v, x.path2) # Nil}

WalkSels(g) == CtlSels(g) \cup {SMatch, SAll(SMatch), SFields(<<b, a>>, <<SMatch, SAll(SMatch)>>),
                                SRec(-1, -1, SUnion(<<SMatch, SAll(SEdge)>>)), SIndex(1, SMatch), SRange(0, 2, SAll(SMatch))}
WalkCases(dummy) ==
  UNION {{[kind |-> "walk", gi |-> gi, path |-> <<>>, op |-> [t |-> "id", v |-> Nil], cp |-> FALSE, path2 |-> <<>>,
           op2 |-> [t |-> "id", v |-> Nil], sel |-> s] : s \in WalkSels(Graphs[gi])} : gi \in DOMAIN Graphs}

\* thorough tier: two-step sequences on every graph; walking transforms over a hashed sample of ALL depth-2 selectors
SeqCasesAll(dummy) ==
  {x \in UNION {{[kind |-> "focus2", gi |-> gi, path |-> p, op |-> op1, cp |-> TRUE, path2 |-> q, op2 |-> op2]
            : p \in {x \in Targets(Graphs[gi]) : Len(x) <= 2 /\ x # <<>>}, q \in {x \in PathsOf(Graphs[gi], Graphs[gi][1], 2) : Len(x) >= 1},
              op1 \in {[t |-> "repl", v |-> NewV], [t |-> "rm", v |-> Nil]},
              op2 \in {[t |-> "rm", v |-> Nil], [t |-> "repl", v |-> I(5)], [t |-> "id", v |-> Nil]}} : gi \in DOMAIN Graphs}
     : LET g == Graphs[x.gi]  r == Upd(Expand(g, g[1]), x.path, x.op, TRUE)
       IN InScope(g, x.path, x.op) /\ r.ok /\ r.v # Nil /\ At(r.v, x.path2) # Nil}
WalkCases2(dummy) ==
  UNION {{[kind |-> "walk", gi |-> gi, path |-> <<>>, op |-> [t |-> "id", v |-> Nil], cp |-> FALSE, path2 |-> <<>>,
           op2 |-> [t |-> "id", v |-> Nil], sel |-> s]
            : s \in {x \in Closed(2, Graphs[gi]) : SelWeight(x) % 13 = Sample /\ Compiles(x, FALSE)}} : gi \in DOMAIN Graphs}

\* TMode "walkfile": walking transforms over the random (graph, selector) cases written by vh walk-gen (those that compile
\* and carry no traversal control)
WalkFileCases(dummy) ==
  LET raw == ndJsonDeserialize("trace.ndjson")
      plain(cf) == cf.nb = -1 /\ cf.lb = -1 /\ cf.start = <<>> /\ ~cf.once /\ \A j \in DOMAIN cf.skip : ~cf.skip[j]
  IN {[kind |-> "walk", gi |-> 0, g |-> raw[i].g, path |-> <<>>, op |-> [t |-> "id", v |-> Nil], cp |-> FALSE, path2 |-> <<>>,
       op2 |-> [t |-> "id", v |-> Nil], sel |-> raw[i].sel]
        : i \in {j \in DOMAIN raw : plain(raw[j].cfg) /\ Compiles(raw[j].sel, FALSE) /\ ~HasAs(raw[j].sel)}}
\* (selectors that interpret nodes through an ADL are left out: the walking transform rebuilds the tree from the REIFIED
\* nodes, so its result is a view, not an update of the original -- not what C16 speaks about)
GraphOf(t) == IF t.gi = 0 THEN t.g ELSE Graphs[t.gi]

Init == tc \in (CASE TMode = "walkfile" -> WalkFileCases(0) [] TMode = "focus" -> FocusCases(0) [] TMode = "focus2" -> SeqCases(0) [] TMode = "focus2all" -> SeqCasesAll(0)
                   [] TMode = "walk2" -> WalkCases2(0) [] OTHER -> WalkCases(0))
Next == UNCHANGED tc
Spec == Init /\ [][Next]_tvars

E0 == Expand(GraphOf(tc), GraphOf(tc)[1])
R1 == Upd(E0, tc.path, tc.op, tc.cp)
R2 == IF tc.kind = "focus2" /\ R1.ok /\ R1.v # Nil THEN Upd(R1.v, tc.path2, tc.op2, TRUE) ELSE R1

\* B3: identity is identity; an update changes exactly the target; updates do not disturb other positions
IdentityIsIdentity == (tc.kind = "focus" /\ tc.op.t = "id" /\ R1.ok) => R1.v = E0
ReplaceLandsAtTarget ==
  (tc.kind = "focus" /\ tc.op.t = "repl" /\ R1.ok /\ (tc.path = <<>> \/ tc.path[Len(tc.path)] # DASH))
     => At(R1.v, tc.path) = tc.op.v
Deref(n) == IF n.k = "link" THEN n.vs[1] ELSE n
RemoveRemoves ==
  (tc.kind = "focus" /\ tc.op.t = "rm" /\ R1.ok /\ tc.path # <<>>) =>
     LET pp == SubSeq(tc.path, 1, Len(tc.path) - 1)
         before == Deref(At(E0, pp))   after == Deref(At(R1.v, pp))
     IN /\ Len(after.vs) = Len(before.vs) - 1
        /\ before.k = "map" => At(R1.v, tc.path) = Nil
Emit == PrintT(ToJson(
   IF tc.kind = "walk"
     THEN [kind |-> "walk", g |-> GraphOf(tc), sel |-> tc.sel, path |-> <<>>, op |-> tc.op, cp |-> FALSE,
           path2 |-> <<>>, op2 |-> tc.op2, ok |-> TRUE, result |-> WT(E0, tc.sel), result2 |-> WT2(E0, tc.sel), seen |-> Nil]
     ELSE [kind |-> tc.kind, g |-> Graphs[tc.gi], sel |-> SMatch, path |-> tc.path, op |-> tc.op, cp |-> tc.cp,
           path2 |-> tc.path2, op2 |-> tc.op2, ok |-> R2.ok, result |-> IF R2.ok THEN R2.v ELSE Nil,
           seen |-> At(E0, tc.path)]))
=============================================================================
