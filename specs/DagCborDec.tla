----------------------------- MODULE DagCborDec -----------------------------
(***************************************************************************)
(* C03 / C10 instance of the strict decoder machine of DagCbor.tla.        *)
(*                                                                         *)
(* Mode "explore": the environment feeds the machine a scripted prefix     *)
(* (one of Seeds) and then up to Free further bytes chosen from Alphabet   *)
(* -- every short string over the alphabet is one path of the state graph  *)
(* (rejecting states are absorbing but still extended).  Mode "mutants": every initial *)
(* state is one mutant (bit flip, truncation, extension, substitution) of  *)
(* the canonical encoding of a value of the bounded domain, run to its     *)
(* verdict.  Every state whose scripted input is exhausted is an input the *)
(* real decoder is then given, with the verdict the specification reaches. *)
(***************************************************************************)
EXTENDS DagCbor, CborValues, Json

CONSTANTS Mode, Free, AlphabetName, SeedSet, Shard, NShards

VARIABLES m, consumed, rest, free
vars == <<m, consumed, rest, free>>

\* one representative per (major type x additional-information class) plus payload bytes
AlphaFull ==
  { 0, 1, 23, 24, 25, 26, 27, 28, 31,          \* uint: immediates, 1/2/4/8-byte heads, reserved, indefinite
    32, 55, 56, 57, 59,                        \* negint
    64, 65, 66, 88, 95,                        \* bytes: len 0,1,2, 1-byte head, indefinite
    96, 97, 98, 120, 127,                      \* text
    128, 129, 130, 152, 159,                   \* array
    160, 161, 162, 184, 191,                   \* map
    192, 216, 217,                             \* tags: 0, 1-byte tag head, 2-byte tag head
    224, 244, 245, 246, 247, 248, 249, 250, 251, 255,   \* simple 0, false, true, null, undefined, simple8, f16, f32, f64, break
    42, 124, 126, 254 }                        \* payloads: 0x2a (tag 42), f16 inf / nan high bytes, 0xfe
AlphaSmall ==
  { 0, 1, 24, 25, 32, 56, 64, 65, 88, 96, 97, 120, 128, 129, 130, 159, 160, 161, 162, 216, 42,
    244, 246, 247, 249, 251, 124, 255 }
Alphabet == IF AlphabetName = "full" THEN AlphaFull ELSE AlphaSmall

\* scripted prefixes that lead the free bytes into interesting territory
SeedsBasic == { <<>> }
SeedsDeep == {
  <<>>,
  <<216, 42>>,                          \* tag 42, then anything
  <<216, 42, 69, 0, 1, 113>>,           \* tag 42, 5 bytes: 00 01 71 + two free bytes (mh code, mh len)
  <<216, 42, 88, 37, 0, 1, 113, 18, 32>> \o Fill(30, 3),   \* 37-byte link payload, last 2 digest bytes free
  <<162, 97, 97>>,                      \* map(2) "a": ...
  <<162, 97, 98, 1>>,                   \* map(2) "b":1, next key free (sorted / unsorted / duplicate)
  <<162, 98, 97, 97, 1>>,               \* map(2) "aa":1, next key free (shorter key after longer)
  <<130, 129>>,                         \* nested arrays
  <<161, 216, 42>>,                     \* tagged map key
  \* a well-formed link payload (CIDv1, raw, identity, empty digest) under tags that are 42 only modulo 256 / 65536,
  \* under a non-minimal head for 42, and under a neighbour of 42
  <<217, 1, 42, 69, 0, 1, 85, 0, 0>>, <<217, 2, 42, 69, 0, 1, 85, 0, 0>>, <<218, 0, 1, 0, 42, 69, 0, 1, 85, 0, 0>>,
  <<217, 0, 42, 69, 0, 1, 85, 0, 0>>, <<216, 43, 69, 0, 1, 85, 0, 0>>, <<216, 42, 69, 0, 1, 85, 0, 0>>,
  <<129, 217, 1, 42, 69, 0, 1, 85, 0, 0>>, <<161, 97, 97, 217, 255, 42, 69, 0, 1, 85, 0, 0>>,
  <<27, 0, 0, 0, 0>>, <<59, 255, 255, 255, 255, 255, 255>>,   \* 8-byte heads with free tails
  <<251, 127, 240, 0, 0, 0, 0>>, <<251, 127, 248, 0, 0, 0, 0>>, <<250, 127, 128, 0>>, <<250, 255, 192, 0>>,
  <<249>>, <<250, 63, 128, 0>>,
  <<120>>, <<88>>, <<152>>, <<184>>,    \* 1-byte length heads
  <<121, 0>>, <<122, 0, 0, 0>>, <<123, 0, 0, 0, 0, 0, 0, 0>>   \* wider length heads, last byte free
}
Seeds == IF SeedSet = "basic" THEN SeedsBasic ELSE SeedsDeep

------------------------------------------------------------------------------
(* byte-level mutation operators over the canonical encodings of the bounded domain *)
FlipBit(s, i, bit) == [s EXCEPT ![i] = IF (s[i] \div bit) % 2 = 1 THEN s[i] - bit ELSE s[i] + bit]
Bits == {1, 2, 4, 8, 16, 32, 64, 128}
SubstBytes == {0, 24, 31, 64, 96, 128, 160, 216, 246, 247, 255}
\* offsets: every offset of short encodings, the first 12 and the last 4 of long ones
Offsets(s) == {i \in 1..Len(s) : i <= 12 \/ i > Len(s) - 4}
MutantsOf(e) ==
  {FlipBit(e, i, b) : i \in Offsets(e), b \in Bits}
  \cup {[e EXCEPT ![i] = x] : i \in Offsets(e), x \in SubstBytes}
  \cup {SubSeq(e, 1, n) : n \in {k \in 0..(Len(e) - 1) : k <= 12 \/ k >= Len(e) - 4}}
  \cup {e \o <<x>> : x \in {0, 246, 255}}
  \cup {SubSeq(e, 1, i - 1) \o SubSeq(e, i + 1, Len(e)) : i \in Offsets(e)}        \* delete a byte
  \cup {SubSeq(e, 1, i) \o <<e[i]>> \o SubSeq(e, i + 1, Len(e)) : i \in Offsets(e)}  \* duplicate a byte
  \cup {e}

MutDomain(dummy) ==
  ScalarsFull \cup Lists(ScalarsSmall, 1) \cup Maps(KeysSmall, ScalarsTiny, 2)
  \cup Maps({<<97>>, <<98>>, <<97, 97>>}, {IntV(0, <<1>>), Scalar("link", <<1, 85, 0, 3, 97, 98, 99>>)}, 2)
  \cup {ListV(<<MapV(<<<<97>>>>, <<ListV(<<IntV(0, <<24>>)>>)>>)>>)}

RECURSIVE SumSeq(_)
SumSeq(s) == IF s = <<>> THEN 0 ELSE s[1] + SumSeq(Tail(s))

MutantInputs(dummy) == {x \in UNION {MutantsOf(Enc(v)) : v \in MutDomain(0)} : (SumSeq(x) + Len(x)) % NShards = Shard}

\* Mode "file": inputs written by the Go side (vh cbor-gen: random nested encodings and their mutations, beyond the
\* strings enumerated here); the specification only evaluates them.
FileInputs(dummy) == LET raw == ndJsonDeserialize("trace.ndjson") IN {raw[i].inp : i \in DOMAIN raw}

Init ==
  /\ m = M0 /\ consumed = <<>>
  /\ CASE Mode = "explore" -> rest \in Seeds /\ free = Free
       [] Mode = "file" -> rest \in FileInputs(0) /\ free = 0
       [] OTHER -> rest \in MutantInputs(0) /\ free = 0

Feed(b) == /\ m' = StepM(m, b)
           /\ consumed' = Append(consumed, b)

\* A rejecting machine state is absorbing (StepM), but the environment keeps feeding: a prefix the
\* real decoder refuses only because it is truncated must still be refused when it is extended.
Next ==
  /\ \/ rest # <<>> /\ Feed(rest[1]) /\ rest' = Tail(rest) /\ UNCHANGED free
     \/ rest = <<>> /\ free > 0 /\ \E b \in Alphabet : Feed(b) /\ free' = free - 1 /\ UNCHANGED rest

Spec == Init /\ [][Next]_vars

------------------------------------------------------------------------------
(* B3: what acceptance means *)

\* Whenever the machine accepts, the bytes it consumed are exactly the encoding of the value it built,
\* up to the documented tolerances: entry order and float width are kept by EncAsRead, and only
\* "undefined" (0xf7 for 0xf6) can make the bytes differ.
AcceptedDenotesBytes ==
  (m.mode = "done" /\ ~Relaxed /\ "undefined" \notin m.tol) => EncAsRead(m.out) = consumed

\* with no tolerance used the accepted bytes are THE canonical encoding
AcceptedCanonical ==
  (m.mode = "done" /\ ~Relaxed /\ m.tol = {}) => Enc(m.out) = consumed

AcceptedWellFormed ==
  m.mode = "done" => WellFormed(m.out) /\ Depth(m.out) <= MaxDepthCfg + 1

DepthBounded == Len(m.stk) <= MaxDepthCfg

\* every state whose scripted input is exhausted is one decoder input with its specified verdict
Emit == rest = <<>> => PrintT(ToJson([inp |-> consumed, verdict |-> Verdict(m)]))
=============================================================================
