----------------------------- MODULE DagJsonEnc -----------------------------
(* C04 instance: EncJ evaluated over a bounded value domain (valid UTF-8 strings and keys, int64,   *)
(* finite floats by class, bytes of every base64 padding class, every CID shape, nesting <= 3,      *)
(* values that contain the reserved shapes included to show that they are exactly the exclusion).  *)
EXTENDS DagJson, CborValues, Json

CONSTANTS Shard, NShards,
          Deep      \* TRUE (thorough tier): also every pair of scalars in a list and every two-entry map over the full key set
VARIABLE v
vars == <<v>>

Utf8Strs == { <<>>, <<97>>, <<0>>, <<34, 92>>, <<195, 169>>, <<226, 128, 168>>, <<240, 159, 152, 128>>, <<47>>,
              <<98, 121, 116, 101, 115>>, <<10, 9>>, Rep(24, 65) }
JStrings == {Scalar("string", b) : b \in Utf8Strs}
JBytes == {Scalar("bytes", b) : b \in {<<>>, <<1>>, <<1, 2>>, <<1, 2, 3>>, <<255, 254, 253, 252>>, Fill(24, 7)}}
JInts == {IntV(0, x) : x \in ArgBoundaries} \cup {IntV(1, x) : x \in ArgBoundaries}
\* floats by class: 1.5, -2.25, integral 3.0, 0.0, -0.0, 1e21, 1e20, 1e-6(ish), 1e-7, max, min subnormal, 2^53
JFloats == {Scalar("float", f) : f \in {
     <<63, 248, 0, 0, 0, 0, 0, 0>>, <<192, 2, 0, 0, 0, 0, 0, 0>>, <<64, 8, 0, 0, 0, 0, 0, 0>>,
     <<0, 0, 0, 0, 0, 0, 0, 0>>, <<128, 0, 0, 0, 0, 0, 0, 0>>,
     <<68, 75, 27, 173, 93, 226, 162, 176>>, <<68, 21, 175, 29, 120, 181, 140, 64>>,
     <<62, 176, 198, 247, 160, 181, 237, 141>>, <<62, 122, 215, 242, 155, 188, 175, 72>>,
     <<127, 239, 255, 255, 255, 255, 255, 255>>, <<0, 0, 0, 0, 0, 0, 0, 1>>, <<67, 64, 0, 0, 0, 0, 0, 0>> }}
JScalars == Simple \cup JInts \cup JFloats \cup JStrings \cup JBytes \cup LinksFull
JSmall == {NullV, IntV(0, <<1>>), Scalar("float", <<63, 248, 0, 0, 0, 0, 0, 0>>), Scalar("string", <<97>>),
           Scalar("bytes", <<1, 2>>), Scalar("link", <<1, 85, 0, 3, 97, 98, 99>>), Scalar("bool", <<1>>)}
JTiny == {IntV(0, <<1>>), Scalar("string", <<>>)}
JKeys == { <<>>, <<97>>, <<98>>, <<97, 97>>, <<97, 98>>, <<47>>, <<98, 121, 116, 101, 115>>, <<195, 169>>, <<122>>, <<0>>,
           <<226, 128, 168>>, <<97, 0>> }
JKeysSmall == { <<97>>, <<98>>, <<97, 97>>, <<47>> }

Mid == JTiny \cup Lists(JTiny, 1) \cup Maps({<<97>>, <<98, 98>>}, JTiny, 2)
JDomain ==
  JScalars \cup Lists(JScalars, 1) \cup Maps(JKeys, JSmall, 1) \cup Maps(JKeysSmall, JTiny, 3) \cup Lists(JSmall, 2)
  \cup Lists(Mid, 2) \cup Maps({<<98>>, <<97, 97>>, <<47>>}, Mid, 2) \cup Maps(JKeys, JTiny, 2)
  \cup {MapV(<<SLASH>>, <<MapV(<<BYTESKEY>>, <<x>>)>>) : x \in JSmall}      \* the second reserved shape and its neighbours
  \cup {MapV(<<SLASH, <<97>>>>, <<Scalar("string", <<97>>), IntV(0, <<1>>)>>)}  \* two entries: not reserved
  \* containers in the places where the reserved shapes hold scalars (the decoder's look-ahead has to hand them back)
  \cup {MapV(<<SLASH>>, <<MapV(<<BYTESKEY>>, <<x>>)>>) : x \in {ListV(<<IntV(0, <<1>>), IntV(0, <<2>>)>>), ListV(<<>>),
                                                                MapV(<<>>, <<>>), MapV(<<<<97>>>>, <<ListV(<<NullV>>)>>)}}
  \cup {MapV(<<SLASH>>, <<x>>) : x \in {ListV(<<Scalar("string", <<97>>)>>), ListV(<<>>), MapV(<<>>, <<>>),
                                       MapV(<<BYTESKEY, <<97>>>>, <<Scalar("string", <<>>), NullV>>),
                                       MapV(<<<<97>>>>, <<MapV(<<SLASH>>, <<IntV(0, <<1>>)>>)>>)}}
  \cup {ListV(<<MapV(<<SLASH>>, <<MapV(<<BYTESKEY>>, <<ListV(<<IntV(0, <<1>>)>>)>>)>>), IntV(0, <<2>>)>>)}

RECURSIVE Weight(_)
Weight(x) == Len(x.a) + Len(x.vs) * 3 +
             (LET F[i \in 0..Len(x.vs)] == IF i = 0 THEN 0 ELSE F[i - 1] + Weight(x.vs[i]) + (IF x.k = "map" THEN Len(x.ks[i]) ELSE 0)
              IN F[Len(x.vs)])

JDomainDeep(dummy) == Lists(JScalars, 2) \cup Maps(JKeys, JSmall, 2) \cup {ListV(<<x>>) : x \in Maps(JKeysSmall, JTiny, 3)}
Init == v \in {x \in (IF Deep THEN JDomain \cup JDomainDeep(0) ELSE JDomain) : Weight(x) % NShards = Shard}
Next == UNCHANGED v
Spec == Init /\ [][Next]_vars

\* B3: the round trip preserves value and kinds exactly when no reserved shape occurs -- the exclusion
\* in the property is the necessary and sufficient one
RoundTripIffNotReserved == (DecJ(EncJ(v)) = Sorted(v, "bytewise")) <=> ~Reserved(v)
OrderIndependent ==
  v.k = "map" /\ Len(v.ks) <= 3 =>
    \A p \in Perms(DOMAIN v.ks) : EncJ(MapV(Permute(v.ks, p), Permute(v.vs, p))) = EncJ(v)

Emit == PrintT(ToJson([v |-> v, toks |-> EncJ(v), sorted |-> Sorted(v, "bytewise"), reserved |-> Reserved(v)]))
=============================================================================
