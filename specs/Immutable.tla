------------------------------ MODULE Immutable ------------------------------
(***************************************************************************)
(* C11: a finished node never changes.                                     *)
(*                                                                         *)
(* Objects: finished nodes (each with the value it had when it was         *)
(* returned, frozen), and the builders that produced them.  Actions: every *)
(* library operation that takes a finished node or the builder that        *)
(* produced it -- reading, partial iteration, encoding, copying or         *)
(* assigning it into other builders that are then extended, resetting and  *)
(* reusing the producing builder, walking, subset matching, transforming,  *)
(* storing and loading.  Operations that return nodes append them with     *)
(* their specified values.  The specification has no action that edits a   *)
(* finished value: the content of the property is in the binding -- after  *)
(* EVERY action the harness re-reads EVERY finished node twice.            *)
(***************************************************************************)
EXTENDS DataModel

CONSTANTS Producers,   \* ways the first node comes into being
          Values0,     \* values for the first node
          OpNames, MaxOps, MaxNodes

VARIABLES nodes,    \* sequence of [v: Value, by: producer, src: index of the node it was derived from or 0]
          n, hist
vars == <<nodes, n, hist>>

I(x) == Scalar("int", IF x = 0 THEN <<0>> ELSE <<0, x>>)
S(b) == Scalar("string", b)
KMORE == <<109, 111, 114, 101>>      \* "more"
KORIG == <<111, 114, 105, 103>>      \* "orig"

\* a node that comes out of a key-sorting decoder holds its maps in that codec's order
Made0(v, p) == IF p = "decode-cbor" THEN Sorted(v, "lenfirst") ELSE IF p = "decode-json" THEN Sorted(v, "bytewise") ELSE v
\* producer "gen": the builder of a type of freshly generated code (catalogue type T0 = SchemaCat!R10: a struct with
\* renames holding a struct, a keyed union and a list of nullable strings); its values are type-level trees of that type
GenV == MapV(<<<<102>>, <<103>>, <<104>>>>,
             << MapV(<<<<97>>, <<98>>, <<99>>>>, <<I(1), I(2), S(<<120>>)>>),
                MapV(<<<<83, 116, 114, 105, 110, 103>>>>, <<S(<<115>>)>>),
                ListV(<<S(<<97>>), NullV>>) >>)
GenV2 == MapV(<<<<102>>, <<103>>, <<104>>>>,
              << MapV(<<<<97>>, <<98>>, <<99>>>>, <<I(7), I(8), S(<<121, 121>>)>>),
                 MapV(<<<<73, 110, 116>>>>, <<I(5)>>),
                 ListV(<<NullV>>) >>)
Init == /\ nodes \in {<<[v |-> Made0(v, p), by |-> p, src |-> 0]>> : v \in Values0, p \in Producers \ {"gen"}}
                      \cup (IF "gen" \in Producers THEN {<<[v |-> GenV, by |-> "gen", src |-> 0]>>} ELSE {})
        /\ n = 0 /\ hist = <<>>

\* values of derived nodes
Extended(v) == MapV(<<KORIG, KMORE>>, <<v, I(1)>>)
ReplaceFirst(v) == IF v.k \in RecursiveKinds /\ v.vs # <<>> THEN [v EXCEPT !.vs[1] = S(<<110, 101, 119>>)] ELSE v
ReuseValue(v) == IF v.k = "map" THEN MapV(<<<<122>>>>, <<I(9)>>) ELSE IF v.k = "list" THEN ListV(<<I(9), I(8)>>) ELSE I(9)
\* first bytes/string child sliced [1:3]
FirstSliceable(v) == IF \E i \in DOMAIN v.vs : v.vs[i].k \in {"bytes", "string"} /\ Len(v.vs[i].a) >= 3
                       THEN LET i == CHOOSE i \in DOMAIN v.vs : v.vs[i].k \in {"bytes", "string"} /\ Len(v.vs[i].a) >= 3
                                                /\ \A j \in DOMAIN v.vs : (v.vs[j].k \in {"bytes", "string"} /\ Len(v.vs[j].a) >= 3) => i <= j
                            IN Scalar(v.vs[i].k, SubSeq(v.vs[i].a, 2, 3))
                       ELSE Nil

Derive(op, v) ==
  CASE op \in {"copy-extend-basic", "copy-extend-bind", "embed-extend"} -> Extended(v)
    [] op = "assign-top-then-reset" -> v
    [] op = "reset-reuse"   -> ReuseValue(v)
    [] op = "transform"     -> ReplaceFirst(v)
    [] op = "store-load"    -> Sorted(v, "lenfirst")
    [] op = "walk-subset"   -> FirstSliceable(v)
    [] op = "stale-assembler" -> MapV(<<<<97>>, <<98>>>>, <<I(1), ListV(<<I(2)>>)>>)
                                 \* a fresh node whose builder keeps a value-assembler handle it then calls after Build
    [] op = "wrap-assign-mutate" -> MapV(<<<<120>>>>, <<ListV(<<I(1), I(2)>>)>>)
                                 \* a Go value of the caller is wrapped, the wrapped node is ASSIGNED into a builder of the
                                 \* same type (the copy is the new node), then the caller changes its own Go value
    [] OTHER -> Nil                      \* read, iter-partial, encode-*, walk: no new node

\* schema-typed nodes (and what keeps their prototype): a replacement by an arbitrary value is not acceptable there
RECURSIVE Typed(_)
Typed(i) == nodes[i].by \in {"wrap-assign-mutate", "gen"}
            \/ (nodes[i].by \in {"assign-top-then-reset", "reset-reuse"} /\ nodes[i].src > 0 /\ Typed(nodes[i].src))
\* the generated builder, reset and reused, can only build another value of its type
RECURSIVE GenBuilt(_)
GenBuilt(i) == nodes[i].by = "gen" \/ (nodes[i].by = "reset-reuse" /\ nodes[i].src > 0 /\ GenBuilt(nodes[i].src))

Op(op, i) ==
  /\ n < MaxOps /\ n' = n + 1
  /\ i \in DOMAIN nodes
  /\ op = "reset-reuse" => (nodes[i].src = 0 \/ nodes[i].by = "reset-reuse")      \* only builders the history still holds
  /\ op = "transform" => ~Typed(i)
  /\ LET d == IF op = "reset-reuse" /\ GenBuilt(i) THEN GenV2 ELSE Derive(op, nodes[i].v) IN
     /\ nodes' = IF d # Nil /\ Len(nodes) < MaxNodes THEN Append(nodes, [v |-> d, by |-> op, src |-> i]) ELSE nodes
     /\ hist' = Append(hist, [op |-> op, i |-> i, made |-> (d # Nil /\ Len(nodes) < MaxNodes)])

Next == \E op \in OpNames, i \in 1..MaxNodes : Op(op, i)
Spec == Init /\ [][Next]_vars

FinishedNeverChanges == [][\A i \in DOMAIN nodes : nodes'[i] = nodes[i]]_vars
Done == n = MaxOps
=============================================================================
