---------------------------- MODULE FsStoreProof ----------------------------
(***************************************************************************)
(* C18 for EVERY number of writers, readers, keys and chunks, every        *)
(* assignment of keys, modes and phases, and any number of crashes, faults *)
(* and cancellations: a machine-checked proof (TLAPS) that                 *)
(* AtomicVisibility and ReaderSeesAbsentOrComplete are invariants of       *)
(* FsStore!Spec.  TLC explores the same specification exhaustively for     *)
(* small constants (and produces the schedules that are replayed on the    *)
(* code); this proof removes the bounds from the design-level claim.       *)
(***************************************************************************)
EXTENDS FsStore, TLAPS

ASSUME ConstAssump ==
  /\ NW \in Nat /\ NR \in Nat /\ NK \in Nat
  /\ WKey \in [W -> K]
  /\ WChunks \in [W -> Seq(Nat \ {0})]
  /\ WMode \in [W -> {"put", "stream", "abort"}]
  /\ RKey \in [R -> K]

PCs == {"create", "write", "swrite", "commit", "close", "remove", "rename", "mkdir", "rename2", "ret"}

\* the first n chunks of a content
Pre(s, n) == [i \in 1..n |-> s[i]]

Good(w) == stag[w] = WChunks[w]

WriterInv(w) ==
  /\ (wpc[w] = "close" /\ ~Aborting(w)) => Good(w)
  /\ wpc[w] \in {"rename", "mkdir", "rename2"} => (Good(w) /\ WMode[w] # "abort")
  /\ (wpc[w] = "swrite" /\ wret[w] # "err") => (wn[w] \in 0..Len(WChunks[w]) /\ stag[w] = Pre(WChunks[w], wn[w]))
  /\ wpc[w] = "create" => (wn[w] = 0 /\ wret[w] = "")
  /\ wpc[w] = "remove" => Aborting(w)
  /\ wret[w] = "ok" => wpc[w] = "ret"

IndInv ==
  /\ wpc \in [W -> PCs]
  /\ wn \in [W -> Nat]
  /\ wret \in [W -> {"", "ok", "err"}]
  /\ stag = [x \in W |-> stag[x]]        \* functions on W / K / R (their values need no type)
  /\ dest = [x \in K |-> dest[x]]
  /\ rres = [x \in R |-> rres[x]]
  /\ \A w \in W : WriterInv(w)
  /\ AtomicVisibility
  /\ ReaderSeesAbsentOrComplete
  /\ AckedIsVisible

LEMMA PreEmpty == \A s : Pre(s, 0) = <<>>
  BY DEF Pre

LEMMA PreStep == \A s \in Seq(Nat \ {0}) : \A n \in 0..(Len(s) - 1) : Append(Pre(s, n), s[n + 1]) = Pre(s, n + 1)
  BY DEF Pre

LEMMA PreFull == \A s \in Seq(Nat \ {0}) : Pre(s, Len(s)) = s
  BY DEF Pre

LEMMA InitInv == Init => IndInv
  BY ConstAssump DEF Init, IndInv, WriterInv, PCs, AtomicVisibility, ReaderSeesAbsentOrComplete, AckedIsVisible, Aborting, Good, NONE, Pending, W, R, K


LEMMA StepInv == IndInv /\ [Next]_vars => IndInv'
<1> SUFFICES ASSUME IndInv, [Next]_vars PROVE IndInv'
  OBVIOUS
<1> USE ConstAssump
<1>1. ASSUME NEW w \in W, Create(w) PROVE IndInv'
  BY <1>1, PreEmpty DEF Create, IndInv, WriterInv, PCs, AtomicVisibility, ReaderSeesAbsentOrComplete, AckedIsVisible, Aborting, Good, Complete, NONE, Pending, W, R, K, Log
<1>2. ASSUME NEW w \in W, Write(w) PROVE IndInv'
  BY <1>2 DEF Write, IndInv, WriterInv, PCs, AtomicVisibility, ReaderSeesAbsentOrComplete, AckedIsVisible, Aborting, Good, Complete, NONE, Pending, W, R, K, Log
<1>3. ASSUME NEW w \in W, StreamWrite(w) PROVE IndInv'
  BY SMTT(120), <1>3, PreStep DEF StreamWrite, IndInv, WriterInv, PCs, AtomicVisibility, ReaderSeesAbsentOrComplete, AckedIsVisible, Aborting, Good, Complete, NONE, Pending, W, R, K, Log
<1>4. ASSUME NEW w \in W, CallCommit(w) PROVE IndInv'
  BY <1>4, PreFull DEF CallCommit, IndInv, WriterInv, PCs, AtomicVisibility, ReaderSeesAbsentOrComplete, AckedIsVisible, Aborting, Good, Complete, NONE, Pending, W, R, K, Log
<1>5. ASSUME NEW w \in W, Close(w) PROVE IndInv'
  BY <1>5 DEF Close, IndInv, WriterInv, PCs, AtomicVisibility, ReaderSeesAbsentOrComplete, AckedIsVisible, Aborting, Good, Complete, NONE, Pending, W, R, K, Log
<1>6. ASSUME NEW w \in W, Remove(w) PROVE IndInv'
  BY <1>6 DEF Remove, IndInv, WriterInv, PCs, AtomicVisibility, ReaderSeesAbsentOrComplete, AckedIsVisible, Aborting, Good, Complete, NONE, Pending, W, R, K, Log
<1>7. ASSUME NEW w \in W, Rename(w) PROVE IndInv'
  BY SMTT(120), <1>7 DEF Rename, IndInv, WriterInv, PCs, AtomicVisibility, ReaderSeesAbsentOrComplete, AckedIsVisible, Aborting, Good, Complete, NONE, Pending, W, R, K, Log
<1>8. ASSUME NEW w \in W, Mkdir(w) PROVE IndInv'
  BY SMTT(120), <1>8 DEF Mkdir, IndInv, WriterInv, PCs, AtomicVisibility, ReaderSeesAbsentOrComplete, AckedIsVisible, Aborting, Good, Complete, NONE, Pending, W, R, K, Log
<1>9. ASSUME NEW w \in W, Rename2(w) PROVE IndInv'
  BY <1>9 DEF Rename2, IndInv, WriterInv, PCs, AtomicVisibility, ReaderSeesAbsentOrComplete, AckedIsVisible, Aborting, Good, Complete, NONE, Pending, W, R, K, Log
<1>10. ASSUME NEW w \in W, Fault(w) PROVE IndInv'
  BY SMTT(120), <1>10 DEF Fault, IndInv, WriterInv, PCs, AtomicVisibility, ReaderSeesAbsentOrComplete, AckedIsVisible, Aborting, Good, Complete, NONE, Pending, W, R, K, Log
<1>11. ASSUME NEW w \in W, StreamWriteFault(w) PROVE IndInv'
  BY <1>11 DEF StreamWriteFault, IndInv, WriterInv, PCs, AtomicVisibility, ReaderSeesAbsentOrComplete, AckedIsVisible, Aborting, Good, Complete, NONE, Pending, W, R, K, Log
<1>12. ASSUME NEW w \in W, GiveUp(w) PROVE IndInv'
  BY <1>12 DEF GiveUp, IndInv, WriterInv, PCs, AtomicVisibility, ReaderSeesAbsentOrComplete, AckedIsVisible, Aborting, Good, Complete, NONE, Pending, W, R, K, Log
<1>13. ASSUME NEW r \in R, ReadOpen(r) PROVE IndInv'
  BY <1>13 DEF ReadOpen, IndInv, WriterInv, PCs, AtomicVisibility, ReaderSeesAbsentOrComplete, AckedIsVisible, Aborting, Good, Complete, NONE, Pending, W, R, K, Log
<1>14. ASSUME Crash PROVE IndInv'
  BY <1>14 DEF Crash, IndInv, WriterInv, PCs, AtomicVisibility, ReaderSeesAbsentOrComplete, AckedIsVisible, Aborting, Good, Complete, NONE, Pending, W, R, K, Log
<1>15. ASSUME UNCHANGED vars PROVE IndInv'
  BY <1>15 DEF vars, IndInv, WriterInv, PCs, AtomicVisibility, ReaderSeesAbsentOrComplete, AckedIsVisible, Aborting, Good, Complete, NONE, Pending, W, R, K, Log
<1> QED
  BY <1>1, <1>2, <1>3, <1>4, <1>5, <1>6, <1>7, <1>8, <1>9, <1>10, <1>11, <1>12, <1>13, <1>14, <1>15 DEF Next

THEOREM Safety == Spec => [](AtomicVisibility /\ ReaderSeesAbsentOrComplete /\ AckedIsVisible)
<1>1. IndInv => AtomicVisibility /\ ReaderSeesAbsentOrComplete /\ AckedIsVisible
  BY DEF IndInv
<1> QED
  BY InitInv, StepInv, <1>1, PTL DEF Spec
=============================================================================
