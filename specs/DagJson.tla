------------------------------ MODULE DagJson ------------------------------
(***************************************************************************)
(* DAG-JSON at token level, written from the DAG-JSON specification:       *)
(*   EncJ(v)  the token sequence of the encoding: map keys in bytewise     *)
(*            order, bytes as {"/": {"bytes": <base64>}}, links as         *)
(*            {"/": <cid string>}                                          *)
(*   DecJ(ts) the decoder with the look-ahead the reserved forms need      *)
(*   Reserved(v): the shapes DAG-JSON cannot express as plain maps         *)
(* Lexical forms (number formatting, string escapes, base64, the CID's     *)
(* string form) are outside TLA+: tokens carry the abstract payload and    *)
(* the harness compares them through independent Go oracles.               *)
(* Tokens are records [t, a]: "{" "}" "[" "]" "key" "str" "int" "float"     *)
(* "true" "false" "null".                                                  *)
(***************************************************************************)
EXTENDS DataModel

Tok(t, a) == [t |-> t, a |-> a]
SLASH == <<47>>
BYTESKEY == <<98, 121, 116, 101, 115>>        \* "bytes"

RECURSIVE FlattenT(_)
FlattenT(ss) == IF ss = <<>> THEN <<>> ELSE ss[1] \o FlattenT(Tail(ss))

\* the payload of a "str" token that stands for base64(bytes) / the string form of a CID is tagged,
\* so that the harness knows which independent oracle renders it
B64(b) == <<"b64">> \o <<b>>
CIDSTR(c) == <<"cid">> \o <<c>>
PLAIN(s) == <<"raw">> \o <<s>>

RECURSIVE EncJ(_)
EncJ(v) ==
  CASE v.k = "null"   -> <<Tok("null", <<>>)>>
    [] v.k = "bool"   -> <<Tok(IF v.a = <<1>> THEN "true" ELSE "false", <<>>)>>
    [] v.k = "int"    -> <<Tok("int", v.a)>>
    [] v.k = "float"  -> <<Tok("float", v.a)>>
    [] v.k = "string" -> <<Tok("str", PLAIN(v.a))>>
    [] v.k = "bytes"  -> <<Tok("{", <<>>), Tok("key", SLASH), Tok("{", <<>>), Tok("key", BYTESKEY),
                           Tok("str", B64(v.a)), Tok("}", <<>>), Tok("}", <<>>)>>
    [] v.k = "link"   -> <<Tok("{", <<>>), Tok("key", SLASH), Tok("str", CIDSTR(v.a)), Tok("}", <<>>)>>
    [] v.k = "list"   -> <<Tok("[", <<>>)>> \o FlattenT([i \in DOMAIN v.vs |-> EncJ(v.vs[i])]) \o <<Tok("]", <<>>)>>
    [] v.k = "map"    ->
         LET idx == SortIdx(Len(v.ks), v.ks, "bytewise")
         IN <<Tok("{", <<>>)>> \o
            FlattenT([i \in DOMAIN idx |-> <<Tok("key", v.ks[idx[i]])>> \o EncJ(v.vs[idx[i]])]) \o
            <<Tok("}", <<>>)>>

\* the shapes a plain map must not have, because they would read back as bytes / a link
ReservedHere(v) ==
  v.k = "map" /\ Len(v.ks) = 1 /\ v.ks[1] = SLASH /\
    \/ v.vs[1].k = "string"
    \/ (v.vs[1].k = "map" /\ Len(v.vs[1].ks) = 1 /\ v.vs[1].ks[1] = BYTESKEY /\ v.vs[1].vs[1].k = "string")
RECURSIVE Reserved(_)
Reserved(v) == ReservedHere(v) \/ \E i \in DOMAIN v.vs : Reserved(v.vs[i])

\* decoder: [v, rest]; maps are first read as plain maps, then the two reserved forms are recognised
RECURSIVE DecV(_)
RECURSIVE DecMap(_, _, _)
RECURSIVE DecList(_, _)
\* a single-entry map keyed "/" whose value is a string IS a link in DAG-JSON, and one whose value is a
\* single-entry map keyed "bytes" with a string value IS bytes -- whatever the string holds.  A string that
\* was not produced as a CID / as base64 makes the decoder fail (or denote something else): ERRV.
ERRV == Mk("error", <<>>, <<>>, <<>>)
Recognise(m) ==
  IF m.k = "map" /\ Len(m.ks) = 1 /\ m.ks[1] = SLASH THEN
    IF m.vs[1].k = "string" THEN (IF m.vs[1].a[1] = "cid" THEN Scalar("link", m.vs[1].a[2]) ELSE ERRV)
    ELSE IF m.vs[1].k = "map" /\ Len(m.vs[1].ks) = 1 /\ m.vs[1].ks[1] = BYTESKEY /\ m.vs[1].vs[1].k = "string"
         THEN (IF m.vs[1].vs[1].a[1] = "b64" THEN Scalar("bytes", m.vs[1].vs[1].a[2]) ELSE ERRV)
    ELSE m
  ELSE m
DecV(ts) ==
  LET t == ts[1] IN
  CASE t.t = "null"  -> [v |-> NullV, rest |-> Tail(ts)]
    [] t.t = "true"  -> [v |-> Scalar("bool", <<1>>), rest |-> Tail(ts)]
    [] t.t = "false" -> [v |-> Scalar("bool", <<0>>), rest |-> Tail(ts)]
    [] t.t = "int"   -> [v |-> Scalar("int", t.a), rest |-> Tail(ts)]
    [] t.t = "float" -> [v |-> Scalar("float", t.a), rest |-> Tail(ts)]
    [] t.t = "str"   -> [v |-> Scalar("string", t.a), rest |-> Tail(ts)]     \* payload still tagged
    [] t.t = "["     -> DecList(Tail(ts), <<>>)
    [] t.t = "{"     -> DecMap(Tail(ts), <<>>, <<>>)
DecList(ts, vs) ==
  IF ts[1].t = "]" THEN [v |-> ListV(vs), rest |-> Tail(ts)]
  ELSE LET r == DecV(ts) IN DecList(r.rest, Append(vs, r.v))
DecMap(ts, ks, vs) ==
  IF ts[1].t = "}" THEN [v |-> Recognise(MapV(ks, vs)), rest |-> Tail(ts)]
  ELSE LET r == DecV(Tail(ts)) IN DecMap(r.rest, Append(ks, ts[1].a), Append(vs, r.v))

\* strip the oracle tags from plain strings once the reserved forms have been recognised
RECURSIVE Untag(_)
Untag(v) ==
  IF v.k = "string" THEN Scalar("string", v.a[2])
  ELSE IF v.k = "error" THEN v
  ELSE IF v.k \in RecursiveKinds THEN [v EXCEPT !.vs = [i \in DOMAIN v.vs |-> Untag(v.vs[i])]]
  ELSE v

DecJ(ts) == Untag(DecV(ts).v)
=============================================================================
