----------------------------- MODULE DagCborEnc -----------------------------
(***************************************************************************)
(* C02 instance: the "state graph" is the evaluation of Enc over an        *)
(* exhaustively enumerated bounded value domain.  Every value is an        *)
(* initial state; TLC checks the equations between the independently       *)
(* written formulations and prints one replay case per value.              *)
(***************************************************************************)
EXTENDS DagCbor, CborValues, Json

CONSTANTS Domain, Shard, NShards    \* which value domain; sharding of the enumeration

VARIABLE v
vars == <<v>>

D1(dummy) == ScalarsFull \cup Lists(ScalarsFull, 1) \cup Maps(KeysFull, ScalarsSmall, 1)
      \cup Maps(KeysSmall, ScalarsTiny, 3) \cup Lists(ScalarsSmall, 2) \cup WideLists \cup WideMaps
Mid(dummy) == ScalarsTiny \cup Lists(ScalarsTiny, 1) \cup Maps({<<97>>, <<98, 98>>}, ScalarsTiny, 2)
D2(dummy) == Lists(Mid(0), 2) \cup Maps({<<98>>, <<97, 97>>, <<99>>}, Mid(0), 2)
D3(dummy) == Maps(KeysFull, ScalarsTiny, 2) \cup Maps(KeysSmall, ScalarsSmall, 2)
      \cup {ListV(<<x>>) : x \in D2(0)} \cup {MapV(<<<<120>>>>, <<x>>) : x \in D2(0)}

\* thorough tier: every pair of full-range scalars, three-key maps over the full key set, one more level of nesting
D4(dummy) == Lists(ScalarsFull, 2) \cup Maps(KeysFull, ScalarsTiny, 3)
      \cup {ListV(<<MapV(<<<<121>>>>, <<x>>)>>) : x \in D2(0)}

D5(dummy) == Maps(KeysFull, ScalarsSmall, 2) \cup Lists(ScalarsSmall, 3) \cup {MapV(<<<<>>>>, <<x>>) : x \in Lists(ScalarsFull, 2)}

ValueSet == CASE Domain = "D5" -> D5(0) [] Domain = "D1" -> D1(0) [] Domain = "D2" -> D2(0) [] Domain = "D3" -> D3(0) [] Domain = "D4" -> D4(0)
              [] Domain = "all" -> D1(0) \cup D2(0) \cup D3(0)

\* cheap structural hash for sharding
RECURSIVE Weight(_)
Weight(x) == Len(x.a) + Len(x.vs) * 3 +
             (LET F[i \in 0..Len(x.vs)] == IF i = 0 THEN 0 ELSE F[i - 1] + Weight(x.vs[i]) + (IF x.k = "map" THEN Len(x.ks[i]) ELSE 0)
              IN F[Len(x.vs)])

Init == v \in {x \in ValueSet : Weight(x) % NShards = Shard}
Next == UNCHANGED v
Spec == Init /\ [][Next]_vars

\* B3: equations between the independent formulations
RoundTrip == LET d == Decode(Enc(v)) IN d.acc /\ d.v = Sorted(v, "lenfirst") /\ d.tol = {}
LengthAgrees == Len(Enc(v)) = EncLen(v)
OrderIndependent ==
  v.k = "map" /\ Len(v.ks) <= 3 =>
    \A p \in Perms(DOMAIN v.ks) : Enc(MapV(Permute(v.ks, p), Permute(v.vs, p))) = Enc(v)
CanonicalIsFixpoint == Enc(Sorted(v, "lenfirst")) = Enc(v) /\ EncAsRead(Sorted(v, "lenfirst")) = Enc(v)

Emit == PrintT(ToJson([v |-> v, enc |-> Enc(v), sorted |-> Sorted(v, "lenfirst")]))
=============================================================================
