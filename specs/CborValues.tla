----------------------------- MODULE CborValues -----------------------------
(***************************************************************************)
(* Bounded, concrete value domains for the codec modules: boundary         *)
(* integers for every CBOR head width on both signs, strings / bytes /     *)
(* containers at the length boundaries 0, 1, 23, 24, 255, 256, keys that   *)
(* exercise the length-then-bytewise order, float bit patterns by class,   *)
(* CIDs of every version / multihash shape.                                *)
(***************************************************************************)
EXTENDS DataModel

Fill(n, b) == [i \in 1..n |-> (b + i * 7) % 256]
Rep(n, b)  == [i \in 1..n |-> b]

IntV(sign, mag) == Scalar("int", <<sign>> \o mag)

\* arguments at every head-width boundary (minimal big-endian bytes)
ArgBoundaries ==
  { <<>>, <<1>>, <<23>>, <<24>>, <<255>>, <<1, 0>>, <<255, 255>>, <<1, 0, 0>>,
    <<255, 255, 255, 255>>, <<1, 0, 0, 0, 0>>, <<1, 2, 3, 4, 5, 6, 7>>,
    <<127, 255, 255, 255, 255, 255, 255, 255>> }
IntsFull ==
  {IntV(0, a) : a \in ArgBoundaries} \cup {IntV(1, a) : a \in ArgBoundaries}
  \cup {IntV(0, <<128, 0, 0, 0, 0, 0, 0, 0>>), IntV(0, Rep(8, 255))}     \* uint64 above int64
IntsSmall == {IntV(0, <<>>), IntV(0, <<24>>), IntV(1, <<>>), IntV(1, <<1, 0>>)}

\* float64 bit patterns: 1.5, -0.0, 0.0, max, min subnormal, 1e21, 1e-7, -2.25, 3.0 (integral)
FloatsFull ==
  {Scalar("float", f) : f \in {
     <<63, 248, 0, 0, 0, 0, 0, 0>>, <<128, 0, 0, 0, 0, 0, 0, 0>>, <<0, 0, 0, 0, 0, 0, 0, 0>>,
     <<127, 239, 255, 255, 255, 255, 255, 255>>, <<0, 0, 0, 0, 0, 0, 0, 1>>,
     <<68, 75, 27, 173, 93, 226, 162, 176>>, <<62, 122, 215, 242, 155, 188, 175, 72>>,
     <<192, 2, 0, 0, 0, 0, 0, 0>>, <<64, 8, 0, 0, 0, 0, 0, 0>> }}
FloatsSmall == {Scalar("float", <<63, 248, 0, 0, 0, 0, 0, 0>>)}

StrBytes == { <<>>, <<97>>, <<0>>, <<255, 254>>, <<195, 169>>, <<47>>, Fill(23, 65), Fill(24, 65),
              Fill(255, 1), Fill(256, 1) }
StringsFull == {Scalar("string", b) : b \in StrBytes}
BytesFull   == {Scalar("bytes", b) : b \in StrBytes}

\* CIDs: v1 dag-cbor sha2-256; v0; v1 raw identity; v1 dag-json sha2-512; v1 truncated sha2-256/4;
\* v1 with a two-byte codec varint (0x0129 dag-json) and blake3 (0x1e)
CidBytes == {
  <<1, 113, 18, 32>> \o Fill(32, 3),
  <<18, 32>> \o Fill(32, 9),
  <<1, 85, 0, 3, 97, 98, 99>>,
  <<1, 85, 0, 0>>,
  <<1, 169, 2, 19, 64>> \o Fill(64, 5),
  <<1, 113, 18, 4, 1, 2, 3, 4>>,
  <<1, 113, 30, 32>> \o Fill(32, 11),
  \* inline (identity) CIDs whose length sits on a CBOR head-size boundary once the 0x00 prefix is added:
  \* 22 / 23 / 24 and 254 / 255 / 256 bytes
  <<1, 85, 0, 18>> \o Fill(18, 7), <<1, 85, 0, 19>> \o Fill(19, 7), <<1, 85, 0, 20>> \o Fill(20, 7),
  <<1, 85, 0, 249, 1>> \o Fill(249, 7), <<1, 85, 0, 250, 1>> \o Fill(250, 7), <<1, 85, 0, 251, 1>> \o Fill(251, 7) }
LinksFull  == {Scalar("link", c) : c \in CidBytes}
LinksSmall == {Scalar("link", <<1, 85, 0, 3, 97, 98, 99>>)}

Simple == {NullV, Scalar("bool", <<0>>), Scalar("bool", <<1>>)}

ScalarsFull  == Simple \cup IntsFull \cup FloatsFull \cup StringsFull \cup BytesFull \cup LinksFull
ScalarsSmall == {NullV, Scalar("bool", <<1>>)} \cup IntsSmall \cup FloatsSmall
                \cup {Scalar("string", <<97>>), Scalar("bytes", <<1, 2>>)} \cup LinksSmall
ScalarsTiny  == {IntV(0, <<1>>), Scalar("string", <<>>)}

\* keys: the canonical order is length first, then bytewise
KeysFull == { <<>>, <<97>>, <<98>>, <<97, 97>>, <<97, 98>>, <<98, 97>>, <<195, 169>>, <<122>>,
              <<0>>, <<255>>, Fill(24, 97), <<97, 0>>,
              Fill(255, 97), Fill(256, 97), Fill(257, 98) }     \* lengths around a one-byte / two-byte length head
KeysSmall == { <<97>>, <<98>>, <<97, 97>>, <<>> }

\* all sequences over S of length exactly n / at most n
RECURSIVE SeqsN(_, _)
SeqsN(S, n) == IF n = 0 THEN {<<>>} ELSE {Append(s, x) : s \in SeqsN(S, n - 1), x \in S}
SeqsUpTo(S, n) == UNION {SeqsN(S, i) : i \in 0..n}
InjSeqsUpTo(S, n) == {s \in SeqsUpTo(S, n) : NoDup(s)}

\* one level of containers over element set E
Lists(E, w) == {ListV(s) : s \in SeqsUpTo(E, w)}
Maps(K, E, w) == UNION {{MapV(ks, vs) : vs \in SeqsN(E, Len(ks))} : ks \in InjSeqsUpTo(K, w)}

\* wide containers at the length-head boundaries (23, 24, 255, 256 elements)
WideLists == {ListV(Rep(n, IntV(0, <<1>>))) : n \in {23, 24, 255, 256}}
NumKey(i) == <<107, 48 + (i \div 100), 48 + ((i \div 10) % 10), 48 + (i % 10)>>
WideMaps  == {MapV([i \in 1..n |-> NumKey(n - i)], Rep(n, IntV(0, <<1>>))) : n \in {23, 24}}
=============================================================================
