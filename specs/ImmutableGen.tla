---------------------------- MODULE ImmutableGen ----------------------------
EXTENDS Immutable, Json
CONSTANT ProducerSel     \* "all", or one producer (the thorough tier runs one JVM per producer)
B(b) == Scalar("bytes", b)
k1 == <<97>>  k2 == <<98, 98>>  k3 == <<99>>
V1 == MapV(<<k2, k1, k3>>, <<I(1), ListV(<<I(2), B(<<1, 2, 3, 4>>), S(<<104, 101, 108, 108, 111>>)>>), B(<<9, 8, 7, 6, 5>>)>>)
V2 == ListV(<<S(<<119, 111, 114, 108, 100>>), I(3), MapV(<<k1>>, <<I(4)>>)>>)
V3 == B(<<10, 20, 30, 40>>)
GenValues == {V1, V2, V3}
AllProducers == {"basic-any", "basic-typed", "bind", "decode-cbor", "decode-json"}
GenProducers == IF ProducerSel = "all" THEN AllProducers ELSE {ProducerSel}     \* "gen": only by explicit selection
GenOps == {"read", "iter-partial", "encode-cbor", "encode-json", "copy-extend-basic", "copy-extend-bind", "embed-extend",
           "assign-top-then-reset", "reset-reuse", "walk", "walk-subset", "transform", "store-load", "stale-assembler", "wrap-assign-mutate"}
Emit == Done => PrintT(ToJson([first |-> nodes[1], steps |-> hist, nodes |-> nodes]))
=============================================================================
