----------------------------- MODULE SelectorDmt -----------------------------
(***************************************************************************)
(* C10 (selector part): the data-model trees offered to the selector       *)
(* compiler.  DmtOf renders a selector AST in the selector specification's  *)
(* keyed-union layout; the instance offers (1) every well-shaped selector  *)
(* of the bounded language with the verdict of Selector!Compiles, (2) the  *)
(* same with EXTREME integers substituted for indices, range bounds, depth *)
(* limits and subset bounds (0, -1, min and max int64), (3) every local    *)
(* mutation of the trees (malformed shapes) -- for (2) and (3) only        *)
(* totality is asked: compile to an error or a selector, never panic, and  *)
(* a selector that compiled walks every graph to its end.                  *)
(***************************************************************************)
EXTENDS TraversalGenBase, Json

Str(bs) == Scalar("string", bs)
IntP(x) == Scalar("int", IF x = 0 THEN <<0>> ELSE IF x > 0 THEN <<0, x>> ELSE <<1, (0 - x) - 1>>)   \* small ints (|x| < 256)
EMPTY == MapV(<<>>, <<>>)
One(k, v) == MapV(<<k>>, <<v>>)

RECURSIVE DmtOf(_)
DmtOf(s) ==
  CASE s.t = "match"  -> One(<<46>>, EMPTY)
    [] s.t = "subset" -> One(<<46>>, One(<<115, 117, 98, 115, 101, 116>>, MapV(<<<<91>>, <<93>>>>, <<IntP(s.a[1]), IntP(s.a[2])>>)))
    [] s.t = "all"    -> One(<<97>>, One(<<62>>, DmtOf(s.ss[1])))
    [] s.t = "fields" -> One(<<102>>, One(<<102, 62>>, MapV(s.ks, [i \in DOMAIN s.ss |-> DmtOf(s.ss[i])])))
    [] s.t = "index"  -> One(<<105>>, MapV(<<<<105>>, <<62>>>>, <<IntP(s.a[1]), DmtOf(s.ss[1])>>))
    [] s.t = "range"  -> One(<<114>>, MapV(<<<<94>>, <<36>>, <<62>>>>, <<IntP(s.a[1]), IntP(s.a[2]), DmtOf(s.ss[1])>>))
    [] s.t = "union"  -> One(<<124>>, ListV([i \in DOMAIN s.ss |-> DmtOf(s.ss[i])]))
    [] s.t = "rec"    -> One(<<82>>, MapV(<<<<108>>, <<58, 62>>>>,
                               << (IF s.a[1] < 0 THEN One(<<110, 111, 110, 101>>, EMPTY)
                                   ELSE One(<<100, 101, 112, 116, 104>>, IntP(s.a[1]))), DmtOf(s.ss[1]) >>))
    [] s.t = "edge"   -> One(<<64>>, EMPTY)

\* extreme integers: 0, -1, max int64, min int64, 2^62, 1
Extremes == { Scalar("int", <<0>>), Scalar("int", <<1>>), Scalar("int", <<0, 127, 255, 255, 255, 255, 255, 255, 255>>),
              Scalar("int", <<1, 127, 255, 255, 255, 255, 255, 255, 255>>), Scalar("int", <<0, 64, 0, 0, 0, 0, 0, 0, 0>>),
              Scalar("int", <<0, 1>>) }

\* every tree obtained by replacing ONE integer of v by an extreme one
RECURSIVE WithExtreme(_)
WithExtreme(v) ==
  IF v.k = "int" THEN Extremes
  ELSE UNION {{[v EXCEPT !.vs[i] = m] : m \in WithExtreme(v.vs[i])} : i \in DOMAIN v.vs}

\* local structural mutations (malformed shapes)
RECURSIVE MutD(_)
MutD(v) ==
  LET n == Len(v.vs)
      deeper == UNION {{[v EXCEPT !.vs[i] = m] : m \in MutD(v.vs[i])} : i \in DOMAIN v.vs}
  IN CASE v.k = "map" ->
            deeper
            \cup {[v EXCEPT !.vs = SubSeq(v.vs, 1, i - 1) \o SubSeq(v.vs, i + 1, n),
                            !.ks = SubSeq(v.ks, 1, i - 1) \o SubSeq(v.ks, i + 1, n)] : i \in DOMAIN v.vs}
            \cup {[v EXCEPT !.ks[i] = <<113>>] : i \in DOMAIN v.vs}
            \cup {[v EXCEPT !.vs[i] = x] : i \in DOMAIN v.vs, x \in {NullV, Str(<<120>>), ListV(<<>>), IntP(1), EMPTY}}
            \cup {[v EXCEPT !.ks = Append(@, <<64>>), !.vs = Append(@, EMPTY)]}
            \cup {ListV(<<v>>)}
       [] v.k = "list" ->
            deeper \cup {ListV(<<>>), [v EXCEPT !.vs = Append(@, IntP(1))], EMPTY}
       [] OTHER -> {NullV, Str(<<120>>), EMPTY}

CONSTANT DMode
VARIABLE dc
dvars == <<dc>>

SelsSmall(dummy) == {x \in Closed(1, G1) \cup Layer({SRec(1, -1, SEdge), SRec(-1, -1, SAll(SEdge)), SSubset(1, 3), SIndex(1, SMatch),
                                             SRange(0, 2, SMatch)}) : TRUE}
Cases(dummy) ==
  IF DMode = "wellformed" THEN {[kind |-> "wellformed", dmt |-> DmtOf(s), compiles |-> Compiles(s, FALSE)] : s \in SelsSmall(0)}
  ELSE IF DMode = "extreme" THEN
     UNION {{[kind |-> "extreme", dmt |-> d, compiles |-> FALSE] : d \in WithExtreme(DmtOf(s))}
            : s \in {x \in SelsSmall(0) : Compiles(x, FALSE)}}
  ELSE UNION {{[kind |-> "malformed", dmt |-> d, compiles |-> FALSE] : d \in MutD(DmtOf(s))}
              : s \in {x \in SelsSmall(0) : Compiles(x, FALSE) /\ SelWeight(x) % 3 = 0}}

Init == dc \in Cases(0)
Next == UNCHANGED dc
Spec == Init /\ [][Next]_dvars
Emit == PrintT(ToJson(dc))
=============================================================================
