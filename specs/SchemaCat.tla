------------------------------ MODULE SchemaCat ------------------------------
(***************************************************************************)
(* The catalogue of type systems shared by the schema instances            *)
(* (SchemaGen: whole-input cases; TypedAssembler: step-level protocol):    *)
(* every representation strategy, nested in others, every optional /       *)
(* nullable / both combination; all inhabitants up to the value bound; and *)
(* the local mutations of data-model trees.  Constant-level operators only.*)
(***************************************************************************)
EXTENDS Schema

CONSTANT Wide      \* TRUE: unsigned integers beyond int64 are part of the value domain (C19: Go uint64 fields)

\* ---- names (ASCII)
nInt == <<73, 110, 116>>            nString == <<83, 116, 114, 105, 110, 103>>
nBool == <<66, 111, 111, 108>>      nLink == <<76, 105, 110, 107>>
Nm(c, d) == <<c, 48 + d>>           \* e.g. Nm(83, 1) = "S1"
fa == <<97>>  fb == <<98>>  fc == <<99>>  fd == <<100>>  ff == <<102>>  fg == <<103>>  fh == <<104>>

TInt == TScalar("int", nInt)   TString == TScalar("string", nString)   TBool == TScalar("bool", nBool)
TLink == TScalar("link", nLink)

\* ---- depth-1 types
S1 == TStruct(Nm(83, 1), <<Field(fa, TInt, FALSE, FALSE), Field(fb, TString, FALSE, FALSE)>>, RMap(<<>>))
S2 == TStruct(Nm(83, 2), <<Field(fa, TInt, FALSE, FALSE), Field(fb, TString, TRUE, FALSE), Field(fc, TInt, FALSE, TRUE),
                           Field(fd, TString, TRUE, TRUE)>>, RMap(<<<<120>>, fb, <<122, 122>>, fd>>))
S3 == TStruct(Nm(83, 3), <<Field(fa, TInt, FALSE, FALSE), Field(fb, TString, FALSE, TRUE), Field(fc, TInt, TRUE, FALSE)>>, RTuple)
S4 == TStruct(Nm(83, 4), <<Field(fa, TString, FALSE, FALSE), Field(fb, TString, FALSE, FALSE)>>, RJoin(<<58>>))
S5 == TStruct(Nm(83, 5), <<Field(fa, TInt, FALSE, FALSE), Field(fb, TString, TRUE, FALSE)>>, RPairs)
L1 == TList(Nm(76, 1), TInt, FALSE)
L2 == TList(Nm(76, 2), TString, TRUE)
M1 == TMap(Nm(77, 1), TInt, FALSE)
U1 == TUnion(Nm(85, 1), <<TInt, TString>>, UKeyed(<<<<105>>, <<115>>>>))
U2 == TUnion(Nm(85, 2), <<TInt, TString, S1, L1>>, UKinded)
U3 == TUnion(Nm(85, 3), <<TString, S4>>, UPrefix(<<58>>, <<<<115>>, <<106>>>>))
E1 == TEnum(Nm(69, 1), <<<<89, 101, 115>>, <<78, 111>>>>, EString(<<<<121>>, <<110>>>>))
E2 == TEnum(Nm(69, 2), <<<<79, 110, 101>>, <<90, 101, 114, 111>>>>, EInt(<<1, 0>>))
\* ---- depth-2 types
M2 == TMap(Nm(77, 2), S1, TRUE)
R1 == TStruct(Nm(82, 1), <<Field(ff, S2, FALSE, FALSE), Field(fg, U1, TRUE, FALSE), Field(fh, E1, FALSE, TRUE)>>,
              RMap(<<<<70>>, fg, fh>>))
R2 == TStruct(Nm(82, 2), <<Field(ff, S3, FALSE, FALSE), Field(fg, L2, FALSE, FALSE), Field(fh, M1, TRUE, FALSE)>>, RTuple)
R3 == TUnion(Nm(82, 3), <<S2, U2, E2>>, UKeyed(<<<<116, 119, 111>>, <<107>>, <<101>>>>))
R4 == TUnion(Nm(82, 4), <<S1, S3, E1, TInt, TBool>>, UKinded)
R5 == TList(Nm(82, 5), U1, TRUE)
R6 == TMap(Nm(82, 6), S5, FALSE)
R7 == TList(Nm(82, 7), S4, FALSE)
R8 == TStruct(Nm(82, 8), <<Field(ff, U3, FALSE, FALSE), Field(fg, S1, TRUE, FALSE)>>, RPairs)
R9 == TStruct(Nm(82, 9), <<Field(ff, E2, FALSE, FALSE), Field(fg, TLink, TRUE, TRUE), Field(fh, L1, FALSE, FALSE)>>, RMap(<<>>))

\* renames that collide with other field names (swapped, shifted)
S6 == TStruct(Nm(83, 6), <<Field(fa, TInt, FALSE, FALSE), Field(fb, TInt, FALSE, FALSE), Field(fc, TString, TRUE, FALSE)>>,
              RMap(<<fb, fa, fc>>))
S7 == TStruct(Nm(83, 7), <<Field(fa, TInt, FALSE, FALSE), Field(fb, TInt, FALSE, FALSE)>>, RMap(<<fb, fc>>))
\* a kinded union whose list-kind member is a listpairs struct, next to a map-kind member with renames
U4 == TUnion(Nm(85, 4), <<S5, TString, S6>>, UKinded)

\* depth-2 types inside the code generator's feature set (no enum, no listpairs)
R10 == TStruct(Nm(84, 0), <<Field(ff, S6, FALSE, FALSE), Field(fg, U1, TRUE, FALSE), Field(fh, L2, FALSE, TRUE)>>,
               RMap(<<<<70>>, fg, fh>>))
R11 == TUnion(Nm(84, 1), <<S2, U2, L1>>, UKeyed(<<<<116, 119, 111>>, <<107>>, <<108>>>>))
R12 == TUnion(Nm(84, 2), <<S6, S3, TInt, TBool, TString>>, UKinded)
R13 == TMap(Nm(84, 3), S3, TRUE)

\* integers at the boundaries of the Go widths they are bound to (C19): int8, uint8, uint64
TI8 == TScalar("int", <<73, 56>>)   TU8 == TScalar("int", <<85, 56>>)   TU64 == TScalar("int", <<85, 54, 52>>)
W1 == TStruct(Nm(87, 1), <<Field(fa, TI8, FALSE, FALSE), Field(fb, TU8, FALSE, FALSE), Field(fc, TU64, TRUE, FALSE)>>, RMap(<<>>))

\* optional fields that Go binds to nilable non-pointer types (a slice, a link); unsigned map values and union members
S8 == TStruct(Nm(83, 8), <<Field(fa, TInt, FALSE, FALSE), Field(fb, L1, TRUE, FALSE), Field(fc, TLink, TRUE, FALSE)>>, RMap(<<>>))
M3 == TMap(Nm(77, 3), TU64, FALSE)
U5 == TUnion(Nm(85, 5), <<TU64, TString>>, UKeyed(<<<<117>>, <<115>>>>))

\* structs whose fields are ALL optional (map representation: the empty map is an inhabitant); one field, two fields
S9 == TStruct(Nm(83, 9), <<Field(fa, TInt, TRUE, FALSE), Field(fb, TString, TRUE, TRUE)>>, RMap(<<>>))
V1 == TStruct(Nm(86, 1), <<Field(fa, TString, TRUE, FALSE)>>, RMap(<<<<120>>>>))
\* ... and with tuple representation: the empty LIST is an inhabitant's representation
V2 == TStruct(Nm(86, 2), <<Field(fa, TInt, TRUE, FALSE)>>, RTuple)
\* names that collide ACROSS members: an enum whose first and last members are represented by their own names (in schema
\* text: members without a value, before and after one that has a value), and a keyed union whose discriminants are the
\* type names of the OTHER member
E3 == TEnum(Nm(69, 3), <<<<65, 97>>, <<66, 98>>, <<67, 99>>>>, EString(<<<<65, 97>>, <<97>>, <<67, 99>>>>))
\* nullable integers of narrow and unsigned Go widths (held through pointers), also as list elements
L4 == TList(Nm(76, 4), TU64, TRUE)
W2 == TStruct(Nm(87, 2), <<Field(fa, TU8, FALSE, TRUE), Field(fb, TI8, FALSE, TRUE), Field(fc, L4, FALSE, FALSE)>>, RMap(<<>>))
U8 == TUnion(Nm(85, 9), <<TInt, TString>>, UKeyed(<<nString, nInt>>))
\* a small kinded union with a recursive (struct) member, as list element and as map value: the SAME member kind occurs
\* twice in one container (the parent's value assembler is reused); a stringprefix union as map value
U6 == TUnion(Nm(85, 6), <<TInt, S1>>, UKinded)
L3 == TList(Nm(76, 3), U6, FALSE)
M4 == TMap(Nm(77, 4), U6, TRUE)
U7 == TUnion(Nm(85, 7), <<TString, TInt>>, UKinded)
M5 == TMap(Nm(77, 5), U3, FALSE)
M6 == TMap(Nm(77, 6), U7, FALSE)

Types == <<S1, S2, S3, S4, S5, L1, L2, M1, U1, U2, U3, E1, E2, M2, R1, R2, R3, R4, R5, R6, R7, R8, R9, S6, S7, U4,
           R10, R11, R12, R13, W1, S8, M3, U5, S9, V1, U6, L3, M4, M5, M6, V2, E3, U8, L4, W2>>

\* ---- inhabitants (typed values in canonical type-level form)
IntVals == {Scalar("int", <<0, 1>>), Scalar("int", <<0, 2>>)}
StrVals == {Scalar("string", <<97>>), Scalar("string", <<98, 98>>)}
LinkVals == {Scalar("link", <<1, 85, 0, 3, 97, 98, 99>>)}
MapKeys == {<<107>>, <<109>>}

RECURSIVE SeqsN2(_, _)
SeqsN2(S, n) == IF n = 0 THEN {<<>>} ELSE {Append(s, x) : s \in SeqsN2(S, n - 1), x \in S}

RECURSIVE Inh(_)
RECURSIVE FieldProd(_, _)
FieldVals(f) == Inh(f.ty) \cup (IF f.opt THEN {AbsentV} ELSE {}) \cup (IF f.nul THEN {NullV} ELSE {})
FieldProd(fs, n) == IF n = 0 THEN {<<>>} ELSE {Append(s, x) : s \in FieldProd(fs, n - 1), x \in FieldVals(fs[n])}
Inh(T) ==
  CASE T.k = "int" -> (IF T.n = <<73, 56>> THEN {Scalar("int", <<0, 127>>), Scalar("int", <<1, 127>>)}           \* 127, -128
                       ELSE IF T.n = <<85, 56>> THEN {Scalar("int", <<0, 255>>), Scalar("int", <<0>>)}
                       ELSE IF T.n = <<85, 54, 52>> THEN
                              (IF Wide THEN {Scalar("int", <<0, 255, 255, 255, 255, 255, 255, 255, 255>>),
                                             Scalar("int", <<0, 128, 0, 0, 0, 0, 0, 0, 0>>), Scalar("int", <<0, 7>>)}
                               ELSE {Scalar("int", <<0, 7>>), Scalar("int", <<0, 127, 255, 255, 255, 255, 255, 255, 255>>)})
                       ELSE IntVals)
    [] T.k = "string" -> StrVals [] T.k = "bool" -> {Scalar("bool", <<1>>)}
    [] T.k = "link" -> LinkVals
    [] T.k = "enum" -> {Scalar("string", T.ms[i]) : i \in DOMAIN T.ms}
    [] T.k = "list" -> LET E == Inh(T.el) \cup (IF T.nul THEN {NullV} ELSE {})
                       IN {ListV(s) : s \in SeqsN2(E, 0) \cup SeqsN2(E, 1) \cup (IF Cardinality(E) <= 6 THEN SeqsN2(E, 2) ELSE {})}
    [] T.k = "map" -> LET E == Inh(T.val) \cup (IF T.nul THEN {NullV} ELSE {})
                      IN {MapV(<<>>, <<>>)} \cup {MapV(<<k>>, <<x>>) : k \in MapKeys, x \in E}
                         \cup (IF Cardinality(E) <= 6 THEN {MapV(<<<<109>>, <<107>>>>, <<x, y>>) : x \in E, y \in E} ELSE {})
    [] T.k = "struct" ->
         LET names == [j \in DOMAIN T.fs |-> T.fs[j].name]
             all == {MapV(names, s) : s \in FieldProd(T.fs, Len(T.fs))}
         IN IF T.repr.r = "tuple"
              THEN {tv \in all : \A i \in DOMAIN tv.vs : tv.vs[i] = AbsentV => \A j \in i..Len(tv.vs) : tv.vs[j] = AbsentV}
              ELSE all        \* a tuple can only leave out TRAILING optional fields
    [] T.k = "union" -> UNION {{MapV(<<T.ms[j].n>>, <<x>>) : x \in Inh(T.ms[j])} : j \in DOMAIN T.ms}

\* ---- local mutations of a data-model tree
OtherKind(v) == IF v.k = "int" THEN Scalar("string", <<113>>) ELSE Scalar("int", <<0, 9>>)
RECURSIVE Mut(_)
Mut(v) ==
  LET n == Len(v.vs)
      deeper == UNION {{[v EXCEPT !.vs[i] = m] : m \in Mut(v.vs[i])} : i \in DOMAIN v.vs}
      without(i) == [v EXCEPT !.vs = SubSeq(v.vs, 1, i - 1) \o SubSeq(v.vs, i + 1, n),
                              !.ks = IF v.k = "map" THEN SubSeq(v.ks, 1, i - 1) \o SubSeq(v.ks, i + 1, n) ELSE <<>>]
  IN CASE v.k = "map" ->
            deeper
            \cup {without(i) : i \in DOMAIN v.vs}                                            \* dropped
            \cup {[v EXCEPT !.ks = Append(@, v.ks[i]), !.vs = Append(@, v.vs[i])] : i \in DOMAIN v.vs}   \* duplicated
            \cup {[v EXCEPT !.ks[i] = <<113, 113>>] : i \in DOMAIN v.vs}                      \* renamed to unknown
            \cup {[v EXCEPT !.ks[i] = k] : i \in DOMAIN v.vs, k \in {<<97>>, <<120>>, <<105>>, <<121>>}}   \* renamed to a name that may exist
            \cup {[v EXCEPT !.vs[i] = NullV] : i \in DOMAIN v.vs}                             \* nulled
            \cup {[v EXCEPT !.vs[i] = OtherKind(v.vs[i])] : i \in DOMAIN v.vs}                \* retyped
            \cup {[v EXCEPT !.ks = Append(@, <<113>>), !.vs = Append(@, Scalar("int", <<0, 1>>))]}   \* extra entry
            \cup (IF n >= 2 THEN {[v EXCEPT !.ks = <<@[2], @[1]>> \o SubSeq(@, 3, n), !.vs = <<@[2], @[1]>> \o SubSeq(@, 3, n)]} ELSE {})
            \cup {Scalar("string", <<97>>), ListV(<<>>)}
       [] v.k = "list" ->
            deeper
            \cup {without(i) : i \in DOMAIN v.vs}
            \cup {[v EXCEPT !.vs = Append(@, x)] : x \in {Scalar("int", <<0, 1>>), Scalar("string", <<97>>), NullV}}
            \cup {[v EXCEPT !.vs[i] = NullV] : i \in DOMAIN v.vs}
            \cup {[v EXCEPT !.vs[i] = OtherKind(v.vs[i])] : i \in DOMAIN v.vs}
            \cup (IF n >= 2 THEN {[v EXCEPT !.vs = <<@[2], @[1]>> \o SubSeq(@, 3, n)]} ELSE {})
            \cup {MapV(<<>>, <<>>), Scalar("int", <<0, 1>>)}
       [] OTHER -> {OtherKind(v), NullV, MapV(<<>>, <<>>), Scalar("string", <<58>>), Scalar("string", <<115, 58>>),
                    Scalar("string", <<97, 58, 98, 58, 99>>), Scalar("int", <<0, 7>>), Scalar("string", <<89, 101, 115>>),
                    Scalar("string", <<122>>), Scalar("int", <<0>>)}

RECURSIVE VWeight(_)
VWeight(x) == Len(x.a) * 3 + Len(x.vs) * 5 + Len(x.k) +
             (LET F[i \in 0..Len(x.vs)] == IF i = 0 THEN 0 ELSE F[i - 1] * 3 + VWeight(x.vs[i]) + (IF x.k = "map" THEN Len(x.ks[i]) ELSE 0)
              IN F[Len(x.vs)])

=============================================================================
