----------------------------- MODULE DataModel -----------------------------
(***************************************************************************)
(* Abstract IPLD data-model values, shared by every module of the suite.   *)
(*                                                                         *)
(* Every value has the SAME record shape so that TLC can compare any two   *)
(* values (TLC raises an error when it compares a string with a number,    *)
(* so heterogeneous shapes are avoided on purpose):                        *)
(*                                                                         *)
(*    [k  : kind name,                                                     *)
(*     a  : payload, a sequence of naturals (bytes or a symbol number),    *)
(*     ks : for maps the sequence of keys (each a sequence of naturals),   *)
(*     vs : for maps and lists the sequence of child values]               *)
(*                                                                         *)
(* Map entry i is (ks[i], vs[i]); the order of the sequences is the        *)
(* insertion / iteration order, which the data model makes observable.     *)
(*                                                                         *)
(* Payload conventions (the Go side, harness/model, follows the same):     *)
(*   null   <<>>             bool <<0>> | <<1>>                            *)
(*   int    <<sign>> \o big-endian minimal magnitude bytes of ARG where    *)
(*          sign=0: value = ARG, sign=1: value = -1-ARG  (CBOR's view)     *)
(*   float  <<8 IEEE-754 bytes>>  (opaque to TLA+)                         *)
(*   string / bytes  the content bytes;   link  the binary CID             *)
(* In the protocol modules payloads are one-element "symbols" <<n>> that   *)
(* the harness concretises through a profile table.                        *)
(***************************************************************************)
EXTENDS Integers, Sequences, FiniteSets, TLC

Mk(k, a, ks, vs) == [k |-> k, a |-> a, ks |-> ks, vs |-> vs]
Nil          == Mk("nil", <<>>, <<>>, <<>>)      \* "no value" marker, not a data-model value
Scalar(k, a) == Mk(k, a, <<>>, <<>>)
MapV(ks, vs) == Mk("map", <<>>, ks, vs)
ListV(vs)    == Mk("list", <<>>, <<>>, vs)
NullV        == Scalar("null", <<>>)
AbsentV      == Scalar("absent", <<>>)           \* schema-level "absent" (never encodable)

ScalarKinds    == {"null", "bool", "int", "float", "string", "bytes", "link"}
RecursiveKinds == {"map", "list"}
Kinds          == ScalarKinds \cup RecursiveKinds

Range(s) == {s[i] : i \in DOMAIN s}
NoDup(s) == \A i, j \in DOMAIN s : s[i] = s[j] => i = j

RECURSIVE WellFormed(_)
WellFormed(v) ==
  /\ v.k \in Kinds
  /\ v.k \in ScalarKinds => v.ks = <<>> /\ v.vs = <<>>
  /\ v.k = "list" => v.ks = <<>> /\ \A i \in DOMAIN v.vs : WellFormed(v.vs[i])
  /\ v.k = "map"  => /\ Len(v.ks) = Len(v.vs)
                     /\ NoDup(v.ks)
                     /\ \A i \in DOMAIN v.vs : WellFormed(v.vs[i])

RECURSIVE Size(_)
Size(v) == IF v.k \in RecursiveKinds
             THEN 1 + (LET F[i \in 0..Len(v.vs)] == IF i = 0 THEN 0 ELSE F[i-1] + Size(v.vs[i])
                       IN F[Len(v.vs)])
             ELSE 1

RECURSIVE Depth(_)
Depth(v) == IF v.k \in RecursiveKinds /\ v.vs # <<>>
              THEN 1 + (CHOOSE m \in {Depth(v.vs[i]) : i \in DOMAIN v.vs} :
                          \A i \in DOMAIN v.vs : Depth(v.vs[i]) <= m)
              ELSE 0

(***************************************************************************)
(* The observation vector: everything a reader can learn through the node  *)
(* API.  Results are themselves uniform records [r: result class, v: ...]. *)
(***************************************************************************)
Ok(v)     == [r |-> "ok", v |-> v]
Err(c)    == [r |-> c, v |-> Nil]

ObsLength(v) == IF v.k \in RecursiveKinds THEN Len(v.vs) ELSE -1

ObsLookupByKey(v, key) ==
  IF v.k # "map" THEN Err("wrong_kind")
  ELSE IF \E i \in DOMAIN v.ks : v.ks[i] = key
         THEN Ok(v.vs[CHOOSE i \in DOMAIN v.ks : v.ks[i] = key])
         ELSE Err("not_exists")

ObsLookupByIndex(v, i) ==
  IF v.k # "list" THEN Err("wrong_kind")
  ELSE IF i >= 0 /\ i < Len(v.vs) THEN Ok(v.vs[i + 1]) ELSE Err("not_exists")

ObsMapIter(v)  == IF v.k = "map" THEN [i \in DOMAIN v.ks |-> <<v.ks[i], v.vs[i]>>] ELSE <<>>
ObsListIter(v) == IF v.k = "list" THEN v.vs ELSE <<>>

\* As<Kind> accessor: the payload when the kind matches, wrong_kind otherwise (never a panic).
ObsAs(v, kind) == IF v.k = kind THEN Ok(Scalar(kind, v.a)) ELSE Err("wrong_kind")

(***************************************************************************)
(* Internal agreement of the read forms (C01): every formulation of "what  *)
(* is in this node" tells the same story.  Checked by TLC for every value  *)
(* the bounded instances build.                                            *)
(***************************************************************************)
ObsAgree(v, KeyUniverse) ==
  /\ v.k = "map" =>
       /\ ObsLength(v) = Len(ObsMapIter(v))
       /\ \A i \in DOMAIN v.ks : ObsLookupByKey(v, v.ks[i]) = Ok(ObsMapIter(v)[i][2])
       /\ \A key \in KeyUniverse \ Range(v.ks) : ObsLookupByKey(v, key).r = "not_exists"
  /\ v.k = "list" =>
       /\ ObsLength(v) = Len(ObsListIter(v))
       /\ \A i \in 0..(Len(v.vs) - 1) : ObsLookupByIndex(v, i) = Ok(ObsListIter(v)[i + 1])
       /\ ObsLookupByIndex(v, Len(v.vs)).r = "not_exists"
       /\ ObsLookupByIndex(v, -1).r = "not_exists"
  /\ v.k \in ScalarKinds =>
       /\ ObsLength(v) = -1
       /\ \A kind \in ScalarKinds : (ObsAs(v, kind).r = "ok") <=> (kind = v.k)

\* DeepEqual as documented: order-sensitive structural equality.
Eq(v, w) == v = w

(***************************************************************************)
(* Sequence helpers used across the suite.                                 *)
(***************************************************************************)
RECURSIVE SeqLess(_, _)      \* bytewise lexicographic, strict
SeqLess(s, t) ==
  IF s = <<>> THEN t # <<>>
  ELSE IF t = <<>> THEN FALSE
  ELSE IF s[1] # t[1] THEN s[1] < t[1]
  ELSE SeqLess(Tail(s), Tail(t))

\* key orders: "bytewise" (DAG-JSON) and "lenfirst" (DAG-CBOR: shorter first, then bytewise)
KeyLess(mode, s, t) ==
  IF mode = "lenfirst" /\ Len(s) # Len(t) THEN Len(s) < Len(t) ELSE SeqLess(s, t)

\* insertion sort of the index sequence 1..n by a strict order on keys
RECURSIVE InsertIdx(_, _, _, _)
InsertIdx(sorted, i, ks, mode) ==
  IF sorted = <<>> THEN <<i>>
  ELSE IF KeyLess(mode, ks[i], ks[sorted[1]]) THEN <<i>> \o sorted
  ELSE <<sorted[1]>> \o InsertIdx(Tail(sorted), i, ks, mode)

RECURSIVE SortIdx(_, _, _)
SortIdx(n, ks, mode) ==
  IF n = 0 THEN <<>> ELSE InsertIdx(SortIdx(n - 1, ks, mode), n, ks, mode)

Permute(s, idx) == [i \in DOMAIN idx |-> s[idx[i]]]

\* all permutations of 1..n as sequences
\* canonical re-ordering of every map in a value (what a key-sorting codec round trip yields)
RECURSIVE Sorted(_, _)
Sorted(v, mode) ==
  IF v.k = "map" THEN
    LET idx == SortIdx(Len(v.ks), v.ks, mode)
    IN MapV(Permute(v.ks, idx), [i \in DOMAIN idx |-> Sorted(v.vs[idx[i]], mode)])
  ELSE IF v.k = "list" THEN ListV([i \in DOMAIN v.vs |-> Sorted(v.vs[i], mode)])
  ELSE v

RECURSIVE Perms(_)
Perms(S) == IF S = {} THEN {<<>>}
            ELSE UNION {{<<x>> \o p : p \in Perms(S \ {x})} : x \in S}
=============================================================================
