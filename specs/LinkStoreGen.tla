---------------------------- MODULE LinkStoreGen ----------------------------
EXTENDS LinkStore, Json
Pos(k, n) == IF k = 0 THEN "none" ELSE IF k = 1 THEN "first" ELSE IF k = n THEN "last" ELSE "middle"
Emit == Done => PrintT(ToJson([failat |-> Pos(failAt, nw), encfail |-> (encFailAfter >= 0),
                               openfails |-> openFails, r |-> ret, committed |-> committed]))
=============================================================================
