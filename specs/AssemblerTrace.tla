--------------------------- MODULE AssemblerTrace ---------------------------
(***************************************************************************)
(* Trace validation (code -> specification) for Assembler.tla: long random *)
(* sessions of assembler calls recorded from the real builders (hundreds   *)
(* of calls, nesting up to 6, repeated keys, AssignNode of nodes from      *)
(* several implementations, Build / Reset / reuse) are accepted only if    *)
(* every call returned the result class the protocol machine prescribes in *)
(* the state it was in, and every node returned by Build reads back as the *)
(* value the machine holds.  The invariants of Assembler.tla are evaluated *)
(* in every state of the trace.  Sessions are concatenated; a "reset"      *)
(* event starts a fresh builder.                                           *)
(*                                                                         *)
(* One event per public call; the event's arguments select the action, the *)
(* logged result selects between an action and its rejection twin.         *)
(***************************************************************************)
EXTENDS Assembler, Json, TLC

Tr == ndJsonDeserialize("trace.ndjson")

VARIABLE l
Ev == Tr[l]

TraceInit == Init /\ l = 1

Fresh ==
  /\ stack' = <<>> /\ pc' = "open" /\ cur' = Nil /\ results' = <<>>
  /\ nodes' = 0 /\ rejects' = 0 /\ resets' = 0 /\ ret' = "" /\ hist' = <<>>

\* the result class the implementation returned is the one the action taken prescribes, and every node the
\* session's builder has returned so far still reads as it did (the recorder re-reads them after every call):
\* the implementation's side of FinishedNeverChanges
Agrees == ret' = Ev.r /\ Ev.stable

TraceNext ==
  /\ l <= Len(Tr) /\ l' = l + 1
  /\ \/ Ev.a = "reset" /\ Fresh
     \/ Ev.a = "BeginMap" /\ (Begin("map", 0) \/ TopWrongKindBegin("map")) /\ Agrees
     \/ Ev.a = "BeginList" /\ (Begin("list", 0) \/ TopWrongKindBegin("list")) /\ Agrees
     \/ Ev.a = "AssembleKey" /\ AssembleKey /\ Agrees
     \/ Ev.a = "KeyAssignString" /\ (KeyAssign(Ev.key, "keyvalue") \/ KeyRejectDup(Ev.key, "keyvalue")) /\ Agrees
     \/ Ev.a = "KeyAssignNode" /\ (KeyAssign(Ev.key, "keynode") \/ KeyRejectDup(Ev.key, "keynode")) /\ Agrees
     \/ Ev.a = "AssembleValue" /\ AssembleValue /\ Agrees
     \/ Ev.a = "AssembleEntry" /\ (AssembleEntry(Ev.key) \/ EntryRejectDup(Ev.key)) /\ Agrees
     \/ Ev.a = "ListAssembleValue" /\ ListAssembleValue /\ Agrees
     \/ Ev.a = "AssignScalar" /\ (AssignScalar(Ev.v) \/ TopWrongKindScalar(Ev.v)) /\ Agrees
     \/ Ev.a = "AssignNode" /\ LET p == [v |-> Ev.v, impl |-> Ev.impl] IN (AssignNode(p) \/ TopWrongKindNode(p)) /\ Agrees
     \/ Ev.a = "Finish" /\ Finish /\ Agrees
     \/ Ev.a = "Build" /\ Build /\ Agrees /\ cur = Ev.v      \* the node returned reads back as the machine's value
     \/ Ev.a = "Reset" /\ Reset /\ Agrees

TraceSpec == TraceInit /\ [][TraceNext]_<<vars, l>>

TraceAccepted ==
  LET d == TLCGet("stats").diameter IN
  IF d - 1 = Len(Tr) THEN TRUE
  ELSE Print(<<"TRACE-REJECTED at event", d, Tr[d]>>, FALSE)
=============================================================================
