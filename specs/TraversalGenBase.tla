-------------------------- MODULE TraversalGenBase --------------------------
(* The graph catalogue and the selector enumeration shared by the traversal and transform instances *)
(* (no variables).                                                                                   *)
EXTENDS Selector

CONSTANTS Mode, SelDepth, Shard, NShards, Sample

a == <<97>>  b == <<98>>  c == <<99>>  k0 == <<48>>  k1 == <<49>>
I(n) == Scalar("int", IF n = 0 THEN <<0>> ELSE <<0, n>>)
S(bytes) == Scalar("string", bytes)
B(bytes) == Scalar("bytes", bytes)
L(blk) == Scalar("link", <<blk>>)

\* ---- graphs: sequences of blocks, block 1 is the root
G1 == << MapV(<<a, b, c>>, << I(1), ListV(<<I(10), S(<<104, 101, 108, 108, 111>>), ListV(<<I(7)>>)>>),
                             MapV(<<a, k0>>, <<B(<<1, 2, 3, 4>>), NullV>>) >>) >>
G2 == << MapV(<<a, b, c>>, << L(2), L(2), ListV(<<L(3), I(5)>>) >>),
         MapV(<<a, b>>, << S(<<115, 116, 114>>), L(3) >>),
         S(<<108, 101, 97, 102>>) >>
G3 == << ListV(<< MapV(<<a>>, <<I(1)>>), ListV(<<>>), MapV(<<>>, <<>>), S(<<115>>), L(2) >>),
         ListV(<<I(1), I(2), I(3)>>) >>
G4 == << MapV(<<a>>, << MapV(<<a>>, << MapV(<<a>>, <<MapV(<<a, b>>, <<I(7), I(8)>>)>>) >>) >>) >>
G5 == << MapV(<<a, b>>, <<L(2), I(0)>>), MapV(<<a, b>>, <<L(3), I(1)>>), MapV(<<a, b>>, <<L(4), I(2)>>),
         MapV(<<b>>, <<I(3)>>) >>
G6 == << MapV(<<k1, k0, a>>, << I(1), ListV(<<I(2), I(3)>>), ListV(<<L(2), L(2)>>) >>), ListV(<<S(<<120, 121, 122>>)>>) >>
G7 == << S(<<114, 111, 111, 116>>) >>
\* the same link deep first (beyond a recursion limit) and shallow later
G8 == << MapV(<<a, b>>, << MapV(<<a>>, <<MapV(<<a>>, <<L(2)>>)>>), L(2) >>), MapV(<<a>>, <<S(<<120>>)>>) >>
\* the empty string as a map key, also beyond a link
e == <<>>
G9 == << MapV(<<e, b>>, << MapV(<<a, e>>, <<I(1), ListV(<<I(2)>>)>>), L(2) >>), MapV(<<e, a>>, <<MapV(<<e>>, <<I(3)>>), I(4)>>) >>
Graphs == <<G1, G2, G3, G4, G5, G6, G7, G8, G9>>

\* ---- selectors
Leaves == {SMatch, SSubset(1, 3), SSubset(-3, -1)}
KeysU == {a, b, k0, <<>>}
Small(X) == {x \in X : x.t \in {"match", "edge"} \/ (x.t = "all" /\ x.ss[1].t = "match")}

Layer(X) ==
  {SAll(x) : x \in X}
  \cup {SIndex(i, x) : i \in {0, 1}, x \in X}
  \cup {SRange(p[1], p[2], x) : p \in {<<0, 2>>, <<1, 3>>}, x \in X}
  \cup {SFields(<<k>>, <<x>>) : k \in KeysU, x \in X}
  \cup {SFields(p, <<x, y>>) : p \in {<<b, a>>, <<a, k0>>}, x \in X, y \in Small(X)}
  \cup {SUnion(<<x, y>>) : x \in X, y \in Small(X) \cup {z \in X : z.t \in {"fields", "index"} /\ z.ss[1].t \in {"match", "edge"}}}

RECURSIVE Open(_)
Open(d) == IF d = 0 THEN Leaves \cup {SEdge} ELSE Open(d - 1) \cup Layer(Open(d - 1))

Limits == {1, 2, -1}
Stops(g) == {-1} \cup (IF Len(g) >= 2 THEN {2} ELSE {})

RECURSIVE Closed(_, _)
Closed(d, g) ==
  IF d = 0 THEN Leaves
  ELSE Closed(d - 1, g) \cup Layer(Closed(d - 1, g))
       \cup {SRec(l, st, q) : l \in Limits, st \in Stops(g), q \in {x \in Open(d - 1) : CountEdges(x) > 0}}

NoCfg == [nb |-> -1, lb |-> -1, start |-> <<>>, once |-> FALSE, skip |-> {}]

\* cheap structural hash for sharding
RECURSIVE SelWeight(_)
SelWeight(s) == Len(s.t) + Len(s.a) * 3 + Len(s.ks) * 5 +
                (LET F[i \in 0..Len(s.ss)] == IF i = 0 THEN 0 ELSE F[i - 1] * 7 + SelWeight(s.ss[i]) IN F[Len(s.ss)])

\* C07 / C14: every selector that compiles, every graph, no controls
\* (sharded by graph, so that each shard builds the selector set once)
MyGraphs == {gi \in DOMAIN Graphs : gi % NShards = Shard}
\* shapes beyond the depth bound that the enumeration cannot reach: a recursion whose body is a union with a BARE edge
\* next to members that explore (the edge member is asked to Explore), edges at several depths of one recursion,
\* a recursion inside a recursion
ExtraSels(g) ==
  UNION {{SRec(l, -1, SUnion(<<SEdge, SAll(SMatch)>>)), SRec(l, -1, SUnion(<<SAll(SEdge), SEdge>>)),
          SRec(l, -1, SUnion(<<SMatch, SEdge, SFields(<<a>>, <<SAll(SEdge)>>)>>)),
          SRec(l, -1, SAll(SUnion(<<SEdge, SAll(SEdge)>>))),
          SRec(l, -1, SUnion(<<SAll(SEdge), SFields(<<a>>, <<SRec(1, -1, SUnion(<<SMatch, SAll(SEdge)>>))>>)>>))}
         : l \in Limits}
  \* ExploreInterpretAs where the walk unwraps it: at the root, as the `next` of all / fields / index / range, as what a
  \* recursion's edge comes back to; twice in a row; and where it does NOT: as a member of a union
  \cup {SAs(SMatch), SAs(SAll(SMatch)), SAs(SAll(SAll(SMatch))), SAll(SAs(SAll(SMatch))), SAs(SIndex(0, SAll(SMatch))),
        SAs(SRange(0, 2, SMatch)), SFields(<<a>>, <<SAs(SAll(SMatch))>>), SAs(SFields(<<b, a>>, <<SMatch, SAll(SMatch)>>)),
        SAs(SAs(SAll(SMatch))), SAll(SAs(SIndex(1, SMatch))), SAs(SSubset(1, 3)),
        SUnion(<<SAs(SAll(SMatch)), SMatch>>), SAs(SUnion(<<SMatch, SAll(SAll(SMatch))>>))}
  \cup UNION {{SRec(l, -1, SAll(SAs(SEdge))), SAs(SRec(l, -1, SUnion(<<SMatch, SAll(SEdge)>>))),
               SRec(l, -1, SAs(SAll(SEdge))), SRec(l, -1, SUnion(<<SMatch, SAll(SAs(SEdge))>>))} : l \in Limits}
  \* ranges wider than the number of indices the compiled selector is willing to list (it then states no interests)
  \cup {SRange(1, 5000, SMatch), SAll(SRange(0, 4200, SAll(SMatch))), SUnion(<<SRange(1, 5000, SMatch), SFields(<<a>>, <<SMatch>>)>>)}
  \* a stop-at condition that has to survive the steps of a sequence that are NOT edges
  \cup UNION {{SRec(l, st, SAll(SAll(SEdge))), SRec(l, st, SFields(<<a>>, <<SAll(SEdge)>>)),
               SRec(l, st, SAll(SFields(<<a>>, <<SEdge>>))), SRec(l, st, SUnion(<<SMatch, SAll(SAll(SEdge))>>)),
               SRec(l, st, SFields(<<a, b>>, <<SAll(SEdge), SEdge>>))}
              : l \in Limits, st \in Stops(g) \ {-1}}
CasesPlain(dummy) ==
  UNION {{[g |-> Graphs[gi], sel |-> s, cfg |-> NoCfg] :
            s \in {x \in Closed(SelDepth, Graphs[gi]) \cup ExtraSels(Graphs[gi]) : Compiles(x, FALSE)}}
         : gi \in MyGraphs}

\* C07 again, under visit-links-once: the same selectors on the graphs that have links (a link that is met first where
\* the selector does not explore it and later where it does must still be loaded and visited there)
CasesPlainOnce(dummy) ==
  UNION {{[g |-> Graphs[gi], sel |-> s, cfg |-> [NoCfg EXCEPT !.once = TRUE]] :
            s \in {x \in Closed(SelDepth, Graphs[gi]) : Compiles(x, FALSE)}}
         : gi \in {x \in MyGraphs : Len(Graphs[x]) >= 2}}

\* C15: a set of walk-everything / recursive / field selectors x every control, one at a time
CtlSels(g) ==
  { SRec(-1, -1, SAll(SEdge)), SRec(2, -1, SAll(SEdge)), SRec(3, -1, SUnion(<<SMatch, SAll(SEdge)>>)),
    SAll(SAll(SMatch)), SFields(<<b, a>>, <<SAll(SMatch), SRec(-1, -1, SAll(SEdge))>>),
    SRec(-1, -1, SUnion(<<SFields(<<a>>, <<SEdge>>), SIndex(0, SEdge)>>)) }
    \cup (IF Len(g) >= 2 THEN {SRec(-1, 2, SAll(SEdge))} ELSE {})

RECURSIVE PathsOf(_, _, _)      \* all paths of the graph up to depth d (links followed)
PathsOf(g, n, d) ==
  LET m == IF n.k = "link" THEN g[n.a[1]] ELSE n IN
  IF d = 0 \/ m.k \notin RecursiveKinds THEN {<<>>}
  ELSE {<<>>} \cup UNION {{<<Children(m)[i][1]>> \o p : p \in PathsOf(g, Children(m)[i][2], d - 1)} : i \in DOMAIN Children(m)}

BlockSets(g) == {{}} \cup {{x} : x \in 2..Len(g)} \cup {{x, y} : x, y \in 2..Len(g)}

Cfgs(g) ==
  {[NoCfg EXCEPT !.nb = n] : n \in 0..10}
  \cup {[NoCfg EXCEPT !.lb = n] : n \in 0..4}
  \cup {[NoCfg EXCEPT !.start = p] : p \in PathsOf(g, g[1], 3) \ {<<>>}}
  \cup {[NoCfg EXCEPT !.once = TRUE]}
  \cup {[NoCfg EXCEPT !.skip = bs] : bs \in BlockSets(g) \ {{}}}
  \cup {NoCfg}

CasesCtl(dummy) ==
  UNION {{[g |-> Graphs[gi], sel |-> s, cfg |-> cf] : s \in CtlSels(Graphs[gi]), cf \in Cfgs(Graphs[gi])}
         : gi \in MyGraphs}

\* C15, thorough tier: the controls over a hashed sample of ALL depth-2 selectors
CasesCtl2(dummy) ==
  UNION {{[g |-> Graphs[gi], sel |-> s, cfg |-> cf] :
            s \in {x \in Closed(2, Graphs[gi]) : SelWeight(x) % 41 = Sample /\ Compiles(x, FALSE)}, cf \in Cfgs(Graphs[gi])}
         : gi \in MyGraphs}

\* subset matchers with every sign combination of the bounds, on their own and under recursion
SubsetSels == {x \in {SSubset(f, t) : f \in {-9, -3, -1, 0, 1, 2, 5, 9}, t \in {-9, -4, -1, 0, 1, 3, 5, 9}} : Compiles(x, FALSE)}
CasesSubset(dummy) ==
  UNION {{[g |-> Graphs[gi], sel |-> s, cfg |-> NoCfg] :
            s \in UNION {{x, SAll(SAll(x)), SRec(-1, -1, SUnion(<<x, SAll(SEdge)>>))} : x \in SubsetSels}}
         : gi \in MyGraphs}

\* depth 3: one more layer over a hashed sample of the depth-2 selectors
CasesPlain3(dummy) ==
  UNION {{[g |-> Graphs[gi], sel |-> s, cfg |-> NoCfg] :
            s \in {x \in Layer({y \in Closed(2, Graphs[gi]) : SelWeight(y) % 23 = Sample}) : Compiles(x, FALSE)}}
         : gi \in MyGraphs}

=============================================================================
