----------------------------- MODULE FsStoreGen -----------------------------
(* Scenario instances of FsStore + behaviour emission for schedule / crash / fault replay. *)
EXTENDS FsStore, Json

CONSTANT Scenario

\* chunk ids: writer contents.  Two writers of the same key carry the same content (content addressing).
C1 == <<1, 2>>
C2 == <<3>>

ScNW == CASE Scenario \in {"crash-put", "crash-stream", "crash-abort"} -> 2
          [] Scenario \in {"fault-put", "fault-stream", "fault-abort"} -> 1
          [] Scenario \in {"cancel-put", "cancel-stream"} -> 2
          [] Scenario \in {"race-samekey", "race-samedir", "race-mixed"} -> 2
          [] Scenario = "race-3" -> 3
ScNR == 1
ScNK == 2
ScWKey == CASE Scenario \in {"crash-put", "crash-stream", "crash-abort", "fault-put", "fault-stream", "fault-abort", "race-samekey",
                              "cancel-put", "cancel-stream"} -> <<1, 1, 1>>
            [] Scenario \in {"race-samedir", "race-mixed"} -> <<1, 2, 1>>
            [] Scenario = "race-3" -> <<1, 2, 1>>
ScWChunks == CASE Scenario \in {"race-samedir", "race-mixed", "race-3"} -> <<C1, C2, C1>>
               [] OTHER -> <<C1, C1, C1>>
ScWMode == CASE Scenario = "crash-put" -> <<"put", "put", "put">>
             [] Scenario = "crash-stream" -> <<"stream", "put", "put">>
             [] Scenario = "crash-abort" -> <<"abort", "put", "put">>
             [] Scenario = "fault-put" -> <<"put", "put", "put">>
             [] Scenario = "fault-stream" -> <<"stream", "abort", "put">>
             [] Scenario = "fault-abort" -> <<"abort", "abort", "put">>
             [] Scenario = "race-samekey" -> <<"put", "put", "put">>
             [] Scenario = "cancel-put" -> <<"put", "put", "put">>
             [] Scenario = "cancel-stream" -> <<"stream", "put", "put">>
             [] Scenario = "race-samedir" -> <<"put", "put", "put">>
             [] Scenario = "race-mixed" -> <<"stream", "abort", "put">>
             [] Scenario = "race-3" -> <<"put", "stream", "put">>
ScWPhase == CASE Scenario \in {"crash-put", "crash-stream", "crash-abort"} -> <<1, 2, 2>>
              [] OTHER -> <<1, 1, 1>>
ScRKey == CASE Scenario \in {"race-samedir", "race-3"} -> <<2>> [] OTHER -> <<1>>
ScRPhase == CASE Scenario \in {"crash-put", "crash-stream", "crash-abort"} -> <<2>> [] OTHER -> <<1>>
ScDirOf == <<1, 1>>      \* both keys live in the same shard directory
ScMaxCrashes == IF Scenario \in {"crash-put", "crash-stream", "crash-abort", "race-3"} THEN 1 ELSE 0
ScMaxCancels == IF Scenario \in {"cancel-put", "cancel-stream"} THEN 1 ELSE 0
ScMaxFaults == IF Scenario \in {"fault-put", "fault-stream", "fault-abort", "race-mixed", "race-3"} THEN 1 ELSE 0

Emit == Done => PrintT(ToJson([scenario |-> Scenario, steps |-> hist,
                               wkey |-> WKey, wchunks |-> WChunks, wmode |-> WMode, wphase |-> WPhase,
                               rkey |-> RKey, rphase |-> RPhase, dirof |-> DirOf,
                               wret |-> wret, rres |-> rres]))
=============================================================================
