---------------------------- MODULE AssemblerGen ----------------------------
(* Instance of Assembler with concrete constant sets + behaviour emission.   *)
EXTENDS Assembler, Json

CONSTANTS NKeys, ScalarKindsUsed, PrebuiltMode, HintMode

K(n) == <<n>>
GenHints == IF HintMode = "zero" THEN {0} ELSE {-1, 0, 1, 7}   \* cfg files cannot hold negative numbers
GenKeys == {K(n) : n \in 1..NKeys}
GenScalars == {Scalar(kind, <<1>>) : kind \in ScalarKindsUsed}
\* prebuilt nodes handed to AssignNode: a scalar, an empty map, a one-entry map, a list; each
\* from several implementations (the harness builds v in implementation impl first)
GenPrebuilt ==
  IF PrebuiltMode = "none" THEN {}
  ELSE LET vals == {Scalar("string", <<2>>), MapV(<<>>, <<>>),
                    MapV(<<K(1)>>, <<Scalar("int", <<2>>)>>),
                    ListV(<<Scalar("int", <<2>>)>>)}
           impls == IF PrebuiltMode = "basic" THEN {"basic"} ELSE {"basic", "foreign", "bind"}
       IN {[v |-> v, impl |-> i] : v \in vals, i \in impls}
          \cup (IF PrebuiltMode = "all+uint"
                  THEN {[v |-> Scalar("int", <<100>>), impl |-> "basic"],
                        [v |-> ListV(<<Scalar("int", <<101>>)>>), impl |-> "basic"]}
                  ELSE {})

Emit == Complete => PrintT(ToJson([steps |-> hist, results |-> results, pc |-> pc, abort |-> AbortsAt(hist)]))
=============================================================================
