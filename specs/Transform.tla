------------------------------ MODULE Transform ------------------------------
(***************************************************************************)
(* Functional-update semantics of traversal.FocusedTransform and           *)
(* traversal.WalkTransforming (C16), stated on the EXPANDED tree of a      *)
(* graph: every link node carries, as its single child, the expanded root  *)
(* of the block it points at.  A transform returns the expanded tree with  *)
(* exactly the targeted positions replaced / inserted / removed; link      *)
(* wrappers on the way stay links (the changed block is stored again and   *)
(* re-linked), everything else is untouched.                               *)
(***************************************************************************)
EXTENDS Selector

RECURSIVE Expand(_, _)
Expand(g, v) ==
  IF v.k = "link" THEN Mk("link", v.a, <<>>, <<Expand(g, g[v.a[1]])>>)
  ELSE IF v.k \in RecursiveKinds THEN [v EXCEPT !.vs = [i \in DOMAIN v.vs |-> Expand(g, v.vs[i])]]
  ELSE v

OkR(v) == [ok |-> TRUE, v |-> v]
ErrR == [ok |-> FALSE, v |-> Nil]
DASH == <<45>>

\* op = [t: "id" | "repl" | "rm", v: replacement]; cp = createParents
\* result v = Nil means "this position is removed"
RECURSIVE Chain(_, _)     \* missing parents: nested single-entry maps down to the new value
Chain(path, v) == IF path = <<>> THEN v ELSE MapV(<<path[1]>>, <<Chain(Tail(path), v)>>)

RECURSIVE Upd(_, _, _, _)
Upd(n, path, op, cp) ==
  IF path = <<>> THEN
    (IF op.t = "id" THEN OkR(n) ELSE IF op.t = "repl" THEN OkR(op.v) ELSE OkR(Nil))
  ELSE IF n.k = "link" THEN
    LET r == Upd(n.vs[1], path, op, cp) IN IF r.ok THEN OkR([n EXCEPT !.vs = <<r.v>>]) ELSE ErrR
  ELSE IF n.k = "map" THEN
    LET seg == path[1] IN
    IF \E i \in DOMAIN n.ks : n.ks[i] = seg THEN
      LET i == CHOOSE i \in DOMAIN n.ks : n.ks[i] = seg
          r == Upd(n.vs[i], Tail(path), op, cp)
      IN IF ~r.ok THEN ErrR
         ELSE IF r.v = Nil THEN OkR(MapV(SubSeq(n.ks, 1, i - 1) \o SubSeq(n.ks, i + 1, Len(n.ks)),
                                         SubSeq(n.vs, 1, i - 1) \o SubSeq(n.vs, i + 1, Len(n.vs))))
         ELSE OkR([n EXCEPT !.vs[i] = r.v])
    ELSE IF op.t # "repl" THEN ErrR                 \* only insertion makes sense at a missing position
    ELSE IF Len(path) > 1 /\ ~cp THEN ErrR           \* parent position does not exist
    ELSE OkR(MapV(Append(n.ks, seg), Append(n.vs, Chain(Tail(path), op.v))))
  ELSE IF n.k = "list" THEN
    LET seg == path[1] IN
    IF seg = DASH THEN
      (IF op.t = "repl" /\ Len(path) = 1 THEN OkR(ListV(Append(n.vs, op.v))) ELSE ErrR)
    ELSE IF IsIdxSeg(seg) /\ SegIdx(seg) < Len(n.vs) THEN
      LET i == SegIdx(seg) + 1
          r == Upd(n.vs[i], Tail(path), op, cp)
      IN IF ~r.ok THEN ErrR
         ELSE IF r.v = Nil THEN OkR(ListV(SubSeq(n.vs, 1, i - 1) \o SubSeq(n.vs, i + 1, Len(n.vs))))
         ELSE OkR([n EXCEPT !.vs[i] = r.v])
    ELSE ErrR                                        \* beyond the bounds, or not a number
  ELSE ErrR                                          \* a scalar: cannot go deeper

\* what the callback is shown: the node currently at the target (Nil when nothing is there)
RECURSIVE At(_, _)
At(n, path) ==
  IF path = <<>> THEN n
  ELSE IF n.k = "link" THEN At(n.vs[1], path)
  ELSE IF n.k = "map" /\ \E i \in DOMAIN n.ks : n.ks[i] = path[1]
         THEN At(n.vs[CHOOSE i \in DOMAIN n.ks : n.ks[i] = path[1]], Tail(path))
  ELSE IF n.k = "list" /\ IsIdxSeg(path[1]) /\ SegIdx(path[1]) < Len(n.vs)
         THEN At(n.vs[SegIdx(path[1]) + 1], Tail(path))
  ELSE Nil

------------------------------------------------------------------------------
(* the walking transform: every node the selector matches is offered to the callback F; a node   *)
(* that F changes is replaced and not descended into; everything else is rebuilt from its         *)
(* (transformed) children, links staying links                                                    *)
RECURSIVE Decides(_)
Decides(s) == CASE s.t \in {"match", "subset"} -> TRUE
                [] s.t = "union" -> \E i \in DOMAIN s.ss : Decides(s.ss[i])
                [] s.t = "rec" -> Decides(s.ss[1])
                [] s.t = "recst" -> Decides(s.ss[2])
                [] OTHER -> FALSE

\* the callback used by the instances: integers become the string "X", everything else is left alone
F(n) == IF n.k = "int" THEN Scalar("string", <<88>>) ELSE n

SegOfChild(n, i) == IF n.k = "map" THEN n.ks[i] ELSE IdxSeg(i - 1)
InAttn(attn, seg) == attn = ALL \/ \E j \in DOMAIN attn : attn[j] = seg

RECURSIVE WT(_, _)
WT(n, s) ==
  IF n.k = "link" THEN [n EXCEPT !.vs = <<WT(n.vs[1], s)>>]      \* walk into the block, keep the link
  ELSE IF Decides(s) /\ F(n) # n THEN F(n)
  ELSE IF n.k \in RecursiveKinds THEN
    LET attn == Interests(s) IN
    [n EXCEPT !.vs = [i \in DOMAIN n.vs |->
        LET seg == SegOfChild(n, i)
            raw == IF n.vs[i].k = "link" THEN Scalar("link", n.vs[i].a) ELSE n.vs[i]
            sn == IF InAttn(attn, seg) THEN Explore(s, n, seg, raw) ELSE NILSEL
        IN IF sn = NILSEL THEN n.vs[i] ELSE WT(n.vs[i], sn)]]
  ELSE n
\* A second callback: integers become "X" and every CONTAINER is answered with a fresh copy of itself -- equal in content,
\* but a replacement all the same (the code compares the returned node with the one it offered, not their contents): the
\* callback has spoken for that subtree and the walk does not go on beneath it.
Changed2(n) == n.k = "int" \/ n.k \in RecursiveKinds
RECURSIVE WT2(_, _)
WT2(n, s) ==
  IF n.k = "link" THEN [n EXCEPT !.vs = <<WT2(n.vs[1], s)>>]
  ELSE IF Decides(s) /\ Changed2(n) THEN F(n)
  ELSE IF n.k \in RecursiveKinds THEN
    LET attn == Interests(s) IN
    [n EXCEPT !.vs = [i \in DOMAIN n.vs |->
        LET seg == SegOfChild(n, i)
            raw == IF n.vs[i].k = "link" THEN Scalar("link", n.vs[i].a) ELSE n.vs[i]
            sn == IF InAttn(attn, seg) THEN Explore(s, n, seg, raw) ELSE NILSEL
        IN IF sn = NILSEL THEN n.vs[i] ELSE WT2(n.vs[i], sn)]]
  ELSE n
=============================================================================
