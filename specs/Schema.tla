------------------------------- MODULE Schema -------------------------------
(***************************************************************************)
(* IPLD Schemas: type ASTs, the type-level view and the representation     *)
(* view of typed values, and the three mappings between data-model trees   *)
(* and typed values that the typed node engines (bindnode, generated code) *)
(* implement:                                                              *)
(*                                                                         *)
(*   FromType(T, v)  what a TYPE-level builder makes of the tree v:        *)
(*                   [ok, v = the typed value in canonical type-level form]*)
(*   FromRepr(T, r)  what a REPRESENTATION-level builder makes of r        *)
(*   ReprOf(T, tv)   the representation view of the typed value tv         *)
(*                                                                         *)
(* A typed value is written as its canonical type-level view: a struct is  *)
(* a map with one entry per field in declaration order (an absent optional *)
(* field holds AbsentV, a null nullable field NullV), a union is a         *)
(* single-entry map member-type-name -> value, an enum is the member name  *)
(* as a string, typed maps and lists element-wise.                         *)
(* Written from the IPLD Schema documentation (representation strategies), *)
(* not from bindnode or the generator templates.                           *)
(*                                                                         *)
(* Types are records; every type carries its name n (a byte string).       *)
(***************************************************************************)
EXTENDS DataModel

TScalar(k, n) == [k |-> k, n |-> n]                                   \* k in bool int float string bytes link
TList(n, el, nul) == [k |-> "list", n |-> n, el |-> el, nul |-> nul]
TMap(n, val, nul) == [k |-> "map", n |-> n, val |-> val, nul |-> nul]  \* keys are strings
Field(name, ty, opt, nul) == [name |-> name, ty |-> ty, opt |-> opt, nul |-> nul]
\* struct repr: [r, ren (serial names, one per field), d (delimiter)]
TStruct(n, fs, repr) == [k |-> "struct", n |-> n, fs |-> fs, repr |-> repr]
RMap(ren) == [r |-> "map", ren |-> ren, d |-> <<>>]
RTuple == [r |-> "tuple", ren |-> <<>>, d |-> <<>>]
RJoin(d) == [r |-> "stringjoin", ren |-> <<>>, d |-> d]
RPairs == [r |-> "listpairs", ren |-> <<>>, d |-> <<>>]
\* union repr: [r, disc (one discriminant per member), d]
TUnion(n, ms, repr) == [k |-> "union", n |-> n, ms |-> ms, repr |-> repr]
UKeyed(disc) == [r |-> "keyed", disc |-> disc, d |-> <<>>]
UKinded == [r |-> "kinded", disc |-> <<>>, d |-> <<>>]
UPrefix(d, disc) == [r |-> "stringprefix", disc |-> disc, d |-> d]
\* enum repr: [r, vals]
TEnum(n, ms, repr) == [k |-> "enum", n |-> n, ms |-> ms, repr |-> repr]
EString(vals) == [r |-> "string", vals |-> vals]     \* vals: byte strings
EInt(vals) == [r |-> "int", vals |-> vals]           \* vals: naturals

IsScalarT(T) == T.k \in {"bool", "int", "float", "string", "bytes", "link"}
Res(ok, v) == [ok |-> ok, v |-> v, w |-> ""]
BadW(why) == [ok |-> FALSE, v |-> Nil, w |-> why]       \* a refusal, labelled with the rule that refuses

IndexOf(s, x) == CHOOSE i \in DOMAIN s : s[i] = x
Has(s, x) == \E i \in DOMAIN s : s[i] = x

\* serial (representation) name of field i
Serial(T, i) == IF T.repr.r = "map" /\ T.repr.ren # <<>> THEN T.repr.ren[i] ELSE T.fs[i].name

\* the data-model kind of a type's representation
RECURSIVE ReprKind(_)
ReprKind(T) ==
  CASE IsScalarT(T) -> T.k
    [] T.k \in {"list", "map"} -> T.k
    [] T.k = "struct" -> (CASE T.repr.r = "map" -> "map" [] T.repr.r \in {"tuple", "listpairs"} -> "list"
                            [] T.repr.r = "stringjoin" -> "string")
    [] T.k = "union" -> (CASE T.repr.r = "keyed" -> "map" [] T.repr.r = "stringprefix" -> "string"
                           [] T.repr.r = "kinded" -> "kinded")
    [] T.k = "enum" -> (IF T.repr.r = "string" THEN "string" ELSE "int")

------------------------------------------------------------------------------
(* byte-string helpers *)
RECURSIVE JoinBy(_, _)
JoinBy(ss, d) == IF ss = <<>> THEN <<>> ELSE IF Len(ss) = 1 THEN ss[1] ELSE ss[1] \o d \o JoinBy(Tail(ss), d)

StartsWith(s, p) == Len(p) <= Len(s) /\ SubSeq(s, 1, Len(p)) = p

RECURSIVE SplitBy(_, _, _, _)    \* split s at every occurrence of the (non-empty) delimiter d
SplitBy(s, d, cur, acc) ==
  IF s = <<>> THEN Append(acc, cur)
  ELSE IF StartsWith(s, d) THEN SplitBy(SubSeq(s, Len(d) + 1, Len(s)), d, <<>>, Append(acc, cur))
  ELSE SplitBy(Tail(s), d, Append(cur, s[1]), acc)
Split(s, d) == SplitBy(s, d, <<>>, <<>>)

------------------------------------------------------------------------------
(* ReprOf: typed value -> representation view *)
RECURSIVE ReprOf(_, _)
ReprOfElem(T, nul, x) == IF nul /\ x = NullV THEN NullV ELSE ReprOf(T, x)

\* number of leading fields a tuple representation writes: trailing absent optionals are dropped
RECURSIVE TupleLen(_, _)
TupleLen(tv, n) == IF n = 0 THEN 0 ELSE IF tv.vs[n] = AbsentV THEN TupleLen(tv, n - 1) ELSE n

ReprOf(T, tv) ==
  CASE IsScalarT(T) -> tv
    [] T.k = "enum" ->
         LET i == IndexOf(T.ms, tv.a)
         IN IF T.repr.r = "string" THEN Scalar("string", T.repr.vals[i])
            ELSE Scalar("int", IF T.repr.vals[i] = 0 THEN <<0>> ELSE <<0, T.repr.vals[i]>>)
    [] T.k = "list" -> ListV([i \in DOMAIN tv.vs |-> ReprOfElem(T.el, T.nul, tv.vs[i])])
    [] T.k = "map"  -> MapV(tv.ks, [i \in DOMAIN tv.vs |-> ReprOfElem(T.val, T.nul, tv.vs[i])])
    [] T.k = "struct" ->
         LET present == SelectSeq([i \in DOMAIN T.fs |-> i], LAMBDA i : tv.vs[i] # AbsentV)
             R(i) == ReprOfElem(T.fs[i].ty, T.fs[i].nul, tv.vs[i])
         IN (CASE T.repr.r = "map" ->
                   MapV([j \in DOMAIN present |-> Serial(T, present[j])], [j \in DOMAIN present |-> R(present[j])])
              [] T.repr.r = "tuple" ->
                   ListV([i \in 1..TupleLen(tv, Len(T.fs)) |-> R(i)])
              [] T.repr.r = "listpairs" ->
                   ListV([j \in DOMAIN present |->
                            ListV(<<Scalar("string", T.fs[present[j]].name), R(present[j])>>)])
              [] T.repr.r = "stringjoin" ->
                   Scalar("string", JoinBy([i \in DOMAIN T.fs |-> R(i).a], T.repr.d)))
    [] T.k = "union" ->
         LET i == IndexOf([j \in DOMAIN T.ms |-> T.ms[j].n], tv.ks[1])
             inner == ReprOf(T.ms[i], tv.vs[1])
         IN (CASE T.repr.r = "keyed" -> MapV(<<T.repr.disc[i]>>, <<inner>>)
              [] T.repr.r = "kinded" -> inner
              [] T.repr.r = "stringprefix" -> Scalar("string", T.repr.disc[i] \o T.repr.d \o inner.a))

------------------------------------------------------------------------------
(* FromType: what a type-level builder accepts, and the typed value it produces *)
RECURSIVE FromType(_, _)
FromTypeElem(T, nul, x) == IF x = NullV THEN (IF nul THEN Res(TRUE, NullV) ELSE BadW("null_not_nullable")) ELSE FromType(T, x)

AllOk(rs) == \A i \in DOMAIN rs : rs[i].ok
Vals(rs) == [i \in DOMAIN rs |-> rs[i].v]
FirstBad(rs) == rs[CHOOSE i \in DOMAIN rs : ~rs[i].ok /\ \A j \in DOMAIN rs : ~rs[j].ok => i <= j]

FromType(T, v) ==
  CASE IsScalarT(T) -> IF v.k = T.k THEN Res(TRUE, v) ELSE BadW("wrong_kind")
    [] T.k = "enum" -> IF v.k # "string" THEN BadW("wrong_kind") ELSE IF Has(T.ms, v.a) THEN Res(TRUE, v) ELSE BadW("bad_enum_member")
    [] T.k = "list" ->
         IF v.k # "list" THEN BadW("wrong_kind")
         ELSE LET rs == [i \in DOMAIN v.vs |-> FromTypeElem(T.el, T.nul, v.vs[i])]
              IN IF AllOk(rs) THEN Res(TRUE, ListV(Vals(rs))) ELSE FirstBad(rs)
    [] T.k = "map" ->
         IF v.k # "map" THEN BadW("wrong_kind") ELSE IF ~NoDup(v.ks) THEN BadW("repeated_key")
         ELSE LET rs == [i \in DOMAIN v.vs |-> FromTypeElem(T.val, T.nul, v.vs[i])]
              IN IF AllOk(rs) THEN Res(TRUE, MapV(v.ks, Vals(rs))) ELSE FirstBad(rs)
    [] T.k = "struct" ->
         IF v.k # "map" THEN BadW("wrong_kind") ELSE IF ~NoDup(v.ks) THEN BadW("repeated_key")
         ELSE IF \E i \in DOMAIN v.ks : ~\E j \in DOMAIN T.fs : T.fs[j].name = v.ks[i] THEN BadW("unknown_field")
         ELSE LET one(j) == IF Has(v.ks, T.fs[j].name)
                              THEN FromTypeElem(T.fs[j].ty, T.fs[j].nul, v.vs[IndexOf(v.ks, T.fs[j].name)])
                              ELSE (IF T.fs[j].opt THEN Res(TRUE, AbsentV) ELSE BadW("missing_required"))
                  rs == [j \in DOMAIN T.fs |-> one(j)]
              IN IF AllOk(rs) THEN Res(TRUE, MapV([j \in DOMAIN T.fs |-> T.fs[j].name], Vals(rs))) ELSE FirstBad(rs)
    [] T.k = "union" ->
         IF v.k # "map" THEN BadW("wrong_kind") ELSE IF Len(v.ks) # 1 THEN BadW("union_not_single_entry")
         ELSE IF ~\E j \in DOMAIN T.ms : T.ms[j].n = v.ks[1] THEN BadW("unknown_member")
         ELSE LET j == CHOOSE j \in DOMAIN T.ms : T.ms[j].n = v.ks[1]
                  r == FromType(T.ms[j], v.vs[1])
              IN IF r.ok THEN Res(TRUE, MapV(v.ks, <<r.v>>)) ELSE r

------------------------------------------------------------------------------
(* FromRepr: what a representation-level builder accepts, and the typed value it produces *)
RECURSIVE FromRepr(_, _)
FromReprElem(T, nul, x) == IF x = NullV THEN (IF nul THEN Res(TRUE, NullV) ELSE BadW("null_not_nullable")) ELSE FromRepr(T, x)

FromRepr(T, r) ==
  CASE IsScalarT(T) -> IF r.k = T.k THEN Res(TRUE, r) ELSE BadW("wrong_kind")
    [] T.k = "enum" ->
         IF T.repr.r = "string" THEN
           (IF r.k # "string" THEN BadW("wrong_kind")
            ELSE IF Has(T.repr.vals, r.a) THEN Res(TRUE, Scalar("string", T.ms[IndexOf(T.repr.vals, r.a)])) ELSE BadW("bad_enum_member"))
         ELSE
           (IF r.k # "int" THEN BadW("wrong_kind")
            ELSE IF r.a[1] = 0 /\ Len(r.a) <= 2 /\ Has(T.repr.vals, IF Len(r.a) = 1 THEN 0 ELSE r.a[2])
              THEN Res(TRUE, Scalar("string", T.ms[IndexOf(T.repr.vals, IF Len(r.a) = 1 THEN 0 ELSE r.a[2])])) ELSE BadW("bad_enum_member"))
    [] T.k = "list" ->
         IF r.k # "list" THEN BadW("wrong_kind")
         ELSE LET rs == [i \in DOMAIN r.vs |-> FromReprElem(T.el, T.nul, r.vs[i])]
              IN IF AllOk(rs) THEN Res(TRUE, ListV(Vals(rs))) ELSE FirstBad(rs)
    [] T.k = "map" ->
         IF r.k # "map" THEN BadW("wrong_kind") ELSE IF ~NoDup(r.ks) THEN BadW("repeated_key")
         ELSE LET rs == [i \in DOMAIN r.vs |-> FromReprElem(T.val, T.nul, r.vs[i])]
              IN IF AllOk(rs) THEN Res(TRUE, MapV(r.ks, Vals(rs))) ELSE FirstBad(rs)
    [] T.k = "struct" ->
         LET names == [j \in DOMAIN T.fs |-> T.fs[j].name]
             finish(rs) == IF AllOk(rs) THEN Res(TRUE, MapV(names, Vals(rs))) ELSE FirstBad(rs)
         IN (CASE T.repr.r = "map" ->
                   IF r.k # "map" THEN BadW("wrong_kind") ELSE IF ~NoDup(r.ks) THEN BadW("repeated_key")
                   ELSE IF \E i \in DOMAIN r.ks : ~\E j \in DOMAIN T.fs : Serial(T, j) = r.ks[i] THEN BadW("unknown_field")
                   ELSE finish([j \in DOMAIN T.fs |->
                          IF Has(r.ks, Serial(T, j))
                            THEN FromReprElem(T.fs[j].ty, T.fs[j].nul, r.vs[IndexOf(r.ks, Serial(T, j))])
                            ELSE (IF T.fs[j].opt THEN Res(TRUE, AbsentV) ELSE BadW("missing_required:map"))])
              [] T.repr.r = "tuple" ->
                   IF r.k # "list" THEN BadW("wrong_kind") ELSE IF Len(r.vs) > Len(T.fs) THEN BadW("tuple_too_long")
                   ELSE finish([j \in DOMAIN T.fs |->
                          IF j <= Len(r.vs) THEN FromReprElem(T.fs[j].ty, T.fs[j].nul, r.vs[j])
                          ELSE (IF T.fs[j].opt THEN Res(TRUE, AbsentV) ELSE BadW("missing_required:tuple"))])
              [] T.repr.r = "listpairs" ->
                   IF r.k # "list" THEN BadW("wrong_kind")
                   ELSE IF \E i \in DOMAIN r.vs : ~(r.vs[i].k = "list" /\ Len(r.vs[i].vs) = 2 /\ r.vs[i].vs[1].k = "string") THEN BadW("listpairs_shape")
                   ELSE LET ks == [i \in DOMAIN r.vs |-> r.vs[i].vs[1].a]
                        IN IF ~NoDup(ks) THEN BadW("repeated_key") ELSE IF \E i \in DOMAIN ks : ~Has(names, ks[i]) THEN BadW("unknown_field")
                           ELSE finish([j \in DOMAIN T.fs |->
                                  IF Has(ks, names[j])
                                    THEN FromReprElem(T.fs[j].ty, T.fs[j].nul, r.vs[IndexOf(ks, names[j])].vs[2])
                                    ELSE (IF T.fs[j].opt THEN Res(TRUE, AbsentV) ELSE BadW("missing_required:listpairs"))])
              [] T.repr.r = "stringjoin" ->
                   IF r.k # "string" THEN BadW("wrong_kind")
                   ELSE LET parts == Split(r.a, T.repr.d)
                        IN IF Len(parts) # Len(T.fs) THEN BadW("stringjoin_parts")
                           ELSE finish([j \in DOMAIN T.fs |-> FromRepr(T.fs[j].ty, Scalar("string", parts[j]))]))
    [] T.k = "union" ->
        (CASE T.repr.r = "keyed" ->
                IF r.k # "map" THEN BadW("wrong_kind") ELSE IF Len(r.ks) # 1 THEN BadW("union_not_single_entry")
                ELSE IF ~Has(T.repr.disc, r.ks[1]) THEN BadW("unknown_discriminant")
                ELSE LET j == IndexOf(T.repr.disc, r.ks[1])
                         x == FromRepr(T.ms[j], r.vs[1])
                     IN IF x.ok THEN Res(TRUE, MapV(<<T.ms[j].n>>, <<x.v>>)) ELSE x
           [] T.repr.r = "kinded" ->
                IF ~\E j \in DOMAIN T.ms : ReprKind(T.ms[j]) = r.k THEN BadW("no_member_of_kind")
                ELSE LET j == CHOOSE j \in DOMAIN T.ms : ReprKind(T.ms[j]) = r.k
                         x == FromRepr(T.ms[j], r)
                     IN IF x.ok THEN Res(TRUE, MapV(<<T.ms[j].n>>, <<x.v>>)) ELSE x
           [] T.repr.r = "stringprefix" ->
                IF r.k # "string" THEN BadW("wrong_kind")
                ELSE IF ~\E j \in DOMAIN T.ms : StartsWith(r.a, T.repr.disc[j] \o T.repr.d) THEN BadW("unknown_discriminant")
                ELSE LET j == CHOOSE j \in DOMAIN T.ms : StartsWith(r.a, T.repr.disc[j] \o T.repr.d)
                         p == T.repr.disc[j] \o T.repr.d
                         x == FromRepr(T.ms[j], Scalar("string", SubSeq(r.a, Len(p) + 1, Len(r.a))))
                     IN IF x.ok THEN Res(TRUE, MapV(<<T.ms[j].n>>, <<x.v>>)) ELSE x)

\* what a type-level builder must be FED to obtain the typed value tv: absent fields are simply not supplied
RECURSIVE Feed(_, _)
Feed(T, tv) ==
  IF tv = NullV \/ tv = AbsentV THEN tv
  ELSE CASE T.k = "struct" ->
              LET present == SelectSeq([i \in DOMAIN T.fs |-> i], LAMBDA i : tv.vs[i] # AbsentV)
              IN MapV([j \in DOMAIN present |-> T.fs[present[j]].name],
                      [j \in DOMAIN present |-> Feed(T.fs[present[j]].ty, tv.vs[present[j]])])
         [] T.k = "list" -> ListV([i \in DOMAIN tv.vs |-> Feed(T.el, tv.vs[i])])
         [] T.k = "map" -> MapV(tv.ks, [i \in DOMAIN tv.vs |-> Feed(T.val, tv.vs[i])])
         [] T.k = "union" -> MapV(tv.ks, <<Feed(T.ms[IndexOf([j \in DOMAIN T.ms |-> T.ms[j].n], tv.ks[1])], tv.vs[1])>>)
         [] OTHER -> tv
=============================================================================
