------------------------------ MODULE FsStore ------------------------------
(***************************************************************************)
(* storage/fsstore: the staging-file / rename protocol, one action per     *)
(* filesystem operation of the code (= per verification hook point in      *)
(* fsstore.go), with concurrent writers and readers, process crashes and   *)
(* injected operation failures as environment actions.                     *)
(*                                                                         *)
(*   Put:        create staging, write, close, rename                      *)
(*               [ENOENT: mkdir shard dir, rename again]                   *)
(*   PutStream:  create staging, (caller writes)*, commit(key) = close,    *)
(*               rename ...   or commit("") = close, remove                *)
(*   Get/Has:    open / stat of the destination path                       *)
(*                                                                         *)
(* Named deviations of the code from the ideal, modelled because schedule  *)
(* replay would otherwise raise false alarms:                              *)
(*   LoserOfMkdirRace  two writers find the shard directory missing, the   *)
(*                     second mkdir gets EEXIST, haveDir returns it, the   *)
(*                     put fails and its staging file stays in .temp       *)
(*   LeakOnFailure     a failing close/rename/mkdir leaves the staging     *)
(*                     file behind                                         *)
(* Neither violates C18: the key is absent or complete.                    *)
(***************************************************************************)
EXTENDS Integers, Sequences, FiniteSets, TLC

CONSTANTS
  NW, NR, NK,   \* writers 1..NW, readers 1..NR, keys 1..NK
  WKey,         \* [1..NW -> 1..NK]
  WChunks,      \* [1..NW -> Seq(Nat \ {0})]: the complete content, as chunk ids
  WMode,        \* [1..NW -> {"put", "stream", "abort"}]
  WPhase,       \* [1..NW -> {1, 2}]: phase-2 threads run only after crash + restart
  RKey, RPhase, \* the same for readers
  DirOf,        \* [1..NK -> directory id]
  MaxCrashes, MaxFaults,
  MaxCancels    \* how many times a writer may notice a cancelled context and give up (shares the counter of faults)

W == 1..NW
R == 1..NR
K == 1..NK

NONE == <<0>>        \* "no such file" (chunk ids are >= 1, a torn chunk c is written as c + 100)

VARIABLES
  stag,     \* [W -> content | NONE]     staging file of writer w (random name, unique per writer)
  dest,     \* [K -> content | NONE]     file at the destination path of key k
  dirs,     \* set of existing shard directories
  wpc,      \* [W -> program counter]
  wn,       \* [W -> number of caller-side chunk writes done (stream modes)]
  wret,     \* [W -> "" | "ok" | "err"]  result returned to the caller
  rpc, rres,\* readers: pc and what the read returned (content, NONE, or <<-1>> for not yet)
  phase,    \* 1: first process; 2: after a crash, a new process on the same directory
  crashes, faults,
  hist      \* observation only: the schedule, for replay

vars == <<stag, dest, dirs, wpc, wn, wret, rpc, rres, phase, crashes, faults, hist>>
core == <<stag, dest, dirs, wpc, wn, wret, rpc, rres, phase, crashes, faults>>

Pending == <<-1>>
Complete(k) == {WChunks[w] : w \in {x \in W : WKey[x] = k /\ WMode[x] # "abort"}}

Obs == [stag |-> stag, dest |-> dest, dirs |-> dirs]
Log(t, i, a, r) == hist' = Append(hist, [t |-> t, i |-> i, a |-> a, r |-> r,
                                         st |-> [stag |-> stag', dest |-> dest', dirs |-> dirs']])

Init ==
  /\ stag = [w \in W |-> NONE] /\ dest = [k \in K |-> NONE] /\ dirs = {}
  /\ wpc = [w \in W |-> "create"] /\ wn = [w \in W |-> 0] /\ wret = [w \in W |-> ""]
  /\ rpc = [r \in R |-> "open"] /\ rres = [r \in R |-> Pending]
  /\ phase = 1 /\ crashes = 0 /\ faults = 0 /\ hist = <<>>

Runs(ph) == phase = ph

------------------------------------------------------------------------------
(* writer steps; each is one hook point: the hook fires, then the operation happens *)

Create(w) ==
  /\ wpc[w] = "create" /\ Runs(WPhase[w])
  /\ stag' = [stag EXCEPT ![w] = <<>>]
  /\ wpc' = [wpc EXCEPT ![w] = IF WMode[w] = "put" THEN "write" ELSE "swrite"]
  /\ UNCHANGED <<dest, dirs, wn, wret, rpc, rres, phase, crashes, faults>>
  /\ Log("w", w, "create", "ok")

\* Put: one Write call with the whole content
Write(w) ==
  /\ wpc[w] = "write" /\ Runs(WPhase[w])
  /\ stag' = [stag EXCEPT ![w] = WChunks[w]]
  /\ wpc' = [wpc EXCEPT ![w] = "close"]
  /\ UNCHANGED <<dest, dirs, wn, wret, rpc, rres, phase, crashes, faults>>
  /\ Log("w", w, "write", "ok")

\* PutStream: the caller writes chunk by chunk (no hook: the harness itself performs the write)
StreamWrite(w) ==
  /\ wpc[w] = "swrite" /\ Runs(WPhase[w]) /\ wn[w] < Len(WChunks[w]) /\ wret[w] # "err"
  /\ stag' = [stag EXCEPT ![w] = Append(@, WChunks[w][wn[w] + 1])]
  /\ wn' = [wn EXCEPT ![w] = @ + 1]
  /\ UNCHANGED <<dest, dirs, wpc, wret, rpc, rres, phase, crashes, faults>>
  /\ Log("w", w, "swrite", "ok")

\* PutStream: the caller invokes the committer: with the key when everything is written,
\* with "" to abandon (possibly midway)
CallCommit(w) ==
  /\ wpc[w] = "swrite" /\ Runs(WPhase[w])
  /\ \/ WMode[w] = "stream" /\ wn[w] = Len(WChunks[w])
     \/ WMode[w] = "abort"
     \/ wret[w] = "err"            \* a caller whose write failed abandons the stream
  /\ wpc' = [wpc EXCEPT ![w] = "close"]
  /\ UNCHANGED <<stag, dest, dirs, wn, wret, rpc, rres, phase, crashes, faults>>
  /\ Log("w", w, "commit", "ok")

Aborting(w) == WMode[w] = "abort" \/ wret[w] = "err"   \* wret is pre-set to "err" by a failed write

Close(w) ==
  /\ wpc[w] = "close" /\ Runs(WPhase[w])
  /\ wpc' = [wpc EXCEPT ![w] = IF Aborting(w) THEN "remove" ELSE "rename"]
  /\ UNCHANGED <<stag, dest, dirs, wn, wret, rpc, rres, phase, crashes, faults>>
  /\ Log("w", w, "close", "ok")

Remove(w) ==
  /\ wpc[w] = "remove" /\ Runs(WPhase[w])
  /\ stag' = [stag EXCEPT ![w] = NONE]
  /\ wpc' = [wpc EXCEPT ![w] = "ret"]
  /\ wret' = [wret EXCEPT ![w] = IF @ = "err" THEN "err" ELSE "ok"]
  /\ UNCHANGED <<dest, dirs, wn, rpc, rres, phase, crashes, faults>>
  /\ Log("w", w, "remove", "ok")

\* rename(staging, destination): atomic replace when the shard directory exists, ENOENT otherwise
Rename(w) ==
  /\ wpc[w] = "rename" /\ Runs(WPhase[w])
  /\ UNCHANGED <<dirs, wn, rpc, rres, phase, crashes, faults>>
  /\ IF DirOf[WKey[w]] \in dirs
       THEN /\ dest' = [dest EXCEPT ![WKey[w]] = stag[w]]
            /\ stag' = [stag EXCEPT ![w] = NONE]
            /\ wpc' = [wpc EXCEPT ![w] = "ret"] /\ wret' = [wret EXCEPT ![w] = "ok"]
            /\ Log("w", w, "rename", "ok")
       ELSE /\ wpc' = [wpc EXCEPT ![w] = "mkdir"]
            /\ UNCHANGED <<dest, stag, wret>>
            /\ Log("w", w, "rename", "enoent")

Mkdir(w) ==
  /\ wpc[w] = "mkdir" /\ Runs(WPhase[w])
  /\ UNCHANGED <<stag, dest, wn, rpc, rres, phase, crashes, faults>>
  /\ IF DirOf[WKey[w]] \in dirs
       THEN \* LoserOfMkdirRace: EEXIST is returned to the caller, the staging file is leaked
            /\ wpc' = [wpc EXCEPT ![w] = "ret"] /\ wret' = [wret EXCEPT ![w] = "err"]
            /\ UNCHANGED dirs
            /\ Log("w", w, "mkdir", "eexist")
       ELSE /\ dirs' = dirs \cup {DirOf[WKey[w]]}
            /\ wpc' = [wpc EXCEPT ![w] = "rename2"]
            /\ UNCHANGED wret
            /\ Log("w", w, "mkdir", "ok")

Rename2(w) ==
  /\ wpc[w] = "rename2" /\ Runs(WPhase[w])
  /\ dest' = [dest EXCEPT ![WKey[w]] = stag[w]]
  /\ stag' = [stag EXCEPT ![w] = NONE]
  /\ wpc' = [wpc EXCEPT ![w] = "ret"] /\ wret' = [wret EXCEPT ![w] = "ok"]
  /\ UNCHANGED <<dirs, wn, rpc, rres, phase, crashes, faults>>
  /\ Log("w", w, "rename2", "ok")

------------------------------------------------------------------------------
(* environment: one operation fails (the hook returns an error instead of the operation) *)
Fault(w) ==
  /\ faults < MaxFaults /\ Runs(WPhase[w])
  /\ wpc[w] \in {"create", "write", "close", "remove", "rename", "mkdir", "rename2"}
  /\ faults' = faults + 1
  /\ IF wpc[w] = "write"
       THEN \* a failing (possibly torn) write: part of the first chunk reaches the file, Put abandons
            /\ stag' = [stag EXCEPT ![w] = <<WChunks[w][1] + 100>>]
            /\ wpc' = [wpc EXCEPT ![w] = "close"] /\ wret' = [wret EXCEPT ![w] = "err"]
       ELSE \* every other failure is returned as is; whatever exists stays (LeakOnFailure)
            /\ UNCHANGED stag
            /\ wpc' = [wpc EXCEPT ![w] = "ret"] /\ wret' = [wret EXCEPT ![w] = "err"]
  /\ UNCHANGED <<dest, dirs, wn, rpc, rres, phase, crashes>>
  /\ Log("w", w, "fault:" \o wpc[w], "err")

(* environment: a caller-side write of a stream fails for real (file-size limit / disk full): the  *)
(* chunk is torn, the failure persists, the caller abandons the stream with commit("").          *)
StreamWriteFault(w) ==
  /\ NW = 1 /\ faults < MaxFaults /\ Runs(WPhase[w])
  /\ wpc[w] = "swrite" /\ wn[w] < Len(WChunks[w]) /\ wret[w] # "err"
  /\ stag' = [stag EXCEPT ![w] = Append(@, WChunks[w][wn[w] + 1] + 100)]
  /\ wn' = [wn EXCEPT ![w] = @ + 1]
  /\ wret' = [wret EXCEPT ![w] = "err"]
  /\ faults' = faults + 1
  /\ UNCHANGED <<dest, dirs, wpc, rpc, rres, phase, crashes>>
  /\ Log("w", w, "fault:swrite", "err")

(* environment: the context the writer was given is cancelled and the writer NOTICES it before its next   *)
(* filesystem operation.  Cancellation permits a writer to give up and nothing else: it leaves by the      *)
(* way an abandoned stream leaves (close if still open, remove the staging file, return an error).  A      *)
(* writer that does not notice simply carries on (the ordinary actions); the code at this commit never    *)
(* looks at its context, so the replay of cancellation is an enumeration of cancel points with the        *)
(* observable facts checked (vh fscancel), and this action states what any noticing writer may do.        *)
GiveUp(w) ==
  /\ MaxCancels > 0 /\ faults < MaxCancels /\ Runs(WPhase[w])
  /\ wpc[w] \in {"write", "swrite", "commit", "close", "rename", "mkdir", "rename2"}
  /\ faults' = faults + 1
  /\ wret' = [wret EXCEPT ![w] = "err"]
  /\ wpc' = [wpc EXCEPT ![w] = IF wpc[w] \in {"write", "swrite", "commit", "close"} THEN "close" ELSE "remove"]
  /\ UNCHANGED <<stag, dest, dirs, wn, rpc, rres, phase, crashes>>
  /\ Log("w", w, "cancel:" \o wpc[w], "err")

(* environment: the process dies; a new process opens the same directory *)
Crash ==
  /\ crashes < MaxCrashes /\ phase = 1
  /\ \E w \in W : WPhase[w] = 1 /\ wpc[w] \notin {"create", "ret"}   \* something is in flight
  /\ phase' = 2 /\ crashes' = crashes + 1
  /\ UNCHANGED <<stag, dest, dirs, wpc, wn, wret, rpc, rres, faults>>
  /\ Log("env", 0, "crash", "ok")

(* readers: Get = open the destination path and read it all (the open file is one inode) *)
ReadOpen(r) ==
  /\ rpc[r] = "open" /\ Runs(RPhase[r])
  /\ rres' = [rres EXCEPT ![r] = dest[RKey[r]]]
  /\ rpc' = [rpc EXCEPT ![r] = "ret"]
  /\ UNCHANGED <<stag, dest, dirs, wpc, wn, wret, phase, crashes, faults>>
  /\ Log("r", r, "open", IF dest[RKey[r]] = NONE THEN "absent" ELSE "found")

Next ==
  \/ \E w \in W : Create(w) \/ Write(w) \/ StreamWrite(w) \/ CallCommit(w) \/ Close(w) \/ Remove(w)
                  \/ Rename(w) \/ Mkdir(w) \/ Rename2(w) \/ Fault(w) \/ StreamWriteFault(w) \/ GiveUp(w)
  \/ \E r \in R : ReadOpen(r)
  \/ Crash

Spec == Init /\ [][Next]_vars

------------------------------------------------------------------------------
(* C18 *)

\* whatever is visible under a key is the complete content some writer committed for it
AtomicVisibility == \A k \in K : dest[k] = NONE \/ dest[k] \in Complete(k)

\* a reader (concurrent, or after the crash) saw nothing or a complete block
ReaderSeesAbsentOrComplete ==
  \A r \in R : rres[r] = Pending \/ rres[r] = NONE \/ rres[r] \in Complete(RKey[r])

\* a put that reported success has made its key visible with its content (no lost acknowledged write)
AckedIsVisible ==
  \A w \in W : (wret[w] = "ok" /\ WMode[w] # "abort") => dest[WKey[w]] \in Complete(WKey[w])

\* what is committed stays committed (write-once, content-addressed)
CommittedStays == [][\A k \in K : dest[k] # NONE => dest'[k] # NONE]_vars

\* after a crash the directory is usable: a phase-2 put of any key can still complete.
\* (checked as: no phase-2 writer ever returns "err" unless a fault was injected or it lost a mkdir race)
UsableAfterCrash ==
  \A w \in W : (WPhase[w] = 2 /\ wret[w] = "err") =>
     (faults > 0 \/ \E v \in W : v # w /\ WPhase[v] = 2 /\ DirOf[WKey[v]] = DirOf[WKey[w]])

\* terminal states: every thread of the current process has returned
Done == /\ \A w \in W : WPhase[w] = phase => wpc[w] = "ret"
        /\ \A r \in R : RPhase[r] = phase => rpc[r] = "ret"
=============================================================================
