---------------------------- MODULE TraversalGen ----------------------------
(***************************************************************************)
(* Bounded instances of Traversal.tla: a catalogue of graphs (maps, lists, *)
(* scalars, shared and repeated links, a link to a scalar block, empty     *)
(* containers, numeric map keys), every selector of the language up to an  *)
(* AST depth, and the traversal controls of C15.  Every case is one        *)
(* initial state; the machine runs to its end and the visit / load         *)
(* sequences are emitted for replay against traversal.WalkAdv.             *)
(***************************************************************************)
EXTENDS Traversal, TraversalGenBase, Json


\* Mode "file": cases written by the Go side (vh walk-gen: random graphs, selectors and controls beyond the bounds
\* enumerated here); the specification only evaluates them.
FileCases ==
  LET raw == ndJsonDeserialize("trace.ndjson") IN
  {[g |-> raw[i].g, sel |-> raw[i].sel,
    cfg |-> [nb |-> raw[i].cfg.nb, lb |-> raw[i].cfg.lb, start |-> raw[i].cfg.start, once |-> raw[i].cfg.once,
             skip |-> {j \in DOMAIN raw[i].cfg.skip : raw[i].cfg.skip[j]}]] : i \in DOMAIN raw}

GenCases == CASE Mode = "file" -> FileCases [] Mode = "plain" -> CasesPlain(0) [] Mode = "ctl" -> CasesCtl(0) [] Mode = "subset" -> CasesSubset(0)
              [] Mode = "plain3" -> CasesPlain3(0) [] Mode = "plainonce" -> CasesPlainOnce(0) [] Mode = "ctl2" -> CasesCtl2(0)

Emit == done => PrintT(ToJson([g |-> case.g, sel |-> case.sel,
                               cfg |-> [nb |-> Cfg.nb, lb |-> Cfg.lb, start |-> Cfg.start, once |-> Cfg.once,
                                        skip |-> [i \in 1..Len(case.g) |-> i \in Cfg.skip]],
                               visits |-> visits, loads |-> loads, err |-> err, compiles |-> Compiles(case.sel, FALSE)]))
=============================================================================
