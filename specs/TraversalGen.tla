---------------------------- MODULE TraversalGen ----------------------------
(***************************************************************************)
(* Bounded instances of Traversal.tla: a catalogue of graphs (maps, lists, *)
(* scalars, shared and repeated links, a link to a scalar block, empty     *)
(* containers, numeric map keys), every selector of the language up to an  *)
(* AST depth, and the traversal controls of C15.  Every case is one        *)
(* initial state; the machine runs to its end and the visit / load         *)
(* sequences are emitted for replay against traversal.WalkAdv.             *)
(***************************************************************************)
EXTENDS Traversal, TraversalGenBase, Json


GenCases == CASE Mode = "plain" -> CasesPlain [] Mode = "ctl" -> CasesCtl [] Mode = "subset" -> CasesSubset
              [] Mode = "plain3" -> CasesPlain3 [] Mode = "plainonce" -> CasesPlainOnce [] Mode = "ctl2" -> CasesCtl2

Emit == done => PrintT(ToJson([g |-> case.g, sel |-> case.sel,
                               cfg |-> [nb |-> Cfg.nb, lb |-> Cfg.lb, start |-> Cfg.start, once |-> Cfg.once,
                                        skip |-> [i \in 1..Len(case.g) |-> i \in Cfg.skip]],
                               visits |-> visits, loads |-> loads, err |-> err]))
=============================================================================
