-------------------------- MODULE TypedAssembler --------------------------
(***************************************************************************)
(* The builder / assembler protocol of Assembler.tla on TYPED builders     *)
(* (schema/bindnode, generated code), at type level and at representation  *)
(* level.                                                                  *)
(*                                                                         *)
(* Every action is the corresponding action of Assembler.tla conjoined     *)
(* with a guard computed from the schema type that governs the position,   *)
(* so every behaviour of this module is a behaviour of the generic         *)
(* protocol machine (its invariants are re-checked here) and, in addition, *)
(* only LEGAL typed call sequences are generated: keys that the struct /   *)
(* union / map at that position has, kinds the position can hold, Finish   *)
(* only when the required fields are there -- plus the two rejections the  *)
(* contract pins down (C12): a repeated key, and a kind (or a null) the    *)
(* position cannot hold, which is reported by that call and after which    *)
(* nothing further is specified (pc = "dead").                             *)
(*                                                                         *)
(* tstack runs parallel to stack and holds, per open container, the type   *)
(* that governs it (for a kinded union at representation level: the        *)
(* member of the begun kind).                                              *)
(*                                                                         *)
(* The environment's freedom is bounded by a deviation budget instead of   *)
(* by ad-hoc narrowing: the canonical way to fill a typed builder is       *)
(* declaration order, AssembleEntry, the first candidate value, building   *)
(* containers by hand; every other choice (a field out of order or an      *)
(* optional one skipped, the AssembleKey/AssembleValue route, the key      *)
(* given as a node, another value or a null, a whole container handed      *)
(* over with AssignNode) costs one unit of dev <= MaxDev.  All behaviours  *)
(* within that distance of the canonical one are generated; a rejection    *)
(* costs one unit too (and is bounded by MaxRejects).                      *)
(*                                                                         *)
(* The oracle for the node returned by Build is NOT this machine: it is    *)
(* the whole-input function FromType / FromRepr of Schema.tla applied to   *)
(* the fold of the accepted calls.  LegalIsConforming ties the two         *)
(* formulations together: what the step-level guards call legal is         *)
(* exactly what the whole-input function accepts.                          *)
(***************************************************************************)
EXTENDS Assembler, SchemaCat, Json

CONSTANTS TypeIdx,   \* index into the catalogue SchemaCat!Types
          Level,     \* "type" | "repr"
          MaxDev     \* bound: number of deviations from the canonical way of making the calls (see dev)

VARIABLES tstack,
          dev,       \* how many of the environment's choices so far were NOT the canonical one
          thist      \* per call of hist: the kind of type governing the innermost open container at the call
                     \* (observation only: lets a finding say "a repeated key supplied to a STRUCT builder")
tvars == <<vars, tstack, dev, thist>>

T0 == Types[TypeIdx]
From(T, v) == IF Level = "type" THEN FromType(T, v) ELSE FromRepr(T, v)

\* ---- kinds
TK(T) == CASE T.k \in {"struct", "union", "map"} -> "map" [] T.k = "list" -> "list" [] T.k = "enum" -> "string"
           [] OTHER -> T.k
Kinded(T) == Level = "repr" /\ T.k = "union" /\ T.repr.r = "kinded"
KindsAt(T) == IF Level = "type" THEN {TK(T)}
              ELSE IF Kinded(T) THEN {ReprKind(T.ms[j]) : j \in DOMAIN T.ms}
              ELSE {ReprKind(T)}
ResolveK(T, kind) == IF Kinded(T) THEN T.ms[CHOOSE j \in DOMAIN T.ms : ReprKind(T.ms[j]) = kind] ELSE T

\* what this machine does not model: the pair frames of listpairs at representation level,
\* a kinded union directly inside a kinded union
RECURSIVE Supported(_)
Supported(T) ==
  CASE IsScalarT(T) \/ T.k = "enum" -> TRUE
    [] T.k = "list" -> Supported(T.el)
    [] T.k = "map" -> Supported(T.val)
    [] T.k = "struct" -> (Level = "type" \/ T.repr.r # "listpairs") /\ \A i \in DOMAIN T.fs : Supported(T.fs[i].ty)
    [] T.k = "union" -> /\ \A j \in DOMAIN T.ms : Supported(T.ms[j])
                        /\ Kinded(T) => \A j \in DOMAIN T.ms : ~Kinded(T.ms[j])

RECURSIVE SubTypes(_)
SubTypes(T) ==
  {T} \cup (CASE T.k = "list" -> SubTypes(T.el) [] T.k = "map" -> SubTypes(T.val)
              [] T.k = "struct" -> UNION {SubTypes(T.fs[i].ty) : i \in DOMAIN T.fs}
              [] T.k = "union" -> UNION {SubTypes(T.ms[j]) : j \in DOMAIN T.ms}
              [] OTHER -> {})

\* ---- keys
KeyName(FT, i) == IF Level = "repr" THEN Serial(FT, i) ELSE FT.fs[i].name
MemberKey(FT, j) == IF Level = "repr" THEN FT.repr.disc[j] ELSE FT.ms[j].n
FrameKeys(FT) == CASE FT.k = "struct" -> {KeyName(FT, i) : i \in DOMAIN FT.fs}
                   [] FT.k = "union" -> IF Kinded(FT) \/ (Level = "repr" /\ FT.repr.r # "keyed") THEN {}
                                        ELSE {MemberKey(FT, j) : j \in DOMAIN FT.ms}
                   [] FT.k = "map" -> MapKeys
                   [] OTHER -> {}
TKeys == UNION {FrameKeys(T) : T \in SubTypes(T0)}       \* (cfg: Keys <- TKeys)

FieldIdx(FT, k) == CHOOSE i \in DOMAIN FT.fs : KeyName(FT, i) = k
MemberIdx(FT, k) == CHOOSE j \in DOMAIN FT.ms : MemberKey(FT, j) = k

\* ---- positions
FT == tstack[Len(tstack)]          \* the type governing the innermost open container
P(ty, nul) == [ty |-> ty, nul |-> nul]
ChildPos(ft, f) ==
  IF f.kind = "map" THEN
    (CASE ft.k = "struct" -> LET i == FieldIdx(ft, f.pk) IN P(ft.fs[i].ty, ft.fs[i].nul)
       [] ft.k = "union" -> P(ft.ms[MemberIdx(ft, f.pk)], FALSE)
       [] ft.k = "map" -> P(ft.val, ft.nul))
  ELSE (IF ft.k = "list" THEN P(ft.el, ft.nul)
        ELSE LET i == Len(f.vs) + 1 IN P(ft.fs[i].ty, ft.fs[i].nul))      \* tuple representation
Pos == IF stack = <<>> THEN P(T0, FALSE) ELSE ChildPos(FT, Top)
Accepts(pos, kind) == kind \in KindsAt(pos.ty) \/ (kind = "null" /\ pos.nul)

Deep == Len(stack) >= 2      \* inside a nested container: typed lists and maps get at most one entry

\* ---- candidate values, computed once per type (zero-arity: TLC evaluates and caches them at start-up)
Pick1(S) == IF S = {} THEN {} ELSE {CHOOSE x \in S : TRUE}
Pick2(S) == Pick1(S) \cup Pick1(S \ Pick1(S))
RECURSIVE ScalarsOf(_)
ScalarsOf(T) ==
  IF Level = "type" THEN (IF IsScalarT(T) \/ T.k = "enum" THEN Inh(T) ELSE {})
  ELSE IF Kinded(T) THEN UNION {ScalarsOf(T.ms[j]) : j \in DOMAIN T.ms}
  ELSE IF ReprKind(T) \in {"map", "list"} THEN {}
  ELSE {ReprOf(T, tv) : tv \in Inh(T)}
TreesOf(T) ==      \* whole containers handed over with AssignNode
  {x \in {IF Level = "type" THEN Feed(T, tv) ELSE ReprOf(T, tv) : tv \in Inh(T)} : x.k \in {"map", "list"}}
ScalarCands == [T \in SubTypes(T0) |-> Pick2(ScalarsOf(T))]
TreeCands == [T \in SubTypes(T0) |-> IF T.k \in {"struct", "union", "map", "list"} THEN Pick2(TreesOf(T)) ELSE {}]
ValueCands(pos) == ScalarCands[pos.ty] \cup (IF pos.nul THEN {NullV} ELSE {})
CanonVals(pos) == IF ScalarCands[pos.ty] = {} THEN {NullV} ELSE Pick1(ScalarCands[pos.ty])
TScalars == UNION {ScalarCands[T] : T \in SubTypes(T0)} \cup {NullV}                 \* (cfg: Scalars <- TScalars)
TTrees == UNION {TreeCands[T] : T \in SubTypes(T0)}
TPrebuilt == {[v |-> v, impl |-> "basic"] : v \in TTrees}                             \* (cfg: Prebuilt <- TPrebuilt)
WrongScalars(pos) ==
  {s \in {Scalar("int", <<0, 9>>), Scalar("string", <<113>>), Scalar("bool", <<1>>), NullV} : ~Accepts(pos, s.k)}

\* ---- which key may come next
Fresh(k) == k \notin Range(Top.ks)
RequiredBefore(ft, i) == \A j \in 1..(i - 1) : ft.fs[j].opt \/ KeyName(ft, j) \in Range(Top.ks)
KeyLegal(k) ==
  /\ k \in FrameKeys(FT)
  /\ FT.k = "union" => Top.ks = <<>>
  /\ FT.k = "map" => Len(Top.ks) < (IF Deep THEN 1 ELSE 2)
\* a field supplied while an earlier one is still missing: out of order, or an optional one skipped
OrderCost(k) == IF FT.k = "struct" /\ \E j \in 1..(FieldIdx(FT, k) - 1) : KeyName(FT, j) \notin Range(Top.ks) THEN 1 ELSE 0
Note == thist' = Append(thist, IF tstack = <<>> THEN "top" ELSE FT.k)
Spend(c) == dev + c <= MaxDev /\ dev' = dev + c /\ Note
Keep == UNCHANGED dev /\ Note
SomeKeyLegal == \E k \in FrameKeys(FT) : Fresh(k) /\ KeyLegal(k)

FinishLegal ==
  LET f == Top IN
  CASE FT.k = "struct" /\ f.kind = "map" -> \A i \in DOMAIN FT.fs : FT.fs[i].opt \/ KeyName(FT, i) \in Range(f.ks)
    [] FT.k = "struct" /\ f.kind = "list" -> \A i \in DOMAIN FT.fs : i > Len(f.vs) => FT.fs[i].opt
    [] FT.k = "union" -> Len(f.ks) = 1
    [] OTHER -> TRUE

------------------------------------------------------------------------------
TInit == Init /\ tstack = <<>> /\ dev = 0 /\ thist = <<>> /\ Supported(T0)

TBegin(kind) ==
  /\ ValuePos /\ kind \in KindsAt(Pos.ty)
  /\ tstack' = Append(tstack, ResolveK(Pos.ty, kind))
  /\ Begin(kind, 0) /\ Keep

TAssembleKey ==
  /\ pc = "building" /\ Top.kind = "map"
  /\ SomeKeyLegal \/ (rejects < MaxRejects /\ Top.ks # <<>> /\ FT.k # "union")
  /\ AssembleKey /\ UNCHANGED tstack /\ Spend(1)

TKeyAssign(k, via) ==
  /\ pc = "building" /\ Top.kind = "map" /\ Top.st = "midKey" /\ KeyLegal(k)
  /\ KeyAssign(k, via) /\ UNCHANGED tstack /\ Spend(OrderCost(k) + (IF via = "keynode" THEN 1 ELSE 0))

TKeyRejectDup(k, via) ==
  /\ pc = "building" /\ Top.kind = "map" /\ Top.st = "midKey" /\ FT.k \in {"struct", "map"}
  /\ KeyRejectDup(k, via) /\ UNCHANGED tstack /\ Spend(IF via = "keynode" THEN 2 ELSE 1)

\* the named deviation of Assembler.tla (DeferredDupNext): a typed MAP refuses a repeated key that came through the key
\* assembler only through the assembler it hands out for the value.  Both styles are explored; TEmit says which one a
\* behaviour contains, and each engine is replayed on its own style only.
TKeyAssignDupUnnoticed(k, via) ==
  /\ pc = "building" /\ Top.kind = "map" /\ Top.st = "midKey" /\ FT.k = "map"
  /\ KeyAssignDupUnnoticed(k, via) /\ UNCHANGED tstack /\ Spend(IF via = "keynode" THEN 2 ELSE 1)

TAssembleValueDup == AssembleValueDup /\ UNCHANGED tstack /\ Keep

TRefusedDup ==
  /\ pc = "building" /\ Top.kind = "map" /\ Top.st = "midValueDup"
  /\ UNCHANGED tstack /\ Keep
  /\ \/ \E s \in CanonVals(Pos) : RefusedDup("AssignScalar", s, "")
     \/ \E v \in Pick1(TreeCands[Pos.ty]) : RefusedDup("AssignNode", v, "basic")
     \/ \E kind \in KindsAt(Pos.ty) \cap RecursiveKinds : RefusedDup(IF kind = "map" THEN "BeginMap" ELSE "BeginList", Nil, "")

TKeyWrongKind ==
  /\ pc = "building" /\ Top.kind = "map" /\ Top.st = "midKey" /\ Top.ks = <<>>
  /\ KeyWrongKind(Scalar("int", <<0, 9>>)) /\ UNCHANGED tstack /\ Spend(1)

TAssembleValue == AssembleValue /\ UNCHANGED tstack /\ Keep

TAssembleEntry(k) ==
  /\ pc = "building" /\ Top.kind = "map" /\ Top.st = "initial" /\ KeyLegal(k)
  /\ AssembleEntry(k) /\ UNCHANGED tstack /\ Spend(OrderCost(k))

TEntryRejectDup(k) ==
  /\ pc = "building" /\ Top.kind = "map" /\ Top.st = "initial" /\ FT.k \in {"struct", "map"}
  /\ EntryRejectDup(k) /\ UNCHANGED tstack /\ Spend(1)

TListAssembleValue ==
  /\ pc = "building" /\ Top.kind = "list" /\ Top.st = "initial"
  /\ IF FT.k = "struct" THEN Len(Top.vs) < Len(FT.fs) ELSE Len(Top.vs) < (IF Deep THEN 1 ELSE 2)
  /\ ListAssembleValue /\ UNCHANGED tstack /\ Keep

TAssignScalar(s) ==
  /\ ValuePos /\ s \in ValueCands(Pos)
  /\ AssignScalar(s) /\ UNCHANGED tstack /\ Spend(IF s \in CanonVals(Pos) THEN 0 ELSE 1)

TAssignNode(v) ==
  /\ ValuePos /\ v \in TreeCands[Pos.ty]
  /\ AssignNode([v |-> v, impl |-> "basic"]) /\ UNCHANGED tstack /\ Spend(1)

\* a kind (or a null) the position cannot hold: reported by that call; nothing further is pinned down
TWrongKindScalar(s) ==
  /\ ValuePos /\ s \in WrongScalars(Pos)
  /\ rejects < MaxRejects
  /\ pc' = "dead" /\ rejects' = rejects + 1
  /\ UNCHANGED <<stack, cur, results, nodes, resets, tstack>> /\ Spend(1)
  /\ Log("AssignScalar", 0, <<>>, s, "", "wrong_kind")

TWrongKindBegin(kind) ==
  /\ ValuePos /\ kind \notin KindsAt(Pos.ty)
  /\ rejects < MaxRejects
  /\ pc' = "dead" /\ rejects' = rejects + 1
  /\ UNCHANGED <<stack, cur, results, nodes, resets, tstack>> /\ Spend(1)
  /\ Log(IF kind = "map" THEN "BeginMap" ELSE "BeginList", 0, <<>>, Nil, "", "wrong_kind")

TFinish ==
  /\ pc = "building" /\ Top.st = "initial" /\ FinishLegal
  /\ tstack' = SubSeq(tstack, 1, Len(tstack) - 1)
  /\ Finish /\ Keep

TBuild == Build /\ UNCHANGED tstack /\ Keep

TNext ==
  \/ \E kind \in RecursiveKinds : TBegin(kind) \/ TWrongKindBegin(kind)
  \/ TAssembleKey \/ TAssembleValue \/ TListAssembleValue \/ TFinish \/ TBuild \/ TKeyWrongKind
  \/ \E k \in TKeys, via \in {"keyvalue", "keynode"} : TKeyAssign(k, via) \/ TKeyRejectDup(k, via) \/ TKeyAssignDupUnnoticed(k, via)
  \/ TAssembleValueDup \/ TRefusedDup
  \/ \E k \in TKeys : TAssembleEntry(k) \/ TEntryRejectDup(k)
  \/ \E s \in TScalars : TAssignScalar(s)
  \/ \E s \in {Scalar("int", <<0, 9>>), Scalar("string", <<113>>), Scalar("bool", <<1>>), NullV} : TWrongKindScalar(s)
  \/ \E v \in TTrees : TAssignNode(v)

TSpec == TInit /\ [][TNext]_tvars

------------------------------------------------------------------------------
\* B3: every behaviour of the typed machine is a behaviour of the generic one (checked as a property),
\* and its invariants hold here too
RefinesGeneric == [][Next \/ DeferredDupNext \/ pc' = "dead"]_vars

\* B3: the step-level notion of a legal sequence agrees with the whole-input function of Schema.tla
LegalIsConforming == pc \in {"finished", "built"} => From(T0, cur).ok

\* a complete typed value denotes consistent views
BuiltViewsConsistent ==
  pc = "built" => LET tv == From(T0, cur).v
                  IN FromRepr(T0, ReprOf(T0, tv)) = Res(TRUE, tv) /\ FromType(T0, Feed(T0, tv)) = Res(TRUE, tv)

\* which style of refusing a repeated key in a typed-map frame the behaviour contains
KeyCalls == {"KeyAssignString", "KeyAssignNode"}
EarlyMapDup == \E i \in DOMAIN hist : hist[i].r = "repeated_key" /\ hist[i].a \in KeyCalls /\ thist[i] = "map"
LateMapDup == \E i \in DOMAIN hist : hist[i].r = "repeated_key" /\ hist[i].a \notin KeyCalls \cup {"AssembleEntry"}

TEmit ==
  Complete =>
    LET r == IF pc = "built" THEN From(T0, cur) ELSE BadW("dead")
    IN PrintT(ToJson([ty |-> T0, level |-> Level, steps |-> hist, ft |-> thist, pc |-> pc, ok |-> r.ok, tv |-> r.v,
                      early |-> EarlyMapDup, late |-> LateMapDup,
                      repr |-> IF r.ok THEN ReprOf(T0, r.v) ELSE Nil]))
=============================================================================
