------------------------------- MODULE BindGen -------------------------------
EXTENDS Bind, Json
GenTypes == {1, 2, 3}
GenNested == [t \in GenTypes |-> IF t = 3 THEN {1} ELSE {}]     \* type 3 contains type 1
\* non-trivial histories: at least one inferred bind (the others cannot touch the global state)
Emit == (Done /\ \E i \in DOMAIN hist : hist[i].mode = "inferred") => PrintT(ToJson([steps |-> hist]))
=============================================================================
