---------------------------- MODULE StorageProof ----------------------------
(***************************************************************************)
(* The storage contract for EVERY number of keys and operations and every  *)
(* set of put / get routes (TLAPS): keys never alias (TypeOK), what is     *)
(* stored stays stored (Monotone), and a key reads as present exactly when *)
(* an acknowledged put of it precedes the read (the state-level core of    *)
(* ReadsReflectPuts: presence <=> an acknowledged put is in the history).  *)
(***************************************************************************)
EXTENDS Storage, SequenceTheorems, TLAPS

ASSUME NKNat == NK \in Nat /\ PutVias \subseteq STRING /\ GetVias \subseteq STRING

PutIn(h, k) == \E j \in DOMAIN h : h[j].a = "put" /\ h[j].k = k /\ h[j].r = "ok"

IndInv ==
  /\ store \in [K -> Nat]
  /\ hist \in Seq([a : STRING, k : K, via : STRING, r : STRING, st : [K -> Nat]])
  /\ TypeOK
  /\ \A k \in K : store[k] # NONE <=> PutIn(hist, k)

LEMMA InitInv == Init => IndInv
  BY NKNat DEF Init, IndInv, TypeOK, PutIn, NONE, Content, K

LEMMA StepInv == IndInv /\ [Next]_vars => IndInv' /\ (\A k \in K : store[k] # NONE => store'[k] = store[k])
<1> SUFFICES ASSUME IndInv, [Next]_vars PROVE IndInv' /\ (\A k \in K : store[k] # NONE => store'[k] = store[k])
  OBVIOUS
<1> USE NKNat
<1>1. ASSUME NEW k \in K, NEW via \in PutVias, Put(k, via) PROVE IndInv' /\ (\A kk \in K : store[kk] # NONE => store'[kk] = store[kk])
  BY <1>1 DEF Put, PutEffect, Log, IndInv, TypeOK, PutIn, NONE, Content, K
<1>2. ASSUME NEW k \in K, NEW via \in PutVias, PutRefused(k, via) PROVE IndInv' /\ (\A kk \in K : store[kk] # NONE => store'[kk] = store[kk])
  BY <1>2 DEF PutRefused, Log, IndInv, TypeOK, PutIn, NONE, Content, K
<1>3. ASSUME NEW k \in K, NEW via \in GetVias, Get(k, via) PROVE IndInv' /\ (\A kk \in K : store[kk] # NONE => store'[kk] = store[kk])
  BY <1>3 DEF Get, GetResult, Log, IndInv, TypeOK, PutIn, NONE, Content, K
<1>4. ASSUME NEW k \in K, Has(k) PROVE IndInv' /\ (\A kk \in K : store[kk] # NONE => store'[kk] = store[kk])
  BY <1>4 DEF Has, HasResult, Log, IndInv, TypeOK, PutIn, NONE, Content, K
<1>5. ASSUME UNCHANGED vars PROVE IndInv' /\ (\A kk \in K : store[kk] # NONE => store'[kk] = store[kk])
  BY <1>5 DEF vars, IndInv, TypeOK, PutIn, NONE, Content, K
<1> QED
  BY <1>1, <1>2, <1>3, <1>4, <1>5 DEF Next

THEOREM Contract == Spec => [](TypeOK /\ \A k \in K : store[k] # NONE <=> PutIn(hist, k)) /\ Monotone
<1>1. IndInv => (TypeOK /\ \A k \in K : store[k] # NONE <=> PutIn(hist, k))
  BY DEF IndInv
<1>2. Spec => []IndInv
  BY InitInv, StepInv, PTL DEF Spec
<1>3. Spec => Monotone
  BY InitInv, StepInv, PTL DEF Spec, Monotone
<1> QED
  BY <1>1, <1>2, <1>3, PTL
=============================================================================
