------------------------------ MODULE PathsGen ------------------------------
(***************************************************************************)
(* C14, the parts that are not about walks: resolving arbitrary paths      *)
(* (existing, partially existing, wrong kind of segment, below a scalar,   *)
(* through links) with Traversal!Resolve, and the string form of paths     *)
(* (datamodel.Path.String / ParsePath): join with "/", split on "/"        *)
(* dropping empty pieces.                                                  *)
(***************************************************************************)
EXTENDS TraversalGen

VARIABLE probe
pvars == <<probe>>

\* ---- string form
RECURSIVE JoinSegs(_)
JoinSegs(p) == IF p = <<>> THEN <<>> ELSE IF Len(p) = 1 THEN p[1] ELSE p[1] \o <<47>> \o JoinSegs(Tail(p))

RECURSIVE SplitAcc(_, _, _)
SplitAcc(s, cur, acc) ==
  IF s = <<>> THEN (IF cur = <<>> THEN acc ELSE Append(acc, cur))
  ELSE IF s[1] = 47 THEN SplitAcc(Tail(s), <<>>, IF cur = <<>> THEN acc ELSE Append(acc, cur))
  ELSE SplitAcc(Tail(s), Append(cur, s[1]), acc)
SplitStr(s) == SplitAcc(s, <<>>, <<>>)

SegAlphabet == { <<>>, <<47>>, <<97, 47, 98>>, <<48>>, <<48, 49>>, <<45>>, <<97>>, <<195, 169>>, <<46, 46>>, <<32>> }
StrPaths == UNION {{<<x>>, <<x, y>>, <<x, y, z>>} : x \in SegAlphabet, y \in SegAlphabet, z \in {<<97>>, <<>>, <<47>>}} \cup {<<>>}

\* arbitrary STRINGS handed to ParsePath (it is reachable from untrusted input): everything over {a, 0, /} up to five bytes
RECURSIVE StrsUpTo(_)
StrsUpTo(len) == IF len = 0 THEN {<<>>}
                 ELSE LET shorter == StrsUpTo(len - 1) IN shorter \cup {Append(str, byte) : str \in shorter, byte \in {97, 48, 47}}
ParseStrs(dummy) == StrsUpTo(5) \cup {<<47, 47, 47, 47, 47, 47, 47>>, <<97, 47, 98, 47, 47, 47>>, <<195, 169, 47, 47>>}

\* ---- paths are VALUES: every operation is a function of its operands and leaves them as they were
\* (probe kind "alg": the harness derives the paths in this order from shared parents and checks all of them at the end)
AlgSegs == {<<97>>, <<98>>, <<48>>}
RECURSIVE AlgPaths(_)
AlgPaths(len) == IF len = 0 THEN {<<>>} ELSE LET shorter == AlgPaths(len - 1) IN shorter \cup {Append(pp, sg) : pp \in shorter, sg \in AlgSegs}
AlgProbes(dummy) == {[kind |-> "alg", gi |-> 0, path |-> pp, q |-> qq, r |-> rr]
                       : pp \in AlgPaths(3) \ {<<>>}, qq \in AlgPaths(2) \ {<<>>}, rr \in {<<<<122>>>>, <<<<121>>, <<120>>>>}}
PParent(pp) == SubSeq(pp, 1, Len(pp) - 1)
AlgExpect(pp, qq, rr) ==
  [parent |-> PParent(pp), j1 |-> PParent(pp) \o qq, j2 |-> PParent(pp) \o rr,
   a1 |-> Append(SubSeq(pp, 1, 1), qq[1]), a2 |-> Append(SubSeq(pp, 1, 1), rr[1]),
   jj |-> (PParent(pp) \o qq) \o rr, tail |-> Tail(pp), last |-> pp[Len(pp)]]

Clean(p) == \A i \in DOMAIN p : p[i] # <<>> /\ \A j \in DOMAIN p[i] : p[i][j] # 47

\* ---- resolution probes: every existing path (depth <= 3) extended by nothing or by one odd segment
\* ... among them list indices that do not exist: 10, 2^64, 2^64 + 1 (congruent to 1 modulo 2^64), 2^63, a 30-digit number
Digits(str) == [i \in DOMAIN str |-> str[i] + 48]
OddSegs == { <<122, 122>>, <<57>>, <<120>>, <<97>>, <<48>>, <<49, 48>>,
             Digits(<<1, 8, 4, 4, 6, 7, 4, 4, 0, 7, 3, 7, 0, 9, 5, 5, 1, 6, 1, 6>>),
             Digits(<<1, 8, 4, 4, 6, 7, 4, 4, 0, 7, 3, 7, 0, 9, 5, 5, 1, 6, 1, 7>>),
             Digits(<<9, 2, 2, 3, 3, 7, 2, 0, 3, 6, 8, 5, 4, 7, 7, 5, 8, 0, 8>>),
             Digits(<<1, 0, 0, 0, 0, 0, 0, 0, 0, 0, 0, 0, 0, 0, 0, 0, 0, 0, 0, 0, 0, 0, 0, 0, 0, 0, 0, 0, 0, 1>>) }
GetProbes ==
  UNION {{[gi |-> gi, path |-> p \o ext] : p \in PathsOf(Graphs[gi], Graphs[gi][1], 3),
                                             ext \in {<<>>} \cup {<<o>> : o \in OddSegs}}
         : gi \in DOMAIN Graphs}

Init2 == /\ case = [g |-> G7, sel |-> SMatch, cfg |-> NoCfg] /\ frames = <<>> /\ visits = <<>> /\ loads = <<>>
         /\ nb = -1 /\ lb = -1 /\ seen = {} /\ err = <<>> /\ done = TRUE      \* the walk machine is idle here
         /\ probe \in ({[kind |-> "str", gi |-> 0, path |-> p] : p \in StrPaths}
                    \cup {[kind |-> "parse", gi |-> 0, path |-> <<str>>] : str \in ParseStrs(0)}
                    \cup AlgProbes(0)
                    \cup {[kind |-> "get", gi |-> x.gi, path |-> x.path] : x \in GetProbes})
Next2 == UNCHANGED <<probe, vars>>
Spec2 == Init2 /\ [][Next2]_<<probe, vars>>

\* a path survives formatting and re-parsing exactly when no segment is empty or contains a slash
\* what ParsePath returns never holds an empty segment or a separator, and formatting it again loses nothing more
ParseIsClean ==
  probe.kind = "parse" => LET p == SplitStr(probe.path[1]) IN Clean(p) /\ SplitStr(JoinSegs(p)) = p

RoundTripIffClean ==
  probe.kind = "str" => ((SplitStr(JoinSegs(probe.path)) = probe.path) <=> Clean(probe.path))

\* resolution fails exactly when some segment does not exist or a scalar is reached early
RECURSIVE Exists(_, _, _)
Exists(g, n, path) ==
  LET m == IF n.k = "link" THEN g[n.a[1]] ELSE n IN
  IF path = <<>> THEN TRUE
  ELSE IF m.k \notin RecursiveKinds THEN FALSE
  ELSE \E i \in DOMAIN Children(m) : Children(m)[i][1] = path[1] /\ Exists(g, Children(m)[i][2], Tail(path))
ResolveIffExists ==
  probe.kind = "get" =>
     LET g == Graphs[probe.gi] IN (Resolve(g, g[1], probe.path) # <<>>) <=> Exists(g, g[1], probe.path)

Emit2 ==
  PrintT(ToJson(
    IF probe.kind = "alg"
      THEN [kind |-> "alg", g |-> <<>>, path |-> probe.path, joined |-> <<>>, split |-> <<>>, ok |-> TRUE, node |-> Nil,
            q |-> probe.q, r |-> probe.r, alg |-> AlgExpect(probe.path, probe.q, probe.r)]
    ELSE IF probe.kind = "parse"
      THEN [kind |-> "parse", g |-> <<>>, path |-> <<>>, joined |-> probe.path[1],
            split |-> SplitStr(probe.path[1]), ok |-> TRUE, node |-> Nil]
    ELSE IF probe.kind = "str"
      THEN [kind |-> "str", g |-> <<>>, path |-> probe.path, joined |-> JoinSegs(probe.path),
            split |-> SplitStr(JoinSegs(probe.path)), ok |-> TRUE, node |-> Nil]
      ELSE LET g == Graphs[probe.gi]  r == Resolve(g, g[1], probe.path)
           IN [kind |-> "get", g |-> g, path |-> probe.path, joined |-> <<>>, split |-> <<>>,
               ok |-> (r # <<>>), node |-> IF r = <<>> THEN Nil ELSE r[1]]))
=============================================================================
