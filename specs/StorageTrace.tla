---------------------------- MODULE StorageTrace ----------------------------
(***************************************************************************)
(* Trace validation (code -> specification) for Storage.tla: histories     *)
(* recorded from the real stores (hundreds of calls, a dozen keys, every   *)
(* put / get variant) are accepted only if every call returned what the    *)
(* contract prescribes in the state the map was in.  Many traces are       *)
(* concatenated; a "reset" event starts a fresh store.                     *)
(***************************************************************************)
EXTENDS Storage, Json

Tr == ndJsonDeserialize("trace.ndjson")

VARIABLE l
tvars == <<store, l>>

TraceInit == store = [k \in K |-> NONE] /\ l = 1 /\ n = 0 /\ ret = "" /\ hist = <<>>

Ev == Tr[l]
TraceNext ==
  /\ l <= Len(Tr) /\ l' = l + 1
  /\ UNCHANGED <<n, ret, hist>>
  /\ \/ Ev.a = "reset" /\ store' = [k \in K |-> NONE]
     \/ Ev.a = "put" /\ Ev.r = "ok" /\ PutEffect(Ev.k)
     \/ Ev.a = "put" /\ Ev.r = "refused" /\ UNCHANGED store
     \/ Ev.a = "get" /\ Ev.r = GetResult(Ev.k) /\ UNCHANGED store
     \/ Ev.a = "has" /\ Ev.r = HasResult(Ev.k) /\ UNCHANGED store

TraceSpec == TraceInit /\ [][TraceNext]_<<store, l, n, ret, hist>>

TraceAccepted ==
  LET d == TLCGet("stats").diameter IN
  IF d - 1 = Len(Tr) THEN TRUE
  ELSE Print(<<"TRACE-REJECTED at event", d, Tr[d]>>, FALSE)
=============================================================================
