------------------------------ MODULE LinkOps ------------------------------
(***************************************************************************)
(* C05: histories of Store / ComputeLink / Load / LoadRaw / LoadPlusRaw /  *)
(* Fill on one link system and storage.  The specified link is a function  *)
(* of (prototype, value) ONLY: not of the variant (node implementation,    *)
(* map insertion order) and not of what happened before.                   *)
(***************************************************************************)
EXTENDS Integers, Sequences, FiniteSets, TLC

CONSTANTS Values, Protos, Variants, MaxOps

VARIABLES have,   \* set of <<proto, value>> whose block is in storage
          n, hist
vars == <<have, n, hist>>

LinkOf(p, v) == <<p, v>>       \* abstract link identity: prototype and value, nothing else

Log(a, p, v, var, r) == hist' = Append(hist, [a |-> a, p |-> p, v |-> v, var |-> var, r |-> r,
                                              link |-> LinkOf(p, v)])

Init == have = {} /\ n = 0 /\ hist = <<>>

Store(p, v, var) ==
  /\ n < MaxOps /\ n' = n + 1
  /\ have' = have \cup {<<p, v>>}
  /\ Log("Store", p, v, var, "ok")

Compute(p, v, var) ==
  /\ n < MaxOps /\ n' = n + 1
  /\ UNCHANGED have
  /\ Log("ComputeLink", p, v, var, "ok")

Load(p, v, mode) ==
  /\ n < MaxOps /\ n' = n + 1
  /\ UNCHANGED have
  /\ Log(mode, p, v, "", IF <<p, v>> \in have THEN "ok" ELSE "notfound")

Next == \E p \in Protos, v \in Values :
          \/ \E var \in Variants : Store(p, v, var) \/ Compute(p, v, var)
          \/ \E mode \in {"Load", "LoadRaw", "LoadPlusRaw", "Fill"} : Load(p, v, mode)
Spec == Init /\ [][Next]_vars

\* the link of an operation never depends on the variant or on the history before it
LinkIsFunctionOfValueAndPrototype ==
  \A i, j \in DOMAIN hist :
     (hist[i].p = hist[j].p /\ hist[i].v = hist[j].v) <=> (hist[i].link = hist[j].link)
LoadAfterStore ==
  \A i \in DOMAIN hist : hist[i].a \in {"Load", "LoadRaw", "LoadPlusRaw", "Fill"} =>
     (hist[i].r = "ok" <=> \E j \in 1..(i - 1) : hist[j].a = "Store" /\ hist[j].p = hist[i].p /\ hist[j].v = hist[i].v)
Done == n = MaxOps
=============================================================================
