------------------------------ MODULE Storage ------------------------------
(***************************************************************************)
(* The block-storage contract (storage.ReadableStorage / WritableStorage   *)
(* and the feature-detected streaming / vector / peek variants) under      *)
(* content-addressed use: every key is only ever given one content.        *)
(*                                                                         *)
(* One action per public call.  A store may REFUSE a put with an error     *)
(* (e.g. a key its backend cannot represent): that is a named action with  *)
(* no effect; the property only speaks about successful puts.              *)
(***************************************************************************)
EXTENDS Integers, Sequences, FiniteSets, TLC

CONSTANTS NK, MaxOps, PutVias, GetVias

K == 1..NK
NONE == 0
Content(k) == k        \* the one content key k is ever given (concretised by the harness)

VARIABLES store, n, ret, hist
vars == <<store, n, ret, hist>>

Log(a, k, via, r) == /\ ret' = r
                     /\ hist' = Append(hist, [a |-> a, k |-> k, via |-> via, r |-> r,
                                              st |-> store'])

Init == store = [k \in K |-> NONE] /\ n = 0 /\ ret = "" /\ hist = <<>>

(* the contract itself: effect on the map and the result each call must return *)
PutEffect(k)  == store' = [store EXCEPT ![k] = Content(k)]
GetResult(k)  == IF store[k] = NONE THEN "notfound" ELSE "found"
HasResult(k)  == IF store[k] = NONE THEN "false" ELSE "true"

(* Put / PutStream+commit / PutVec; afterwards the caller scribbles over the buffer it passed *)
Put(k, via) ==
  /\ n < MaxOps
  /\ PutEffect(k)
  /\ n' = n + 1
  /\ Log("put", k, via, "ok")

PutRefused(k, via) ==
  /\ n < MaxOps /\ store[k] = NONE
  /\ UNCHANGED store /\ n' = n + 1
  /\ Log("put", k, via, "refused")

(* Get / GetStream / Peek *)
Get(k, via) ==
  /\ n < MaxOps
  /\ UNCHANGED store /\ n' = n + 1
  /\ Log("get", k, via, GetResult(k))

Has(k) ==
  /\ n < MaxOps
  /\ UNCHANGED store /\ n' = n + 1
  /\ Log("has", k, "", HasResult(k))

Next == \E k \in K : \/ \E via \in PutVias : Put(k, via) \/ PutRefused(k, via)
                     \/ \E via \in GetVias : Get(k, via)
                     \/ Has(k)
Spec == Init /\ [][Next]_vars

(* C17 on the specification *)
TypeOK == \A k \in K : store[k] \in {NONE, Content(k)}      \* keys never alias: k only ever holds k's content
Monotone == [][\A k \in K : store[k] # NONE => store'[k] = store[k]]_vars
ReadsReflectPuts ==
  \A i \in DOMAIN hist :
     LET e == hist[i]
         putBefore == \E j \in 1..(i - 1) : hist[j].a = "put" /\ hist[j].k = e.k /\ hist[j].r = "ok"
     IN /\ e.a = "get" => (e.r = "found" <=> putBefore)
        /\ e.a = "has" => (e.r = "true" <=> putBefore)

Done == n = MaxOps
=============================================================================
