------------------------------ MODULE Selector ------------------------------
(***************************************************************************)
(* The selector language of traversal/selector: AST, compile rules, and    *)
(* the three operations the walk uses -- Interests, Explore, Match --      *)
(* transcribed clause by clause (one operator case per selector type, as   *)
(* in explore*.go / matcher.go), including ExploreRecursive's continuation *)
(* with hasRecursiveEdge / replaceRecursiveEdge.                           *)
(*                                                                         *)
(* Selectors are uniform records [t, a, ks, ss]:                           *)
(*   match   t="match"   a=<<>>                                            *)
(*   subset  t="subset"  a=<<from, to>>        (matcher with a slice)      *)
(*   all     t="all"     ss=<<next>>                                       *)
(*   fields  t="fields"  ks=<<key..>> ss=<<sel..>>   (selector's own order)*)
(*   index   t="index"   a=<<i>>  ss=<<next>>                              *)
(*   range   t="range"   a=<<start, end>> ss=<<next>>                      *)
(*   union   t="union"   ss=members                                        *)
(*   rec     t="rec"     a=<<limit, stop>> ss=<<sequence>>                 *)
(*           limit -1 = none; stop = block id of the stop-at link or -1    *)
(*   edge    t="edge"                                                      *)
(*   recst   t="recst"   a=<<limit, stop>> ss=<<sequence, current>>        *)
(*           (the runtime continuation ExploreRecursive{sequence,current}) *)
(* A path segment is a byte string; list element i has the segment that    *)
(* is the decimal string of i (single digit in the bounded instances).     *)
(***************************************************************************)
EXTENDS DataModel

Sel(t, a, ks, ss) == [t |-> t, a |-> a, ks |-> ks, ss |-> ss]
NILSEL   == Sel("nil", <<>>, <<>>, <<>>)
SMatch   == Sel("match", <<>>, <<>>, <<>>)
SSubset(f, t) == Sel("subset", <<f, t>>, <<>>, <<>>)
SAll(n)  == Sel("all", <<>>, <<>>, <<n>>)
SFields(ks, ss) == Sel("fields", <<>>, ks, ss)
SIndex(i, n) == Sel("index", <<i>>, <<>>, <<n>>)
SRange(s, e, n) == Sel("range", <<s, e>>, <<>>, <<n>>)
SUnion(ms) == Sel("union", <<>>, <<>>, ms)
SRec(limit, stop, seq) == Sel("rec", <<limit, stop>>, <<>>, <<seq>>)
SEdge == Sel("edge", <<>>, <<>>, <<>>)
\* ExploreInterpretAs: the node is replaced by its reification through a named ADL before anything else happens at it, and
\* the walk carries on there with `next`.  One ADL is modelled ("rev", registered by the harness): see Reify.
SAs(n) == Sel("as", <<>>, <<>>, <<n>>)
SRecSt(limit, stop, seq, cur) == Sel("recst", <<limit, stop>>, <<>>, <<seq, cur>>)

RECURSIVE DecDigits(_)
DecDigits(i) == IF i < 10 THEN <<48 + i>> ELSE Append(DecDigits(i \div 10), 48 + (i % 10))
IdxSeg(i) == DecDigits(i)                   \* the decimal string of an index
\* a list index as a path segment: canonical decimal digits.  Values are only ever compared with small list lengths and
\* selector indices, so anything longer than three digits stands for "beyond every list" (TLC integers are 32 bits wide,
\* the segments probed go beyond 2^64)
IsIdxSeg(seg) == /\ Len(seg) >= 1 /\ \A i \in DOMAIN seg : seg[i] >= 48 /\ seg[i] <= 57
                 /\ (Len(seg) = 1 \/ seg[1] # 48)
SegIdx(seg) == IF Len(seg) > 3 THEN 1000000
               ELSE LET F[i \in 0..Len(seg)] == IF i = 0 THEN 0 ELSE F[i - 1] * 10 + (seg[i] - 48) IN F[Len(seg)]

\* children of a node as <<segment, child>> pairs in the node's own iteration order
Children(n) ==
  IF n.k = "map" THEN [i \in DOMAIN n.vs |-> <<n.ks[i], n.vs[i]>>]
  ELSE IF n.k = "list" THEN [i \in DOMAIN n.vs |-> <<IdxSeg(i - 1), n.vs[i]>>]
  ELSE <<>>

------------------------------------------------------------------------------
(* compile rules (ParseSelector): which ASTs compile at all *)
RECURSIVE CountEdges(_)
CountEdges(s) ==
  IF s.t = "edge" THEN 1
  ELSE IF s.t = "rec" THEN 0          \* edges below an inner recursion belong to it
  ELSE LET F[i \in 0..Len(s.ss)] == IF i = 0 THEN 0 ELSE F[i - 1] + CountEdges(s.ss[i])
       IN F[Len(s.ss)]

\* the parser links every edge to the INNERMOST enclosing recursion (PushParent prepends), and a
\* recursion must own at least one edge
RECURSIVE Compiles(_, _)
Compiles(s, underRec) ==
  CASE s.t \in {"match"} -> TRUE
    [] s.t = "subset" -> ~(s.a[2] >= 0 /\ s.a[1] > s.a[2])
    [] s.t = "edge"   -> underRec
    [] s.t = "range"  -> s.a[1] < s.a[2] /\ Compiles(s.ss[1], underRec)
    [] s.t \in {"all", "index"} -> Compiles(s.ss[1], underRec)
    [] s.t \in {"fields", "union"} -> \A i \in DOMAIN s.ss : Compiles(s.ss[i], underRec)
    [] s.t = "rec" -> Compiles(s.ss[1], TRUE) /\ CountEdges(s.ss[1]) > 0
    [] s.t = "as" -> Compiles(s.ss[1], underRec)
    [] OTHER -> FALSE

------------------------------------------------------------------------------
(* Interests: "ALL" (nil in the code: iterate every child) or a sequence of segments *)
ALL == <<<<-1>>>>

RECURSIVE Interests(_)
Interests(s) ==
  CASE s.t \in {"match", "subset", "edge"} -> <<>>
    [] s.t = "all"    -> ALL
    [] s.t = "fields" -> s.ks
    [] s.t = "index"  -> <<IdxSeg(s.a[1])>>
    [] s.t = "range"  -> [i \in 1..(s.a[2] - s.a[1]) |-> IdxSeg(s.a[1] + i - 1)]
    [] s.t = "union"  ->
         IF \E i \in DOMAIN s.ss : Interests(s.ss[i]) = ALL THEN ALL
         ELSE LET F[i \in 0..Len(s.ss)] == IF i = 0 THEN <<>> ELSE F[i - 1] \o Interests(s.ss[i])
              IN F[Len(s.ss)]        \* concatenated, NOT de-duplicated (as in the code)
    [] s.t = "rec"    -> Interests(s.ss[1])
    [] s.t = "recst"  -> Interests(s.ss[2])
    [] s.t = "as"     -> Interests(s.ss[1])

\* hasRecursiveEdge / replaceRecursiveEdge: look through unions only
RECURSIVE HasEdge(_)
HasEdge(s) == s.t = "edge" \/ (s.t = "union" /\ \E i \in DOMAIN s.ss : HasEdge(s.ss[i]))

RECURSIVE ReplaceEdge(_, _)
ReplaceEdge(s, repl) ==
  IF s.t = "edge" THEN repl
  ELSE IF s.t = "union" THEN
    LET ms == SelectSeq([i \in DOMAIN s.ss |-> ReplaceEdge(s.ss[i], repl)], LAMBDA x : x # NILSEL)
    IN IF ms = <<>> THEN NILSEL ELSE IF Len(ms) = 1 THEN ms[1] ELSE SUnion(ms)
  ELSE s

\* Explore(s, n, seg, child): the selector that applies to child `seg` of node n (NILSEL: do not explore).
\* `child` is the child node itself (needed by stop-at conditions).
RECURSIVE Explore(_, _, _, _)
Explore(s, n, seg, child) ==
  CASE s.t \in {"match", "subset"} -> NILSEL
    [] s.t = "all"    -> s.ss[1]
    [] s.t = "fields" -> IF \E i \in DOMAIN s.ks : s.ks[i] = seg
                           THEN s.ss[CHOOSE i \in DOMAIN s.ks : s.ks[i] = seg /\ \A j \in DOMAIN s.ks : s.ks[j] = seg => j <= i]
                           ELSE NILSEL       \* a map: the LAST duplicate would win; keys are distinct here
    [] s.t = "index"  -> IF n.k = "list" /\ IsIdxSeg(seg) /\ SegIdx(seg) = s.a[1] THEN s.ss[1] ELSE NILSEL
    [] s.t = "range"  -> IF n.k = "list" /\ IsIdxSeg(seg) /\ SegIdx(seg) >= s.a[1] /\ SegIdx(seg) < s.a[2]
                           THEN s.ss[1] ELSE NILSEL
    [] s.t = "union"  ->
         LET rs == SelectSeq([i \in DOMAIN s.ss |-> Explore(s.ss[i], n, seg, child)], LAMBDA x : x # NILSEL)
         IN IF rs = <<>> THEN NILSEL ELSE IF Len(rs) = 1 THEN rs[1] ELSE SUnion(rs)
    [] s.t = "as"     -> s.ss[1]       \* (only reached where the walk did not unwrap the clause: inside a union, under a recursion)
    [] s.t = "rec"    -> Explore(SRecSt(s.a[1], s.a[2], s.ss[1], s.ss[1]), n, seg, child)
    [] s.t = "recst"  ->
         LET limit == s.a[1]  stop == s.a[2]  seq == s.ss[1]  cur == s.ss[2] IN
         IF stop >= 0 /\ child.k = "link" /\ child.a = <<stop>> THEN NILSEL
         ELSE IF cur.t = "edge" THEN NILSEL
         ELSE LET nx == Explore(cur, n, seg, child) IN
              IF nx = NILSEL THEN NILSEL
              ELSE IF ~HasEdge(nx) THEN SRecSt(limit, stop, seq, nx)
              ELSE IF limit = -1 THEN SRecSt(limit, stop, seq, ReplaceEdge(nx, seq))
              ELSE IF limit < 2 THEN ReplaceEdge(nx, NILSEL)
              ELSE SRecSt(limit - 1, stop, seq, ReplaceEdge(nx, seq))
    [] OTHER -> NILSEL

RECURSIVE HasAs(_)
HasAs(s) == s.t = "as" \/ \E i \in DOMAIN s.ss : HasAs(s.ss[i])

\* the ADL "rev": a list with its elements, a map with its entries, in reverse order; every other node is itself
Reverse(q) == [i \in DOMAIN q |-> q[Len(q) + 1 - i]]
Reify(n) == IF n.k = "list" THEN ListV(Reverse(n.vs))
            ELSE IF n.k = "map" THEN MapV(Reverse(n.ks), Reverse(n.vs))
            ELSE n

\* sliceBounds(from, to, length): [ok, from, to]
SliceBounds(from, to, len) ==
  LET t1 == IF to < 0 THEN len + to ELSE IF len < to THEN len ELSE to
      f1 == IF from < 0 THEN (IF len + from < 0 THEN 0 ELSE len + from) ELSE from
  IN IF f1 > t1 \/ f1 >= len THEN [ok |-> FALSE, f |-> 0, t |-> 0] ELSE [ok |-> TRUE, f |-> f1, t |-> t1]

\* Match(s, n): Nil (no match: visited as a candidate) or the matched node (sliced for subsets)
RECURSIVE MatchOf(_, _)
MatchOf(s, n) ==
  CASE s.t = "match"  -> n
    [] s.t = "subset" ->
         IF n.k \in {"string", "bytes"} THEN
           LET b == SliceBounds(s.a[1], s.a[2], Len(n.a))
           IN IF b.ok THEN Scalar(n.k, SubSeq(n.a, b.f + 1, b.t)) ELSE Nil
         ELSE Nil
    [] s.t = "union"  ->
         LET ms == SelectSeq([i \in DOMAIN s.ss |-> MatchOf(s.ss[i], n)], LAMBDA x : x # Nil)
         IN IF ms = <<>> THEN Nil ELSE ms[1]
    [] s.t = "rec"    -> MatchOf(s.ss[1], n)
    [] s.t = "recst"  -> MatchOf(s.ss[2], n)
    [] OTHER -> Nil
=============================================================================
