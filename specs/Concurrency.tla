----------------------------- MODULE Concurrency -----------------------------
(***************************************************************************)
(* Shared immutable objects used from many goroutines (C20).               *)
(*                                                                         *)
(* Every public "read-only" operation is a begin / end pair with a         *)
(* declared footprint over abstract shared cells (the memory of a finished *)
(* node, a compiled selector, a type system, the link system and its       *)
(* read-only store, the codec registry, bindnode's inferred-schema cache).  *)
(* Goroutines interleave at begin / end granularity.  The invariant        *)
(* NoConflict says that no write access overlaps another access to the     *)
(* same cell unless both hold the cell's lock; it tells which operation    *)
(* mixes are conflict-free BY THE DECLARED FOOTPRINTS.  The binding to the  *)
(* code is the Go race detector: the harness runs every mix TLC generates  *)
(* free-running under -race, which observes the real accesses (including   *)
(* cells the model does not know about), and compares every goroutine's    *)
(* results with the sequential run.                                        *)
(***************************************************************************)
EXTENDS Integers, Sequences, FiniteSets, TLC

CONSTANTS NG,        \* goroutines 1..NG
          OpsPer,    \* operations per goroutine
          OpNames    \* operations available

\* footprint: [r: cells read, w: cells written, lock: cells accessed under their lock]
FP(op) ==
  CASE op = "read-basic"      -> [r |-> {"node.basic"}, w |-> {}, lock |-> {}]
    [] op = "read-bind"       -> [r |-> {"node.bind", "typesystem"}, w |-> {}, lock |-> {}]
    [] op = "read-bind-repr"  -> [r |-> {"node.bind", "typesystem"}, w |-> {}, lock |-> {}]
    [] op = "deep-equal"      -> [r |-> {"node.basic", "node.bind", "typesystem"}, w |-> {}, lock |-> {}]
    [] op = "copy"            -> [r |-> {"node.basic"}, w |-> {}, lock |-> {}]
    [] op = "encode-cbor"     -> [r |-> {"node.basic", "node.bind", "typesystem"}, w |-> {}, lock |-> {}]
    [] op = "encode-json"     -> [r |-> {"node.basic"}, w |-> {}, lock |-> {}]
    [] op = "walk"            -> [r |-> {"node.basic", "selector", "linksystem", "store", "registry"}, w |-> {}, lock |-> {}]
    [] op = "load"            -> [r |-> {"linksystem", "store", "registry"}, w |-> {}, lock |-> {}]
    [] op = "loadraw"         -> [r |-> {"linksystem", "store"}, w |-> {}, lock |-> {}]
    [] op = "build-basic"     -> [r |-> {}, w |-> {}, lock |-> {}]                      \* prototypes carry no state
    [] op = "build-bind"      -> [r |-> {"typesystem"}, w |-> {}, lock |-> {}]
    [] op = "wrap-explicit"   -> [r |-> {"typesystem"}, w |-> {}, lock |-> {}]
    \* Inferred schema types live in ONE process-wide type system ("inferred-universe").  A bind of a type that was inferred
    \* before finds it in the cache (infer.go inferMu) and then USES it: types resolve the types they refer to lazily, by
    \* name, in that universe, every time they are asked.  The first bind of a new type (infer-first) ADDS to the universe.
    \* Both touch the universe under its lock (schema.TypeSystem.mu) -- since fix 575120f; before it the reads were not
    \* locked, NoConflict failed for the mix (infer-first || proto-inferred) and the race detector said so on the code.
    [] op = "proto-inferred"  -> [r |-> {"inferred-universe"}, w |-> {"infercache"}, lock |-> {"infercache", "inferred-universe"}]
    [] op = "infer-first"     -> [r |-> {}, w |-> {"infercache", "inferred-universe"}, lock |-> {"infercache", "inferred-universe"}]
    [] op = "struct-lookup"   -> [r |-> {"node.bind", "typesystem"}, w |-> {}, lock |-> {}]
    [] op = "read-gen"        -> [r |-> {"node.gen"}, w |-> {}, lock |-> {}]            \* generated nodes carry their type in code
    [] op = "read-gen-repr"   -> [r |-> {"node.gen"}, w |-> {}, lock |-> {}]
    [] op = "encode-gen"      -> [r |-> {"node.gen", "registry"}, w |-> {}, lock |-> {}]
    [] op = "copy-gen"        -> [r |-> {"node.gen"}, w |-> {}, lock |-> {}]
    [] op = "build-gen"       -> [r |-> {}, w |-> {}, lock |-> {}]                      \* generated prototypes carry no state
    [] op = "ts-clone"        -> [r |-> {"typesystem"}, w |-> {}, lock |-> {}]       \* copying a type reads its source only
    [] op = "ts-merge"        -> [r |-> {"typesystem"}, w |-> {}, lock |-> {}]       \* the target is private to the caller
    \* binding one (Go type, schema type) pair with and without the custom converter that makes it compatible: the
    \* verdict (accepted / refused) is a function of the call's own arguments, so neither writes anything shared
    \* path resolution and a focused transform over a SHARED tree (the transform builds a new tree), and compiling a
    \* selector from a shared selector document followed by a walk with the private result
    [] op = "focus-get"       -> [r |-> {"node.basic", "linksystem", "store", "registry"}, w |-> {}, lock |-> {}]
    [] op = "transform"       -> [r |-> {"node.basic", "linksystem", "store", "registry"}, w |-> {}, lock |-> {}]
    [] op = "compile-selector" -> [r |-> {"selector.dmt", "node.basic", "linksystem", "store", "registry"}, w |-> {}, lock |-> {}]
    [] op = "load-fs"         -> [r |-> {"linksystem.fs", "store.fs", "registry"}, w |-> {}, lock |-> {}]   \* a shared filesystem store, read only
    [] op = "bind-plain"      -> [r |-> {"typesystem"}, w |-> {}, lock |-> {}]
    [] op = "bind-converter"  -> [r |-> {"typesystem"}, w |-> {}, lock |-> {}]

VARIABLES plan,     \* [1..NG -> Seq(op)]: what each goroutine will do (chosen at Init)
          pc,       \* [1..NG -> index of the operation in progress or next]
          active    \* [1..NG -> BOOLEAN]: between begin and end
vars == <<plan, pc, active>>

RECURSIVE SeqsOf(_, _)
SeqsOf(S, n) == IF n = 0 THEN {<<>>} ELSE {Append(s, x) : s \in SeqsOf(S, n - 1), x \in S}

Init == /\ plan \in [1..NG -> SeqsOf(OpNames, OpsPer)]
        /\ pc = [g \in 1..NG |-> 1] /\ active = [g \in 1..NG |-> FALSE]

Begin(g) == /\ ~active[g] /\ pc[g] <= OpsPer
            /\ active' = [active EXCEPT ![g] = TRUE] /\ UNCHANGED <<plan, pc>>
End(g) ==   /\ active[g]
            /\ active' = [active EXCEPT ![g] = FALSE] /\ pc' = [pc EXCEPT ![g] = @ + 1] /\ UNCHANGED plan
Next == \E g \in 1..NG : Begin(g) \/ End(g)
Spec == Init /\ [][Next]_vars

Cur(g) == FP(plan[g][pc[g]])
NoConflict ==
  \A g, h \in 1..NG : (g # h /\ active[g] /\ active[h]) =>
     \A c \in Cur(g).w : (c \in Cur(h).r \cup Cur(h).w) => (c \in Cur(g).lock /\ c \in Cur(h).lock)

Done == \A g \in 1..NG : pc[g] > OpsPer
=============================================================================
