----------------------------- MODULE LinkStore -----------------------------
(***************************************************************************)
(* LinkSystem.Store as the multi-step program it is: open the storage      *)
(* writer, the encoder performs its writes through the tee (storage +      *)
(* hasher), the encoder returns, the link is built, the block is           *)
(* committed.  Environment: the storage writer fails at the k-th write,    *)
(* the encoder itself fails (unencodable node) after j writes, the open    *)
(* fails.  C06: a store whose encoding fails never commits a block.        *)
(***************************************************************************)
EXTENDS Integers, Sequences, TLC

CONSTANTS MaxWrites

VARIABLES nw,        \* number of writes the encoder wants to make
          failAt,    \* storage fails the failAt-th write (0: never)
          encFailAfter, \* encoder fails by itself after this many writes (-1: never)
          openFails,
          pc, written, committed, ret
vars == <<nw, failAt, encFailAfter, openFails, pc, written, committed, ret>>

Init ==
  /\ nw \in 1..MaxWrites
  /\ failAt \in 0..MaxWrites /\ failAt <= nw
  /\ encFailAfter \in -1..MaxWrites /\ encFailAfter < nw
  /\ openFails \in BOOLEAN
  /\ pc = "open" /\ written = 0 /\ committed = FALSE /\ ret = ""

Open == /\ pc = "open"
        /\ IF openFails THEN pc' = "done" /\ ret' = "error" ELSE pc' = "encode" /\ UNCHANGED ret
        /\ UNCHANGED <<nw, failAt, encFailAfter, openFails, written, committed>>

\* the encoder writes once more, or stops: finished, failed by itself, or told of a write error
Write ==
  /\ pc = "encode"
  /\ UNCHANGED <<nw, failAt, encFailAfter, openFails, committed>>
  /\ IF written = encFailAfter THEN pc' = "done" /\ ret' = "error" /\ UNCHANGED written
     ELSE IF written = nw THEN pc' = "commit" /\ UNCHANGED <<ret, written>>
     ELSE IF written + 1 = failAt THEN pc' = "done" /\ ret' = "error" /\ UNCHANGED written
     ELSE written' = written + 1 /\ UNCHANGED <<pc, ret>>

Commit == /\ pc = "commit"
          /\ committed' = TRUE /\ pc' = "done" /\ ret' = "ok"
          /\ UNCHANGED <<nw, failAt, encFailAfter, openFails, written>>

Next == Open \/ Write \/ Commit
Spec == Init /\ [][Next]_vars

NoCommitOnFailure == committed => (written = nw /\ ~openFails /\ (failAt = 0) /\ encFailAfter = -1)
ResultMatchesCommit == pc = "done" => (ret = "ok" <=> committed)
Done == pc = "done"
=============================================================================
