-------------------------------- MODULE Bind --------------------------------
(***************************************************************************)
(* bindnode as seen by a process: Wrap / Prototype / Unwrap / Marshal /    *)
(* Unmarshal over named Go types, with explicit or inferred schemas.       *)
(*                                                                         *)
(* The specified result of every call is a function of its arguments only  *)
(* -- never of which calls were made before.  The one piece of state the   *)
(* implementation has (the process-global type system that schema          *)
(* inference fills, infer.go defaultTypeSystem) is modelled explicitly so   *)
(* that the histories which exercise it (the same named type inferred      *)
(* twice, inferred after explicit, nested types inferred through two       *)
(* different parents) are generated: in the specification inference is     *)
(* idempotent (registering a name twice is a no-op).                       *)
(***************************************************************************)
EXTENDS Integers, Sequences, FiniteSets, TLC

CONSTANTS GoTypes,     \* set of named Go types (ids)
          Nested,      \* [GoTypes -> SUBSET GoTypes]: named types reachable from a type
          MaxOps

VARIABLES registered,  \* names in the process-global inferred type system
          n, hist
vars == <<registered, n, hist>>

Ops == {"Prototype", "Wrap", "WrapBuildUnwrap", "MarshalUnmarshal"}
Modes == {"explicit", "inferred"}

Init == registered = {} /\ n = 0 /\ hist = <<>>

Call(op, t, mode) ==
  /\ n < MaxOps /\ n' = n + 1
  /\ registered' = IF mode = "inferred" THEN registered \cup {t} \cup Nested[t] ELSE registered   \* idempotent
  /\ hist' = Append(hist, [op |-> op, t |-> t, mode |-> mode, r |-> "ok",
                           fresh |-> (mode = "inferred" => t \notin registered)])

Next == \E op \in Ops, t \in GoTypes, mode \in Modes : Call(op, t, mode)
Spec == Init /\ [][Next]_vars

\* purity: every call succeeds, whatever came before
AlwaysSucceeds == \A i \in DOMAIN hist : hist[i].r = "ok"
\* the registry only grows and never decides a result
RegistryMonotone == [][registered \subseteq registered']_vars
Done == n = MaxOps
=============================================================================
