----------------------------- MODULE Traversal -----------------------------
(***************************************************************************)
(* traversal.Progress.WalkAdv as an explicit-stack machine mirroring       *)
(* walk.go: walkAdv (node budget check, visit, choice of children by       *)
(* Interests), the `recurse` closure with the start-at-path filter,        *)
(* explore (selector step, link handling: visit-once, link budget, load,   *)
(* SkipMe), walkBlock.  One action per walkAdv entry and one per child     *)
(* considered.  Without a preloader (C15 excludes it).                     *)
(*                                                                         *)
(* A graph is a sequence of blocks (block 1 is the root); a link node is   *)
(* Scalar("link", <<b>>) pointing at block b.  Content addressing makes    *)
(* graphs acyclic: block b only links to blocks > b.                       *)
(***************************************************************************)
EXTENDS Selector

CONSTANTS Cases      \* set of [g: graph (Seq of block roots), sel: selector, cfg: Cfg record]
\* Cfg == [nb: node budget or -1, lb: link budget or -1, start: path (Seq of segments),
\*         once: BOOLEAN (LinkVisitOnlyOnce), skip: set of block ids the loader answers SkipMe for]

VARIABLES case,      \* the case being walked (constant through a behaviour)
          frames,    \* DFS stack; innermost last
          visits,    \* sequence of [path, reason ("m" match / "c" candidate), node]
          loads,     \* sequence of block ids requested from the link system, in order
          nb, lb,    \* remaining budgets (-1: unlimited)
          seen,      \* links already followed (LinkVisitOnlyOnce)
          err,       \* <<>> or <<kind, path>>: "node"/"link" budget exceeded
          done
vars == <<case, frames, visits, loads, nb, lb, seen, err, done>>

G   == case.g
Cfg == case.cfg
StartLen == Len(Cfg.start)

\* LookupBySegment: <<child>> or <<>> when the lookup fails
Lookup(n, seg) ==
  IF n.k = "map" THEN
    (IF \E i \in DOMAIN n.ks : n.ks[i] = seg THEN <<n.vs[CHOOSE i \in DOMAIN n.ks : n.ks[i] = seg]>> ELSE <<>>)
  ELSE IF n.k = "list" THEN
    (IF IsIdxSeg(seg) /\ SegIdx(seg) < Len(n.vs) THEN <<n.vs[SegIdx(seg) + 1]>> ELSE <<>>)
  ELSE <<>>

\* the children the walk will consider, in the order it considers them
Kids(n, s) ==
  LET attn == Interests(s) IN
  IF attn = ALL THEN Children(n)
  ELSE LET F[i \in 0..Len(attn)] ==
             IF i = 0 THEN <<>>
             ELSE IF Lookup(n, attn[i]) = <<>> THEN F[i - 1]
             ELSE Append(F[i - 1], <<attn[i], Lookup(n, attn[i])[1]>>)
       IN F[Len(attn)]

Frame(n, s, path, past) ==
  [n |-> n, s |-> s, path |-> path, ph |-> "enter", kids |-> <<>>, reached |-> FALSE, past |-> past]

Init ==
  /\ case \in Cases
  /\ frames = <<Frame(case.g[1], case.sel, <<>>, FALSE)>>
  /\ visits = <<>> /\ loads = <<>>
  /\ nb = case.cfg.nb /\ lb = case.cfg.lb
  /\ seen = {} /\ err = <<>>
  /\ done = ~Compiles(case.sel, FALSE)      \* a selector that does not compile is never walked

Top == frames[Len(frames)]
Pop == SubSeq(frames, 1, Len(frames) - 1)

(* walkAdv entry: node budget, visit, pick the children *)
Enter ==
  /\ ~done /\ frames # <<>> /\ Top.ph = "enter"
  /\ UNCHANGED <<case, loads, lb, seen>>
  /\ IF nb = 0
       THEN err' = <<"node", Top.path>> /\ done' = TRUE /\ UNCHANGED <<frames, visits, nb>>
       ELSE
         LET f0 == Top
             \* reify(): an ExploreInterpretAs clause AT this node replaces the node by its reification and itself by `next`
             f == IF f0.s.t = "as" THEN [f0 EXCEPT !.n = Reify(f0.n), !.s = f0.s.ss[1]] ELSE f0
             hidden == ~f.past /\ Len(f.path) < StartLen        \* before the start-at path: not visited
             m == MatchOf(f.s, f.n)
             v == IF m # Nil THEN [path |-> f.path, reason |-> "m", node |-> m]
                  ELSE [path |-> f.path, reason |-> "c", node |-> f.n]
             kids == IF f.n.k \in RecursiveKinds THEN Kids(f.n, f.s) ELSE <<>>
         IN /\ nb' = IF nb > 0 THEN nb - 1 ELSE nb
            /\ visits' = IF hidden THEN visits ELSE Append(visits, v)
            /\ frames' = IF kids = <<>> THEN Pop
                         ELSE [frames EXCEPT ![Len(frames)] = [f EXCEPT !.ph = "kids", !.kids = kids]]
            /\ UNCHANGED <<err, done>>

(* one child of the innermost node: the start-at filter of `recurse`, then explore *)
Child ==
  /\ ~done /\ frames # <<>> /\ Top.ph = "kids"
  /\ UNCHANGED <<case, visits, nb>>
  /\ LET f == Top
         seg == f.kids[1][1]   v == f.kids[1][2]
         rest == Tail(f.kids)
         \* --- recurse(): start-at bookkeeping
         filtering == StartLen > 0 /\ ~f.reached /\ ~f.past /\ Len(f.path) < StartLen
         hit == filtering /\ seg = Cfg.start[Len(f.path) + 1]
         past2 == IF StartLen > 0 /\ f.reached THEN TRUE ELSE f.past
         reached2 == f.reached \/ hit
         skipped == filtering /\ ~hit
         f2 == [f EXCEPT !.kids = rest, !.reached = reached2, !.past = past2]
         base == IF rest = <<>> THEN Pop ELSE [frames EXCEPT ![Len(frames)] = f2]
         \* --- explore()
         sn == Explore(f.s, f.n, seg, v)
         path2 == Append(f.path, seg)
     IN IF skipped \/ sn = NILSEL THEN
            frames' = base /\ UNCHANGED <<loads, lb, seen, err, done>>
        ELSE IF v.k # "link" THEN
            frames' = Append(base, Frame(v, sn, path2, past2)) /\ UNCHANGED <<loads, lb, seen, err, done>>
        ELSE LET b == v.a[1] IN
          IF Cfg.once /\ b \in seen THEN
            frames' = base /\ UNCHANGED <<loads, lb, seen, err, done>>
          ELSE IF lb = 0 THEN
            /\ err' = <<"link", path2>> /\ done' = TRUE
            /\ seen' = IF Cfg.once THEN seen \cup {b} ELSE seen
            /\ UNCHANGED <<frames, loads, lb>>
          ELSE
            /\ seen' = IF Cfg.once THEN seen \cup {b} ELSE seen
            /\ lb' = IF lb > 0 THEN lb - 1 ELSE lb
            /\ loads' = Append(loads, b)
            /\ UNCHANGED <<err, done>>
            /\ frames' = IF b \in Cfg.skip THEN base             \* the loader answers SkipMe
                         ELSE Append(base, Frame(G[b], sn, path2, past2))

Finish ==
  /\ ~done /\ frames = <<>>
  /\ done' = TRUE
  /\ UNCHANGED <<case, frames, visits, loads, nb, lb, seen, err>>

Next == Enter \/ Child \/ Finish
Spec == Init /\ [][Next]_vars

------------------------------------------------------------------------------
(* C14: resolving a path from the root (traversal.Get / Focus): map by key, list by index, *)
(* links loaded on the way; <<>> when a segment is missing or a scalar is reached early    *)
RECURSIVE Resolve(_, _, _)
Resolve(g, n, path) ==
  IF n.k = "link" THEN Resolve(g, g[n.a[1]], path)     \* the node AT a path is never a link: links are loaded
  ELSE IF path = <<>> THEN <<n>>
  ELSE LET c == Lookup(n, path[1]) IN
       IF c = <<>> THEN <<>> ELSE Resolve(g, c[1], Tail(path))

\* every visited path resolves to the visited node (modulo the slice a subset matcher takes)
\* (below a reified node the reported paths are relative to the REIFIED view -- that is what an ADL is for -- so walks
\* that interpret nodes through an ADL are outside this statement)
VisitedPathsResolve ==
  ~HasAs(case.sel) =>
  \A i \in DOMAIN visits :
     LET r == Resolve(G, G[1], visits[i].path) IN
     r # <<>> /\ (visits[i].reason = "c" => r[1] = visits[i].node)
              /\ (visits[i].reason = "m" => (r[1] = visits[i].node \/ r[1].k \in {"string", "bytes"}))

\* a walk visits each path in document (pre-)order: no visit's path is a proper prefix of an EARLIER one
IsPrefix(p, q) == Len(p) <= Len(q) /\ SubSeq(q, 1, Len(p)) = p
\* (a union whose members name the same field explores that field once PER member -- the members' interests are
\* concatenated, as in the code -- so a path can be visited twice; the order statement is about walks that do not)
NoPathTwice == \A i, j \in DOMAIN visits : i # j => visits[i].path # visits[j].path
ParentsBeforeChildren ==
  NoPathTwice =>
  \A i, j \in DOMAIN visits : (i < j) => ~(IsPrefix(visits[j].path, visits[i].path) /\ visits[j].path # visits[i].path)

BudgetRespected ==
  /\ (Cfg.nb >= 0 => Len(visits) <= Cfg.nb)
  /\ (Cfg.lb >= 0 => Len(loads) <= Cfg.lb)
  /\ (Cfg.once => \A i, j \in DOMAIN loads : loads[i] = loads[j] => i = j)

Done == done
(***************************************************************************)
(* Preloader (traversal.Config.Preloader).  Before the walk proper enters  *)
(* a block, the code makes a lateral pass over that block with the same    *)
(* selector and reports the links it meets to the preloader, without       *)
(* loading them.  The pass is not a transition of this machine: it has no  *)
(* effect on frames, visits, loads or budgets of an uncontrolled walk.     *)
(* What the replay checks for every uncontrolled case, as a second run     *)
(* with a recording preloader:                                             *)
(*   PreloaderIsTransparent  visits and loads are exactly those of this    *)
(*                           machine (i.e. of the run without a preloader) *)
(*   LoadedWasAnnounced      Range(loads) \subseteq announced              *)
(* With budgets the documentation calls the announced set approximate      *)
(* (C15 excludes that combination); no relation is checked there.          *)
(***************************************************************************)
=============================================================================
